/* Witness unit: instantiations of the public iteration macros, compiled with the library's flags on every run so that
 * the rules about macro bodies (C06.R6) see real IR.  Never linked, never executed. */
#define __STRICT_ANSI__ 1
#include "json.h"
#include "linkhash.h"

int jcv_wa_foreach_del(struct json_object *o)
{
	int n = 0;
	json_object_object_foreach(o, key, val)
	{
		(void)val;
		n++;
		json_object_object_del(o, key);
	}
	return n;
}

int jcv_wa_lh_foreach_safe_del(struct lh_table *t)
{
	int n = 0;
	struct lh_entry *e, *tmp;
	lh_foreach_safe(t, e, tmp)
	{
		n++;
		lh_table_delete_entry(t, e);
	}
	return n;
}
