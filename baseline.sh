#!/bin/sh
# Runs the repository's own suite with no verification guard defined (there are no hooks).
set -e
B=${JCV_BASELINE_BUILD:-/repo/_build}
[ -f "$B/build.ninja" ] || cmake -G Ninja -S /repo -B "$B" >/dev/null
cmake --build "$B" >/dev/null
exec ctest --test-dir "$B" -j8 --timeout 900
