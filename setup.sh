#!/bin/sh
# Offline setup: configure the analysis variants of /repo out of tree and warm the IR cache.
set -e
cd "$(dirname "$0")"
python3 -m jcv.frontend default >/dev/null
python3 -m jcv.frontend threading >/dev/null
echo "jcv setup ok"
