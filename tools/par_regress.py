#!/usr/bin/env python3
"""Parallel regression of the checkers themselves (developer tool, not a registered check).

Runs, each in its own scratch worktree of /repo under /tmp and with its own analysis cache, so /repo is never touched:
  clean    every check on the unchanged HEAD                           -> exit 0 expected
  benign   every stored behaviour-preserving refactoring x all checks  -> every check exit 0 (exit 2 tolerated where listed)
  seeds    every stored seeded change x the checks named in meta.json  -> at least one check exit 1
  mutants  every developer mutant of tools/selftest.py                 -> fire (exit 1, needle in the report) or stay silent

usage: tools/par_regress.py [-j N] [clean] [benign] [seeds] [mutants] [--only REGEX]
"""
import json
import os
import re
import shutil
import subprocess
import sys
import time
from concurrent.futures import ThreadPoolExecutor
import queue

V = os.path.dirname(os.path.dirname(os.path.abspath(__file__)))
REPO = "/repo"
PROPS = ["C%02d" % k for k in range(1, 21)]
# refactorings that fold away the function a rule is anchored in: analysis-broken (exit 2) for that check is the documented outcome
TOLERATED_BROKEN = {}


def sh(cmd, **kw):
    return subprocess.run(cmd, shell=isinstance(cmd, str), stdout=subprocess.PIPE, stderr=subprocess.STDOUT, text=True, **kw)


class Worker:
    def __init__(self, k):
        self.k = k
        self.repo = "/tmp/pr%s-%d" % (os.environ.get("PR_TAG", ""), k)
        self.work = "/tmp/prw%s-%d" % (os.environ.get("PR_TAG", ""), k)
        sh("git -C %s worktree remove --force %s" % (REPO, self.repo))
        shutil.rmtree(self.repo, ignore_errors=True)
        r = sh("git -C %s worktree add -q --detach %s HEAD" % (REPO, self.repo))
        if r.returncode != 0:
            raise SystemExit("cannot create %s: %s" % (self.repo, r.stdout))
        os.makedirs(self.work, exist_ok=True)
        self.env = dict(os.environ, JCV_REPO=self.repo, JCV_WORK=self.work, JCV_EVIDENCE=os.path.join(self.work, "evidence"))

    def reset(self):
        sh("git -C %s checkout -q -- ." % self.repo)
        sh("git -C %s clean -q -fd" % self.repo)

    def check(self, prop, tier="quick"):
        t0 = time.time()
        r = sh([os.path.join(V, "check"), prop, "--tier", tier, "--brief"], env=self.env, timeout=3000)
        return r.returncode, r.stdout, time.time() - t0

    def close(self):
        sh("git -C %s worktree remove --force %s" % (REPO, self.repo))
        shutil.rmtree(self.repo, ignore_errors=True)
        shutil.rmtree(self.work, ignore_errors=True)


def vio(out):
    return [l for l in out.split("\n") if l.startswith("  ")]


def job_clean(w, prop):
    w.reset()
    rc, out, dt = w.check(prop)
    ok = rc == 0 and "VIOLATION" not in out
    return ok, "clean %s rc=%d (%.0fs)%s" % (prop, rc, dt, "" if ok else "\n" + "\n".join(out.split("\n")[-8:]))


def job_patch_all(w, name, patch):
    """behaviour-preserving refactoring: all checks silent"""
    w.reset()
    r = sh("git -C %s apply %s" % (w.repo, patch))
    if r.returncode != 0:
        return False, "benign %s: patch does not apply" % name
    bad = []
    for p in PROPS:
        rc, out, dt = w.check(p)
        if rc == 0 and "VIOLATION" not in out:
            continue
        if rc == 2 and p in TOLERATED_BROKEN.get(name, ()):
            continue
        first = (vio(out) or [l for l in out.split("\n") if "ANALYSIS-BROKEN" in l] or ["?"])[0]
        bad.append("%s rc=%d %s" % (p, rc, first.strip()[:230]))
    w.reset()
    return not bad, "benign %s: %s" % (name, "all 20 checks silent" if not bad else "\n    " + "\n    ".join(bad))


def job_seed(w, name, d):
    w.reset()
    m = json.load(open(os.path.join(d, "meta.json")))
    props = re.findall(r"\bC[0-9][0-9]\b", m.get("checked_with", "")) or [m["property"]]
    r = sh("git -C %s apply %s" % (w.repo, os.path.join(d, "patch.diff")))
    if r.returncode != 0:
        return False, "seed %s: patch does not apply" % name
    caught = []
    for p in props:
        rc, out, dt = w.check(p)
        if rc == 1:
            rules = sorted({l.split()[0] for l in vio(out) if re.match(r"\s+C[0-9][0-9]\.", l)})
            caught.append(p + ("[" + ",".join(rules[:4]) + "]" if rules else ""))
    w.reset()
    if m.get("not_caught"):
        # recorded honestly as outside the reach of the present rules (see meta.json / DESIGN 7.4); a check that starts catching
        # it is welcome, a miss is not a regression
        return True, "seed %s: recorded as not caught (%s)" % (name, "now caught by " + " ".join(caught) if caught else "still not caught")
    if m.get("neutralised"):
        return True, "seed %s: neutralised by a later fix (%s)" % (name, "caught by " + " ".join(caught) if caught else "not caught, as expected")
    return bool(caught), "seed %s: %s" % (name, ("caught by " + " ".join(caught)) if caught else "MISSED (checked %s)" % " ".join(props))


def job_mutant(w, m):
    w.reset()
    if m.get("patch"):
        r = sh("git -C %s apply %s" % (w.repo, m["patch"]))
        if r.returncode != 0:
            return False, "mutant %s: patch does not apply" % m["id"]
    else:
        path = os.path.join(w.repo, m["file"])
        src = open(path).read()
        if src.count(m["old"]) != 1:
            return False, "mutant %s: pattern occurs %d times in %s" % (m["id"], src.count(m["old"]), m["file"])
        open(path, "w").write(src.replace(m["old"], m["new"]))
    rc, out, dt = w.check(m["prop"], m["tier"])
    w.reset()
    fired = rc == 1 and "VIOLATION property=%s" % m["prop"] in out
    vl = vio(out)
    if m["expect"] == "fire":
        ok = fired and (not m["needle"] or any(m["needle"] in l for l in vl))
    else:
        ok = rc == 0 and not fired
    return ok, "mutant %-34s %s rc=%d %s" % (m["id"], m["expect"], rc, (vl[0].strip()[:150] if vl else ""))


def main():
    args = sys.argv[1:]
    jobs_n = 8
    only = None
    if "-j" in args:
        k = args.index("-j")
        jobs_n = int(args[k + 1])
        del args[k:k + 2]
    if "--only" in args:
        k = args.index("--only")
        only = args[k + 1]
        del args[k:k + 2]
    kinds = args or ["clean", "benign", "seeds", "mutants"]
    tasks = []
    if "clean" in kinds:
        tasks += [("clean " + p, job_clean, (p,)) for p in PROPS]
    if "benign" in kinds:
        for b in sorted(os.listdir(os.path.join(V, "benign"))):
            tasks.append(("benign " + b, job_patch_all, (b, os.path.join(V, "benign", b, "patch.diff"))))
    if "seeds" in kinds:
        for s_ in sorted(os.listdir(os.path.join(V, "seeded"))):
            tasks.append(("seed " + s_, job_seed, (s_, os.path.join(V, "seeded", s_))))
    if "mutants" in kinds:
        sys.path.insert(0, os.path.join(V, "tools"))
        import selftest
        for m in selftest.MUTANTS:
            tasks.append(("mutant " + m["id"], job_mutant, (m,)))
    if only:
        tasks = [t for t in tasks if re.search(only, t[0])]
    # long jobs first
    tasks.sort(key=lambda t: 0 if t[0].startswith("benign") else 1 if t[0].startswith("seed") else 2)
    pool = queue.Queue()
    workers = [Worker(k) for k in range(min(jobs_n, max(1, len(tasks))))]
    for w in workers:
        pool.put(w)
    fails = []
    t0 = time.time()

    def run(t):
        w = pool.get()
        try:
            ok, msg = t[1](w, *t[2])
        except Exception as e:
            ok, msg = False, "%s: exception %r" % (t[0], e)
        finally:
            pool.put(w)
        print(("ok   " if ok else "FAIL ") + msg, flush=True)
        if not ok:
            fails.append(t[0])
    try:
        with ThreadPoolExecutor(len(workers)) as ex:
            list(ex.map(run, tasks))
    finally:
        for w in workers:
            w.close()
    print("par_regress: %d task(s), %d failure(s), %.0f s" % (len(tasks), len(fails), time.time() - t0))
    for f in fails:
        print("  failed: " + f)
    sys.exit(1 if fails else 0)


if __name__ == "__main__":
    main()
