#!/bin/sh
# usage: tools/verify_seed.sh <seed dir with patch.diff + run.sh> <name>
# Confirms: demo passes on unchanged HEAD, patch applies, builds, full suite passes, demo fails with the patch.
set -u
SEED=$1; NAME=$2
WT=/tmp/vt-$NAME
git -C /repo worktree remove --force $WT 2>/dev/null
git -C /repo worktree add -q --detach $WT HEAD || exit 2
cd $WT
cmake -G Ninja -S $WT -B $WT/_b0 >/dev/null 2>&1 && cmake --build $WT/_b0 >/dev/null 2>&1 || { echo "baseline build failed"; exit 2; }
sh $SEED/run.sh $WT/_b0 $WT >/tmp/vs-$NAME-base.log 2>&1; B=$?
git apply $SEED/patch.diff || { echo "patch does not apply"; git -C /repo worktree remove --force $WT; exit 2; }
cmake -G Ninja -S $WT -B $WT/_b >/dev/null 2>&1 && cmake --build $WT/_b >/tmp/vs-$NAME-build.log 2>&1 || { echo "patched build failed"; tail -5 /tmp/vs-$NAME-build.log; git -C /repo worktree remove --force $WT; exit 2; }
ctest --test-dir $WT/_b -j8 >/tmp/vs-$NAME-ctest.log 2>&1; C=$?
sh $SEED/run.sh $WT/_b $WT >/tmp/vs-$NAME-patched.log 2>&1; P=$?
echo "seed=$NAME baseline_demo_rc=$B ctest_rc=$C ($(grep 'tests passed' /tmp/vs-$NAME-ctest.log)) patched_demo_rc=$P"
cd /
git -C /repo worktree remove --force $WT
[ $B -eq 0 ] && [ $C -eq 0 ] && [ $P -ne 0 ]
