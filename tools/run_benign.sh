#!/bin/sh
# usage: tools/run_benign.sh <dir with patch.diff> : apply a behaviour-preserving refactoring to /repo, build + test it,
# run every check (all must stay silent: exit 0), undo.
D=$1
git -C /repo diff --quiet || { echo "/repo dirty"; exit 2; }
git -C /repo apply $D/patch.diff || { echo "patch does not apply"; exit 2; }
cmake --build /repo/_build >/tmp/rb-build.log 2>&1 || { echo "BUILD FAILED"; tail -5 /tmp/rb-build.log; git -C /repo checkout -- .; exit 2; }
ctest --test-dir /repo/_build -j8 >/tmp/rb-ctest.log 2>&1 || { echo "TESTS FAILED"; git -C /repo checkout -- .; exit 2; }
bad=0
for P in C01 C02 C03 C04 C05 C06 C07 C08 C09 C10 C11 C12 C13 C14 C15 C16 C17 C18 C19 C20; do
  timeout 1500 /verif/check $P --brief > /tmp/rb-$P.log 2>&1; rc=$?
  if [ $rc -ne 0 ]; then
    bad=1
    echo "  $P rc=$rc: $(grep -A1 '^VIOLATION\|ANALYSIS-BROKEN' /tmp/rb-$P.log | grep -v '^VIOLATION\|^--' | head -3 | cut -c1-260)"
  fi
done
git -C /repo checkout -- .
cmake --build /repo/_build >/dev/null 2>&1
[ $bad -eq 0 ] && echo "  all 20 checks silent"
exit $bad
