#!/usr/bin/env python3
"""Developer self-test (not a registered check): apply one mutant at a time to /repo's working tree,
run the named check, verify it fires (naming the mutated function) or stays silent (benign variant),
and restore the tree with `git checkout`.

usage: tools/selftest.py [PROP ...]   (default: all)
"""
import json
import os
import subprocess
import sys

HERE = os.path.dirname(os.path.dirname(os.path.abspath(__file__)))
REPO = os.environ.get("JCV_REPO", "/repo")

# (id, property, file, old, new, expectation, text that must appear in the output when firing)
MUTANTS = []


def M(mid, prop, file, old, new, expect="fire", needle="", tier="quick"):
    MUTANTS.append(dict(id=mid, prop=prop, file=file, old=old, new=new, expect=expect, needle=needle, tier=tier))


# ---- C08 -------------------------------------------------------------------------------------
M("c08-drop-null-check", "C08", "printbuf.c",
  "\tp = (struct printbuf *)calloc(1, sizeof(struct printbuf));\n\tif (!p)\n\t\treturn NULL;\n",
  "\tp = (struct printbuf *)calloc(1, sizeof(struct printbuf));\n", needle="printbuf_new")
M("c08-leak-on-rollback", "C08", "json_tokener.c",
  "\tif (!tok->pb)\n\t{\n\t\tfree(tok->stack);\n\t\tfree(tok);\n",
  "\tif (!tok->pb)\n\t{\n\t\tfree(tok);\n", needle="json_tokener_new_ex")
M("c08-drop-put-on-failure", "C08", "json_tokener.c",
  "\t\t\t\tjson_object_put(obj);\n\t\t\t\ttok->err = json_tokener_error_memory;\n\t\t\t\tgoto out;\n\t\t\t}\n\t\t\tsaved_state = json_tokener_state_array_sep;",
  "\t\t\t\ttok->err = json_tokener_error_memory;\n\t\t\t\tgoto out;\n\t\t\t}\n\t\t\tsaved_state = json_tokener_state_array_sep;",
  needle="json_object_array_add")
M("c08-new-dropped-append", "C08", "json_object.c",
  "\treturn printbuf_memappend(pb, sbuf, strlen(sbuf));\n}\n\nstruct json_object *json_object_new_int(",
  "\tprintbuf_memappend(pb, sbuf, strlen(sbuf));\n\treturn 0;\n}\n\nstruct json_object *json_object_new_int(",
  needle="json_object_int_to_json_string")
M("c08-benign-reorder", "C08", "json_tokener.c",
  "\t\tfree(tok->stack);\n\t\tfree(tok);\n\t\treturn NULL;\n\t}\n\ttok->max_depth = depth;",
  "\t\tstruct json_tokener_srec *st = tok->stack;\n\t\tfree(tok);\n\t\tfree(st);\n\t\treturn NULL;\n\t}\n\ttok->max_depth = depth;",
  expect="silent")
# ---- C10 -------------------------------------------------------------------------------------
M("c10-weaken-guard", "C10", "json_object.c",
  "if (JC_DOUBLE_C(jso)->c_double >= (double)INT64_MAX)", "if (JC_DOUBLE_C(jso)->c_double > (double)INT64_MAX)",
  needle="json_object_get_int64")
M("c10-drop-nan", "C10", "json_object.c",
  "\t\tif (isnan(cdouble))\n\t\t{\n\t\t\terrno = EINVAL;\n\t\t\treturn INT32_MIN;\n\t\t}\n", "", needle="json_object_get_int")
M("c10-signed-negate", "C10", "json_object.c",
  "jsoint->cint.c_uint64 -= (0 - (uint64_t)val);", "jsoint->cint.c_uint64 -= (uint64_t)(-val);", needle="json_object_int_inc")
M("c10-drop-erange", "C10", "json_object.c",
  "\t\tif (cint64 > INT32_MAX)\n\t\t{\n\t\t\terrno = ERANGE;\n", "\t\tif (cint64 > INT32_MAX)\n\t\t{\n", needle="json_object_get_int")
M("c10-wrong-tag", "C10", "json_object.c",
  "\tJC_INT(jso)->cint.c_uint64 = new_value;\n\tJC_INT(jso)->cint_type = json_object_int_type_uint64;",
  "\tJC_INT(jso)->cint.c_uint64 = new_value;\n\tJC_INT(jso)->cint_type = json_object_int_type_int64;", needle="json_object_set_uint64")
M("c10-benign-rewrite", "C10", "json_object.c",
  "if (JC_DOUBLE_C(jso)->c_double >= (double)INT64_MAX)", "if (!(JC_DOUBLE_C(jso)->c_double < (double)INT64_MAX) && !isnan(JC_DOUBLE_C(jso)->c_double))",
  expect="silent")
# ---- C14 -------------------------------------------------------------------------------------
M("c14-early-return", "C14", "json_tokener.c",
  "\t\t\tdefault: tok->err = json_tokener_error_parse_unexpected; goto out;\n\t\t\t}\n\t\t\tbreak;\n\n\t\tcase json_tokener_state_finish:",
  "\t\t\tdefault: tok->err = json_tokener_error_parse_unexpected; return NULL;\n\t\t\t}\n\t\t\tbreak;\n\n\t\tcase json_tokener_state_finish:",
  needle="uselocale")
M("c14-drop-freelocale", "C14", "json_tokener.c",
  "\tuselocale(oldlocale);\n\tfreelocale(newloc);\n", "\tuselocale(oldlocale);\n", needle="newlocale")
M("c14-drop-fixup", "C14", "json_object.c",
  "\t\tp = strchr(buf, ',');\n\t\tif (p)\n\t\t\t*p = '.';\n\t\telse\n\t\t\tp = strchr(buf, '.');\n",
  "\t\tp = strchr(buf, '.');\n", needle="json_object_double_to_json_string_format")
M("c14-strtod-outside", "C14", "json_tokener.c",
  "\tif (tok->err == json_tokener_success)\n\t{\n\t\tjson_object *ret = json_object_get(current);",
  "\tif (tok->err == json_tokener_success)\n\t{\n\t\tdouble dd; json_tokener_parse_double(\"1.5\", 3, &dd);\n\t\tjson_object *ret = json_object_get(current);",
  needle="strtod")
# ---- C18 -------------------------------------------------------------------------------------
M("c18-plain-decrement", "C18", "json_object.c",
  "\tif (__sync_sub_and_fetch(&jso->_ref_count, 1) > 0)\n\t\treturn 0;\n#else",
  "\tif (--jso->_ref_count > 0)\n\t\treturn 0;\n#else", needle="json_object_put")
M("c18-reread-counter", "C18", "json_object.c",
  "\tif (__sync_sub_and_fetch(&jso->_ref_count, 1) > 0)\n\t\treturn 0;\n#else",
  "\t__sync_sub_and_fetch(&jso->_ref_count, 1);\n\tif (jso->_ref_count > 0)\n\t\treturn 0;\n#else", needle="json_object_put")
M("c18-seed-plain-store", "C18", "linkhash.c",
  "\t\t(void)__sync_val_compare_and_swap(&random_seed, -1, seed);\n", "\t\trandom_seed = seed;\n", needle="lh_char_hash")
M("c18-use-local-seed", "C18", "linkhash.c",
  "\treturn hashlittle((const char *)k, strlen((const char *)k), (uint32_t)random_seed);",
  "\treturn hashlittle((const char *)k, strlen((const char *)k), (uint32_t)json_c_get_random_seed());", needle="lh_char_hash")
M("c18-new-global", "C18", "json_object.c",
  "struct json_object *json_object_get(struct json_object *jso)\n{\n",
  "static int jcv_get_calls;\nstruct json_object *json_object_get(struct json_object *jso)\n{\n\tjcv_get_calls++;\n", needle="jcv_get_calls")

# ---- C13 -------------------------------------------------------------------------------------
M("c13-drop-null-guard", "C13", "json_patch.c",
  "\tif (from_s == NULL) {\n\t\t_set_err(EINVAL, \"Invalid from field\");\n\t\treturn -1;\n\t}\n", "",
  needle="json_patch_apply_move_copy")
M("c13-swap-flags", "C13", "json_patch.c",
  "rc = json_patch_apply_move_copy(base, patch_elem, path, 0, patch_error);", "rc = json_patch_apply_move_copy(base, patch_elem, path, 1, patch_error);",
  needle="copy")
M("c13-replace-no-exist-check", "C13", "json_patch.c",
  "\tif (!add && json_pointer_get(*res, path, NULL)) {", "\tif (0 && json_pointer_get(*res, path, NULL)) {", needle="replace")
M("c13-cb-swapped", "C13", "json_patch.c",
  "\tif (*add)\n\t\trc = json_object_array_insert_idx(parent, idx, value);\n\telse\n\t\trc = json_object_array_put_idx(parent, idx, value);",
  "\tif (!*add)\n\t\trc = json_object_array_insert_idx(parent, idx, value);\n\telse\n\t\trc = json_object_array_put_idx(parent, idx, value);",
  needle="json_object_array_insert_idx_cb")
M("c13-mutate-patch", "C13", "json_patch.c",
  "\tif (!json_object_equal(value1, value2)) {", "\tjson_object_object_del(patch_elem, \"value\");\n\tif (!json_object_equal(value1, value2)) {",
  needle="json_object_object_del")
M("c13-leak-ref-on-failure", "C13", "json_patch.c",
  "\t\t_set_err(errno, \"Failed to set value at path referenced by 'path' field\");\n\t\tjson_object_put(value);\n",
  "\t\t_set_err(errno, \"Failed to set value at path referenced by 'path' field\");\n", needle="json_object_get")
M("c13-failure-idx-late", "C13", "json_patch.c",
  "\t\tpatch_error->patch_failure_idx = ii;\n\n\t\tif (!json_object_object_get_ex(patch_elem, \"op\", &jop)) {",
  "\t\tif (!json_object_object_get_ex(patch_elem, \"op\", &jop)) {\n\t\t\tpatch_error->patch_failure_idx = ii;", needle="index")
M("c13-del-escaped-key", "C13", "json_patch.c",
  "\t\tjson_pointer_unescape_token(key);\n\t\tjson_object_object_del(jpres->parent, key);", "\t\tjson_object_object_del(jpres->parent, key);", needle="C13.R6")
M("c13-benign-guard-style", "C13", "json_patch.c",
  "\t\tif (op == NULL) {", "\t\tif (!op) {", expect="silent")

# ---- C12 -------------------------------------------------------------------------------------
M("c12-accept-empty", "C12", "json_pointer.c",
  "\tif (len == 0)\n\t{\n\t\terrno = EINVAL;\n\t\treturn 0;\n\t}\n", "", needle="for the token ''")
M("c12-accept-leading-zero", "C12", "json_pointer.c",
  "\tif (path[0] == '0')\n\t{\n\t\terrno = EINVAL;\n\t\treturn 0;\n\t}\n", "", needle="leading zero")
M("c12-null-not-found", "C12", "json_pointer.c",
  "\t\tobj = json_object_array_get_idx(obj, *idx);\n\t\tif (value)\n\t\t\t*value = obj;\n\t\treturn 0;",
  "\t\tobj = json_object_array_get_idx(obj, *idx);\n\t\tif (!obj)\n\t\t{\n\t\t\terrno = ENOENT;\n\t\t\treturn -1;\n\t\t}\n\t\tif (value)\n\t\t\t*value = obj;\n\t\treturn 0;",
  needle="json_object_array_get_idx")
M("c12-unescape-order", "C12", "json_pointer.c",
  "\tstring_replace_all_occurrences_with_char(path, \"~1\", '/');\n\tstring_replace_all_occurrences_with_char(path, \"~0\", '~');",
  "\tstring_replace_all_occurrences_with_char(path, \"~0\", '~');\n\tstring_replace_all_occurrences_with_char(path, \"~1\", '/');",
  needle="~0")
M("c12-write-caller-string", "C12", "json_pointer.c",
  "\trc = json_pointer_result_get_recursive(obj, path_copy, res);\n\t/* re-map",
  "\trc = json_pointer_result_get_recursive(obj, (char *)(uintptr_t)path, res);\n\t/* re-map", needle="caller")
M("c12-leak-copy", "C12", "json_pointer.c",
  "\trc = json_pointer_object_get_recursive(*obj, path_copy, &set);\n\tfree(path_copy);\n",
  "\trc = json_pointer_object_get_recursive(*obj, path_copy, &set);\n\tif (rc == 0)\n\t\tfree(path_copy);\n", needle="strdup")
M("c12-drop-range-check", "C12", "json_pointer.c",
  "\t\tif (*idx >= json_object_array_length(obj))\n\t\t{\n\t\t\terrno = ENOENT;\n\t\t\treturn -1;\n\t\t}\n", "", needle="array length")
M("c12-benign-digit-test", "C12", "json_pointer.c",
  "\tif (path[0] == '0')\n\t{", "\tif (!(path[0] != '0'))\n\t{", expect="silent")

# ---- C17 -------------------------------------------------------------------------------------
M("c17-pop-skips-second", "C17", "json_visit.c",
  "\t\t\tuserret = _json_c_visit(child, jso, NULL, &ii, userfunc, userarg);\n\t\t\tif (userret == JSON_C_VISIT_RETURN_POP)\n\t\t\t\tbreak;",
  "\t\t\tuserret = _json_c_visit(child, jso, NULL, &ii, userfunc, userarg);\n\t\t\tif (userret == JSON_C_VISIT_RETURN_POP)\n\t\t\t\treturn JSON_C_VISIT_RETURN_CONTINUE;",
  needle="array node")
M("c17-skip-stops-siblings", "C17", "json_visit.c",
  "\t\t\tuserret = _json_c_visit(child, jso, key, NULL, userfunc, userarg);\n\t\t\tif (userret == JSON_C_VISIT_RETURN_POP)\n\t\t\t\tbreak;",
  "\t\t\tuserret = _json_c_visit(child, jso, key, NULL, userfunc, userarg);\n\t\t\tif (userret == JSON_C_VISIT_RETURN_POP || userret == JSON_C_VISIT_RETURN_SKIP)\n\t\t\t\tbreak;",
  needle="object node")
M("c17-second-flag-missing", "C17", "json_visit.c",
  "\tuserret = userfunc(jso, JSON_C_VISIT_SECOND, parent_jso, jso_key, jso_index, userarg);",
  "\tuserret = userfunc(jso, 0, parent_jso, jso_key, jso_index, userarg);", needle="")
M("c17-stop-maps-error", "C17", "json_visit.c",
  "\tcase JSON_C_VISIT_RETURN_POP:\n\tcase JSON_C_VISIT_RETURN_STOP: return 0;", "\tcase JSON_C_VISIT_RETURN_POP: return 0;", needle="STOP")
M("c17-array-from-one", "C17", "json_visit.c",
  "\t\tfor (ii = 0; ii < array_len; ii++)", "\t\tfor (ii = 1; ii < array_len; ii++)", needle="array")
M("c17-wrong-parent", "C17", "json_visit.c",
  "userret = _json_c_visit(child, jso, key, NULL, userfunc, userarg);", "userret = _json_c_visit(child, parent_jso, key, NULL, userfunc, userarg);",
  needle="parent")
M("c17-other-code-continues", "C17", "json_visit.c",
  "\tdefault:\n\t\tfprintf(stderr, \"ERROR: invalid return value from json_c_visit userfunc: %d\\n\",\n\t\t        userret);\n\t\treturn JSON_C_VISIT_RETURN_ERROR;\n\t}\n\n\tswitch (json_object_get_type(jso))",
  "\tdefault:\n\t\tbreak;\n\t}\n\n\tswitch (json_object_get_type(jso))", needle="")
M("c17-benign-if-chain", "C17", "json_visit.c",
  "\tcase JSON_C_VISIT_RETURN_CONTINUE:\n\tcase JSON_C_VISIT_RETURN_SKIP:\n\tcase JSON_C_VISIT_RETURN_POP:\n\tcase JSON_C_VISIT_RETURN_STOP: return 0;\n\tdefault: return JSON_C_VISIT_RETURN_ERROR;\n\t}",
  "\tdefault: break;\n\t}\n\tif (ret == JSON_C_VISIT_RETURN_CONTINUE || ret == JSON_C_VISIT_RETURN_SKIP)\n\t\treturn 0;\n\tif (ret == JSON_C_VISIT_RETURN_POP || ret == JSON_C_VISIT_RETURN_STOP)\n\t\treturn 0;\n\treturn JSON_C_VISIT_RETURN_ERROR;",
  expect="silent")

# ---- C16 -------------------------------------------------------------------------------------
M("c16-strict-comment", "C16", "json_tokener.c",
  "\t\t\tif (c == '/' && !(tok->flags & JSON_TOKENER_STRICT))", "\t\t\tif (c == '/')", needle="comment")
M("c16-strict-trailing-comma-array", "C16", "json_tokener.c",
  "\t\t\t\tif (state == json_tokener_state_array_after_sep &&\n\t\t\t\t    (tok->flags & JSON_TOKENER_STRICT))",
  "\t\t\t\tif (0 && state == json_tokener_state_array_after_sep &&\n\t\t\t\t    (tok->flags & JSON_TOKENER_STRICT))", needle="trailing comma")
M("c16-strict-ctrl-in-key", "C16", "json_tokener.c",
  "\t\t\t\t\tsaved_state = json_tokener_state_object_field;\n\t\t\t\t\tstate = json_tokener_state_string_escape;\n\t\t\t\t\tbreak;\n\t\t\t\t}\n\t\t\t\telse if ((tok->flags & JSON_TOKENER_STRICT) && (unsigned char)c <= 0x1f)",
  "\t\t\t\t\tsaved_state = json_tokener_state_object_field;\n\t\t\t\t\tstate = json_tokener_state_string_escape;\n\t\t\t\t\tbreak;\n\t\t\t\t}\n\t\t\t\telse if ((tok->flags & JSON_TOKENER_STRICT) && (unsigned char)c < 0x1f)",
  needle="control character")
M("c16-strict-single-quote-value", "C16", "json_tokener.c",
  "\t\t\t\tif (tok->flags & JSON_TOKENER_STRICT)\n\t\t\t\t{\n\t\t\t\t\t/* in STRICT mode only double-quote are allowed */\n\t\t\t\t\ttok->err = json_tokener_error_parse_unexpected;\n\t\t\t\t\tgoto out;\n\t\t\t\t}\n",
  "", needle="single-quoted")
M("c16-strict-casecmp", "C16", "json_tokener.c",
  "\t\t\tif ((!(tok->flags & JSON_TOKENER_STRICT) &&\n\t\t\t     strncasecmp(json_true_str, tok->pb->buf, size1) == 0) ||",
  "\t\t\tif ((strncasecmp(json_true_str, tok->pb->buf, size1) == 0) ||", needle="case-insensitive")
M("c16-strict-trim", "C16", "json_tokener.c",
  "\t\t\tif (tok->is_double && !(tok->flags & JSON_TOKENER_STRICT))\n\t\t\t{\n\t\t\t\t/* Trim", "\t\t\tif (tok->is_double)\n\t\t\t{\n\t\t\t\t/* Trim", needle="trim")
M("c16-trailing-allowed-in-strict", "C16", "json_tokener.c",
  "\t    (tok->flags & (JSON_TOKENER_STRICT | JSON_TOKENER_ALLOW_TRAILING_CHARS)) ==\n\t        JSON_TOKENER_STRICT)",
  "\t    (tok->flags & (JSON_TOKENER_STRICT | JSON_TOKENER_ALLOW_TRAILING_CHARS)) ==\n\t        (JSON_TOKENER_STRICT | JSON_TOKENER_ALLOW_TRAILING_CHARS))", needle="trailing")
M("c16-default-rejects-comment-in-object", "C16", "json_tokener.c",
  "\t\t\tif (c == '/' && !(tok->flags & JSON_TOKENER_STRICT))", "\t\t\tif (c == '/' && !(tok->flags & JSON_TOKENER_STRICT) && saved_state != json_tokener_state_object_field_end)",
  needle="comment")
M("c16-benign-flag-test", "C16", "json_tokener.c",
  "\t\t\tif (c == '/' && !(tok->flags & JSON_TOKENER_STRICT))", "\t\t\tif (!(tok->flags & JSON_TOKENER_STRICT) && c == 0x2f)", expect="silent")

# ---- C15 -------------------------------------------------------------------------------------
M("c15-off-by-one-loose", "C15", "json_tokener.c",
  "\t\t\tif (tok->depth >= tok->max_depth - 1)\n\t\t\t{\n\t\t\t\ttok->err = json_tokener_error_depth;\n\t\t\t\tgoto out;\n\t\t\t}\n\t\t\tstate = json_tokener_state_object_value_add;",
  "\t\t\tif (tok->depth > tok->max_depth - 1)\n\t\t\t{\n\t\t\t\ttok->err = json_tokener_error_depth;\n\t\t\t\tgoto out;\n\t\t\t}\n\t\t\tstate = json_tokener_state_object_value_add;",
  needle="depth")
M("c15-off-by-one-tight", "C15", "json_tokener.c",
  "\t\t\t\tif (tok->depth >= tok->max_depth - 1)\n\t\t\t\t{\n\t\t\t\t\ttok->err = json_tokener_error_depth;",
  "\t\t\t\tif (tok->depth >= tok->max_depth - 2)\n\t\t\t\t{\n\t\t\t\t\ttok->err = json_tokener_error_depth;", needle="within the limit")
M("c15-alloc-one-less", "C15", "json_tokener.c",
  "calloc(depth, sizeof(struct json_tokener_srec));", "calloc(depth - 1, sizeof(struct json_tokener_srec));", needle="stack")
M("c15-accept-zero-depth", "C15", "json_tokener.c",
  "\tif (depth < 1)\n\t\treturn NULL;\n", "\tif (depth < 0)\n\t\treturn NULL;\n", needle="limit below 1")
M("c15-wrong-error", "C15", "json_tokener.c",
  "\t\t\t\tif (tok->depth >= tok->max_depth - 1)\n\t\t\t\t{\n\t\t\t\t\ttok->err = json_tokener_error_depth;",
  "\t\t\t\tif (tok->depth >= tok->max_depth - 1)\n\t\t\t\t{\n\t\t\t\t\ttok->err = json_tokener_error_parse_array;", needle="")
M("c15-pop-unguarded", "C15", "json_tokener.c",
  "\t\t\tif (tok->depth == 0)\n\t\t\t\tgoto out;\n\t\t\tobj = json_object_get(current);",
  "\t\t\tif (tok->depth == 0 && c)\n\t\t\t\tgoto out;\n\t\t\tobj = json_object_get(current);", needle="depth")
M("c15-fromfd-ignores-depth", "C15", "json_util.c",
  "tok = json_tokener_new_ex(depth);", "tok = json_tokener_new_ex(JSON_TOKENER_DEFAULT_DEPTH);", needle="json_object_from_fd_ex")
M("c15-benign-guard-form", "C15", "json_tokener.c",
  "\t\t\tif (tok->depth >= tok->max_depth - 1)\n\t\t\t{\n\t\t\t\ttok->err = json_tokener_error_depth;\n\t\t\t\tgoto out;\n\t\t\t}\n\t\t\tstate = json_tokener_state_object_value_add;",
  "\t\t\tif (tok->depth + 1 > tok->max_depth - 1)\n\t\t\t{\n\t\t\t\ttok->err = json_tokener_error_depth;\n\t\t\t\tgoto out;\n\t\t\t}\n\t\t\tstate = json_tokener_state_object_value_add;",
  expect="silent")

# ---- C01 -------------------------------------------------------------------------------------
M("c01-ws-drops-cr", "C01", "json_tokener.c",
  "return c == ' '\n\t    || c == '\\t'\n\t    || c == '\\n'\n\t    || c == '\\r';", "return c == ' '\n\t    || c == '\\t'\n\t    || c == '\\n';", needle="position")
M("c01-array-sep-semicolon", "C01", "json_tokener.c",
  "\t\t\telse if (c == ',')\n\t\t\t{\n\t\t\t\tsaved_state = json_tokener_state_array_after_sep;",
  "\t\t\telse if (c == ';')\n\t\t\t{\n\t\t\t\tsaved_state = json_tokener_state_array_after_sep;", needle="AV@A")
M("c01-escape-t-missing", "C01", "json_tokener.c",
  "\t\t\tcase 'r':\n\t\t\tcase 't':\n\t\t\tcase 'f':\n\t\t\t\tif (c == 'b')", "\t\t\tcase 'r':\n\t\t\tcase 'f':\n\t\t\t\tif (c == 'b')", needle="")
M("c01-escape-b-wrong-byte", "C01", "json_tokener.c",
  "printbuf_memappend_checked(tok->pb, \"\\b\", 1);", "printbuf_memappend_checked(tok->pb, \"\\v\", 1);", needle="escape \\b")
M("c01-hs-not-cleared", "C01", "json_tokener.c",
  "\t\t\t\t\tprintbuf_memappend_checked(tok->pb,\n\t\t\t\t\t                           (char *)utf8_replacement_char, 3);\n\t\t\t\t}\n\t\t\t\ttok->high_surrogate = 0;",
  "\t\t\t\t\tprintbuf_memappend_checked(tok->pb,\n\t\t\t\t\t                           (char *)utf8_replacement_char, 3);\n\t\t\t\t\ttok->high_surrogate = 0;\n\t\t\t\t}", needle="surrogate")
M("c01-lone-low-no-replacement", "C01", "json_tokener.c",
  "\t\t\t\t/* Got a low surrogate not preceded by a high */\n\t\t\t\tprintbuf_memappend_checked(tok->pb, (char *)utf8_replacement_char, 3);",
  "\t\t\t\t/* Got a low surrogate not preceded by a high */", needle="C01.R3")
M("c01-string-strlen", "C01", "json_tokener.c",
  "json_object_new_string_len(tok->pb->buf, tok->pb->bpos);", "json_object_new_string_len(tok->pb->buf, strlen(tok->pb->buf));", needle="C01.R4")
M("c01-colon-equals", "C01", "json_tokener.c",
  "\t\t\tif (c == ':')\n\t\t\t{\n\t\t\t\tsaved_state = json_tokener_state_object_value;",
  "\t\t\tif (c == '=')\n\t\t\t{\n\t\t\t\tsaved_state = json_tokener_state_object_value;", needle="KC")
M("c01-benign-switch-to-if", "C01", "json_tokener.c",
  "\t\t\tif (c == ':')\n\t\t\t{\n\t\t\t\tsaved_state = json_tokener_state_object_value;",
  "\t\t\tif (!(c != 0x3a))\n\t\t\t{\n\t\t\t\tsaved_state = json_tokener_state_object_value;", expect="silent")

# ---- C04 -------------------------------------------------------------------------------------
M("c04-lookahead", "C04", "json_tokener.c",
  "\t\t\telse if (c == '/')\n\t\t\t{\n\t\t\t\tstate = json_tokener_state_comment_eol;",
  "\t\t\telse if (c == '/' && str[1] != '!')\n\t\t\t{\n\t\t\t\tstate = json_tokener_state_comment_eol;", needle="outside the chunk")
M("c04-reset-forgets-hs", "C04", "json_tokener.c",
  "\ttok->err = json_tokener_success;\n\ttok->high_surrogate = 0;\n}", "\ttok->err = json_tokener_success;\n}", needle="high_surrogate")
M("c04-reset-skips-level0", "C04", "json_tokener.c",
  "\tfor (i = tok->depth; i >= 0; i--)\n\t\tjson_tokener_reset_level(tok, i);\n\ttok->depth = 0;",
  "\tfor (i = tok->depth; i > 0; i--)\n\t\tjson_tokener_reset_level(tok, i);\n\ttok->depth = 0;", needle="json_tokener_reset")
M("c04-free-forgets-stack", "C04", "json_tokener.c",
  "\t\tprintbuf_free(tok->pb);\n\tfree(tok->stack);\n\tfree(tok);", "\t\tprintbuf_free(tok->pb);\n\tfree(tok);", needle="json_tokener_free")
M("c04-value-with-error", "C04", "json_tokener.c",
  "\tif (tok->err == json_tokener_success)\n\t{\n\t\tjson_object *ret = json_object_get(current);",
  "\tif (tok->err == json_tokener_success || tok->err == json_tokener_error_parse_eof)\n\t{\n\t\tjson_object *ret = json_object_get(current);", needle="C04.R3", tier="quick")
M("c04-continue-without-progress", "C04", "json_tokener.c",
  "\t\t\tif (c == '*')\n\t\t\t{\n\t\t\t\tstate = json_tokener_state_comment;\n\t\t\t}",
  "\t\t\tif (c == '*')\n\t\t\t{\n\t\t\t\tstate = json_tokener_state_comment;\n\t\t\t\ttok->err = json_tokener_continue;\n\t\t\t\tgoto out;\n\t\t\t}", needle="")
M("c04-size-guard-late", "C04", "json_tokener.c",
  "\tif ((len < -1) || (len == -1 && strlen(str) > INT32_MAX))", "\tif ((len < -2) || (len == -1 && strlen(str) > INT32_MAX))", needle="")
M("c04-probe-mutates", "C04", "json_tokener.c",
  "\t            : (((tok)->err = json_tokener_continue), 0))             \\", "\t            : (((tok)->err = json_tokener_continue), (tok)->st_pos = 0, 0)) \\", needle="")
M("c04-benign-reset-order", "C04", "json_tokener.c",
  "\ttok->depth = 0;\n\ttok->err = json_tokener_success;\n\ttok->high_surrogate = 0;", "\ttok->high_surrogate = 0;\n\ttok->err = json_tokener_success;\n\ttok->depth = 0;", expect="silent")

# ---- C03 -------------------------------------------------------------------------------------
M("c03-no-flush-string", "C03", "json_tokener.c",
  "\t\t\t\tif (!ADVANCE_CHAR(str, tok) || !PEEK_CHAR(c, tok))\n\t\t\t\t{\n\t\t\t\t\tprintbuf_memappend_checked(tok->pb, case_start,\n\t\t\t\t\t                           str - case_start);\n\t\t\t\t\tgoto out;\n\t\t\t\t}\n\t\t\t}\n\t\t}\n\t\tbreak;\n\n\t\tcase json_tokener_state_string_escape:",
  "\t\t\t\tif (!ADVANCE_CHAR(str, tok) || !PEEK_CHAR(c, tok))\n\t\t\t\t{\n\t\t\t\t\tgoto out;\n\t\t\t\t}\n\t\t\t}\n\t\t}\n\t\tbreak;\n\n\t\tcase json_tokener_state_string_escape:",
  needle="C03")
M("c03-local-state", "C03", "json_tokener.c",
  "\tunsigned int nBytes = 0;\n", "\tunsigned int nBytes = 0;\n\tint seen_star = 0;\n\tint *seen_starp = &seen_star;\n", expect="silent")
M("c03-comment-end-in-local", "C03", "json_tokener.c",
  "\t\t\tprintbuf_memappend_checked(tok->pb, case_start, 1 + str - case_start);\n\t\t\tstate = json_tokener_state_comment_end;",
  "\t\t\tprintbuf_memappend_checked(tok->pb, case_start, 1 + str - case_start);\n\t\t\tstate = (len == 1) ? json_tokener_state_comment : json_tokener_state_comment_end;",
  needle="C03.R6")
M("c03-success-keeps-level", "C03", "json_tokener.c",
  "\t\tfor (ii = tok->depth; ii >= 0; ii--)\n\t\t\tjson_tokener_reset_level(tok, ii);\n\t\treturn ret;",
  "\t\tfor (ii = tok->depth; ii > 0; ii--)\n\t\t\tjson_tokener_reset_level(tok, ii);\n\t\treturn ret;", needle="C03.R5")
M("c03-eof-in-comment", "C03", "json_tokener.c",
  "\t\tif (tok->depth != 0 ||\n\t\t    (state != json_tokener_state_finish && saved_state != json_tokener_state_finish))",
  "\t\tif ((state != json_tokener_state_finish && saved_state != json_tokener_state_finish))", needle="C03.R5")
M("c03-escape-state-in-local", "C03", "json_tokener.c",
  "\t\t\tcase 'u':\n\t\t\t\ttok->ucs_char = 0;\n\t\t\t\ttok->st_pos = 0;",
  "\t\t\tcase 'u':\n\t\t\t\ttok->ucs_char = 0;\n\t\t\t\ttok->st_pos = (tok->char_offset + 1 == len) ? 1 : 0;", needle="C03.R6")

# ---- C19 -------------------------------------------------------------------------------------
M("c19-off-by-one-extend", "C19", "printbuf.c",
  "\t\tif (printbuf_extend(p, p->bpos + size + 1) < 0)", "\t\tif (printbuf_extend(p, p->bpos + size) < 0)", needle="printbuf_memappend")
M("c19-guard-loose", "C19", "printbuf.c",
  "\tif (p->size <= p->bpos + size + 1)", "\tif (p->size < p->bpos + size)", needle="printbuf_memappend")
M("c19-no-terminator", "C19", "printbuf.c",
  "\tp->bpos += size;\n\tp->buf[p->bpos] = '\\0';", "\tp->bpos += size;", needle="terminated")
M("c19-extend-small", "C19", "printbuf.c",
  "\t\tif (new_size < min_size + 8)\n\t\t\tnew_size = min_size + 8;", "\t\tif (new_size < min_size - 8)\n\t\t\tnew_size = min_size - 8;", needle="printbuf_extend")
M("c19-overflow-guard-dropped", "C19", "printbuf.c",
  "\tif (size < 0 || size > INT_MAX - p->bpos - 1)", "\tif (size < 0)", needle="overflow")
M("c19-size-before-realloc", "C19", "printbuf.c",
  "\tif (!(t = (char *)realloc(p->buf, new_size)))\n\t\treturn -1;\n\tp->size = new_size;", "\tp->size = new_size;\n\tif (!(t = (char *)realloc(p->buf, new_size)))\n\t\treturn -1;", needle="printbuf_extend")
M("c19-memset-unterminated", "C19", "printbuf.c",
  "\t\tpb->bpos = size_needed;\n\t\tpb->buf[pb->bpos] = '\\0';", "\t\tpb->bpos = size_needed;", needle="printbuf_memset")
M("c19-free-leaks-buf", "C19", "printbuf.c",
  "\t\tfree(p->buf);\n\t\tfree(p);", "\t\tfree(p);", needle="printbuf_free")
M("c19-benign-rewrite", "C19", "printbuf.c",
  "\tif (p->size <= p->bpos + size + 1)", "\tif (!(p->size > p->bpos + size + 1))", expect="silent")

# ---- C11 -------------------------------------------------------------------------------------
M("c11-free-before-malloc", "C11", "json_object.c",
  "\t\tdstbuf = (char *)malloc(len + 1);\n\t\tif (dstbuf == NULL)\n\t\t\treturn 0;\n\t\tif (JC_STRING(jso)->len < 0)\n\t\t\tfree(JC_STRING(jso)->c_string.pdata);",
  "\t\tif (JC_STRING(jso)->len < 0)\n\t\t\tfree(JC_STRING(jso)->c_string.pdata);\n\t\tdstbuf = (char *)malloc(len + 1);\n\t\tif (dstbuf == NULL)\n\t\t\treturn 0;",
  needle="C11.R4")
M("c11-no-free-old", "C11", "json_object.c",
  "\t\tif (JC_STRING(jso)->len < 0)\n\t\t\tfree(JC_STRING(jso)->c_string.pdata);\n\t\tJC_STRING(jso)->c_string.pdata = dstbuf;",
  "\t\tJC_STRING(jso)->c_string.pdata = dstbuf;", needle="C11.R3")
M("c11-malloc-len", "C11", "json_object.c",
  "\t\tdstbuf = (char *)malloc(len + 1);", "\t\tdstbuf = (char *)malloc(len);", needle="C11.R5")
M("c11-pdata-without-check", "C11", "json_object.c",
  "\tif (JC_STRING(jso)->len < 0)\n\t\tfree(JC_STRING(jso)->c_string.pdata);\n\tjson_object_generic_delete(jso);",
  "\tif (JC_STRING(jso)->len <= 0)\n\t\tfree(JC_STRING(jso)->c_string.pdata);\n\tjson_object_generic_delete(jso);", needle="C11.R1")
M("c11-positive-len-with-pdata", "C11", "json_object.c",
  "\t\tJC_STRING(jso)->c_string.pdata = dstbuf;\n\t\tnewlen = -(ssize_t)len;", "\t\tJC_STRING(jso)->c_string.pdata = dstbuf;\n\t\tnewlen = (ssize_t)len;", needle="C11")
M("c11-equal-strlen", "C11", "json_object.c",
  "\t\t               _json_object_get_string_len(JC_STRING(jso1))) == 0);", "\t\t               strlen(get_string_component(jso1))) == 0);", needle="C11.R6")
M("c11-ctor-short-alloc", "C11", "json_object.c",
  "\tobjsize = (sizeof(*jso) - sizeof(jso->c_string)) + len + 1;", "\tobjsize = (sizeof(*jso) - sizeof(jso->c_string)) + len;", needle="C11.R5c")
M("c11-benign-order", "C11", "json_object.c",
  "\t\tJC_STRING(jso)->c_string.pdata = dstbuf;\n\t\tnewlen = -(ssize_t)len;", "\t\tnewlen = -(ssize_t)len;\n\t\tJC_STRING(jso)->c_string.pdata = dstbuf;", expect="silent")

# ---- C07 -------------------------------------------------------------------------------------
M("c07-expand-idx", "C07", "arraylist.c",
  "\tif (array_list_expand_internal(arr, idx + 1))\n\t\treturn -1;\n\tif (idx < arr->length && arr->array[idx])",
  "\tif (array_list_expand_internal(arr, idx))\n\t\treturn -1;\n\tif (idx < arr->length && arr->array[idx])", needle="array_list_put_idx")
M("c07-no-gap-fill", "C07", "arraylist.c",
  "\t\tmemset(arr->array + arr->length, 0, (idx - arr->length) * sizeof(void *));", "\t\t;", needle="C07.R4")
M("c07-insert-no-expand", "C07", "arraylist.c",
  "\tif (array_list_expand_internal(arr, arr->length + 1))\n\t\treturn -1;\n\n\tmove_amount",
  "\tif (arr->length + 1 > arr->size && array_list_expand_internal(arr, arr->length))\n\t\treturn -1;\n\n\tmove_amount", needle="array_list_insert_idx")
M("c07-wrap-guard-dropped", "C07", "arraylist.c",
  "\tif (idx > SIZE_T_MAX - 1)\n\t\treturn -1;\n\tif (array_list_expand_internal(arr, idx + 1))\n\t\treturn -1;\n\tif (idx < arr->length",
  "\tif (array_list_expand_internal(arr, idx + 1))\n\t\treturn -1;\n\tif (idx < arr->length", needle="array_list_put_idx")
M("c07-expand-strict", "C07", "arraylist.c",
  "\tif (max < arr->size)\n\t\treturn 0;", "\tif (max <= arr->size + 1)\n\t\treturn 0;", needle="array_list_expand_internal")
M("c07-del-partial-failure", "C07", "arraylist.c",
  "\tif (idx >= arr->length || stop > arr->length)\n\t\treturn -1;\n\tfor (i = idx; i < stop; ++i)",
  "\tif (idx >= arr->length)\n\t\treturn -1;\n\tfor (i = idx; i < stop; ++i)", needle="array_list_del_idx")
M("c07-put-no-release", "C07", "arraylist.c",
  "\tif (idx < arr->length && arr->array[idx])\n\t\tarr->free_fn(arr->array[idx]);\n\tarr->array[idx] = data;\n\tif (idx > arr->length)",
  "\tarr->array[idx] = data;\n\tif (idx > arr->length)", needle="C07.R6")
M("c07-shrink-below-length", "C07", "arraylist.c",
  "\tnew_size = arr->length + empty_slots;\n\tif (new_size == arr->size)", "\tnew_size = arr->length / 2 + empty_slots;\n\tif (new_size == arr->size)", needle="array_list_shrink")
M("c07-benign-compare", "C07", "arraylist.c",
  "\tif (idx > SIZE_T_MAX - 1)\n\t\treturn -1;\n\tif (array_list_expand_internal(arr, idx + 1))\n\t\treturn -1;\n\tif (idx < arr->length",
  "\tif (idx >= SIZE_T_MAX)\n\t\treturn -1;\n\tif (array_list_expand_internal(arr, idx + 1))\n\t\treturn -1;\n\tif (idx < arr->length", expect="silent")

# ---- C06 -------------------------------------------------------------------------------------
M("c06-insert-no-count", "C06", "linkhash.c",
  "\tt->table[n].v = v;\n\tt->count++;\n", "\tt->table[n].v = v;\n", needle="count")
M("c06-insert-prepend", "C06", "linkhash.c",
  "\t\tt->tail->next = &t->table[n];\n\t\tt->table[n].prev = t->tail;\n\t\tt->table[n].next = NULL;\n\t\tt->tail = &t->table[n];",
  "\t\tt->head->prev = &t->table[n];\n\t\tt->table[n].next = t->head;\n\t\tt->table[n].prev = NULL;\n\t\tt->head = &t->table[n];", needle="C06.R3i")
M("c06-delete-tail-case", "C06", "linkhash.c",
  "\t\tt->tail->prev->next = NULL;\n\t\tt->tail = t->tail->prev;", "\t\tt->tail = t->tail->prev;", needle="C06.R3d")
M("c06-delete-empty-instead-of-freed", "C06", "linkhash.c",
  "\tt->table[n].k = LH_FREED;", "\tt->table[n].k = LH_EMPTY;", needle="C06.R3d")
M("c06-delete-free-after", "C06", "linkhash.c",
  "\tif (t->free_fn)\n\t\tt->free_fn(e);\n\tt->table[n].v = NULL;\n\tt->table[n].k = LH_FREED;",
  "\tt->table[n].v = NULL;\n\tt->table[n].k = LH_FREED;\n\tif (t->free_fn)\n\t\tt->free_fn(e);", needle="free_fn")
M("c06-lookup-stops-at-freed", "C06", "linkhash.c",
  "\t\tif (t->table[n].k == LH_EMPTY)\n\t\t\treturn NULL;", "\t\tif (t->table[n].k == LH_EMPTY || t->table[n].k == LH_FREED)\n\t\t\treturn NULL;", needle="C06.R4")
M("c06-lookup-equal-on-sentinel", "C06", "linkhash.c",
  "\t\tif (t->table[n].k != LH_FREED && t->equal_fn(t->table[n].k, k))", "\t\tif (t->equal_fn(t->table[n].k, k))", needle="equal_fn")
M("c06-probe-no-wrap", "C06", "linkhash.c",
  "\t\tif ((int)++n == t->size)\n\t\t\tn = 0;\n\t}\n\n\tt->table[n].k = k;", "\t\t++n;\n\t}\n\n\tt->table[n].k = k;", needle="lh_table_insert_w_hash")
M("c06-resize-loses-constant-flag", "C06", "linkhash.c",
  "\t\tif (ent->k_is_constant)\n\t\t\topts = JSON_C_OBJECT_ADD_CONSTANT_KEY;", "", needle="constant")
M("c06-resize-updates-count", "C06", "linkhash.c",
  "\tt->size = new_size;\n\tt->head = new_t->head;", "\tt->size = new_size;\n\tt->count = 0;\n\tt->head = new_t->head;", needle="count")
M("c06-replace-reinserts", "C06", "json_object.c",
  "\tlh_entry_set_val(existing_entry, val);\n\treturn 0;", "\tlh_table_delete_entry(JC_OBJECT(jso)->c_object, existing_entry);\n\treturn lh_table_insert_w_hash(JC_OBJECT(jso)->c_object, strdup(key), val, hash, opts);", needle="C06.R2")
M("c06-foreach-late-next", "C06", "json_object.h",
  "\t\t\t     entry_next##key = lh_entry_next(entry##key);        \\\n\t\t     };                                                          \\\n\t\t     entry##key;                                                 \\\n\t     });                                                                 \\\n\t     entry##key = entry_next##key)",
  "\t\t     };                                                          \\\n\t\t     entry##key;                                                 \\\n\t     });                                                                 \\\n\t     entry##key = lh_entry_next(entry##key))", needle="C06.R6")
M("c06-outside-write", "C06", "json_object.c",
  "\tlh_entry_set_val(existing_entry, val);\n\treturn 0;", "\texisting_entry->v = val;\n\treturn 0;", needle="C06.R1")
M("c06-benign-probe-form", "C06", "linkhash.c",
  "\t\tif ((int)++n == t->size)\n\t\t\tn = 0;\n\t}\n\n\tt->table[n].k = k;", "\t\tn = n + 1;\n\t\tif ((int)n >= t->size)\n\t\t\tn = 0;\n\t}\n\n\tt->table[n].k = k;", expect="silent")

# ---- C20 -------------------------------------------------------------------------------------
M("c20-write-no-advance", "C20", "json_util.c",
  "\t\twpos += (size_t)ret;", "\t\twpos = wsize;", needle="position")
M("c20-write-count-whole", "C20", "json_util.c",
  "write(fd, json_str + wpos, wsize - wpos)", "write(fd, json_str + wpos, wsize)", needle="C20.R1")
M("c20-write-error-ignored", "C20", "json_util.c",
  "\t\tif ((ret = write(fd, json_str + wpos, wsize - wpos)) < 0)\n\t\t{\n\t\t\t_json_c_set_last_err(\"json_object_to_fd: error writing file %s: %s\\n\",\n\t\t\t                     filename, strerror(errno));\n\t\t\treturn -1;\n\t\t}",
  "\t\tif ((ret = write(fd, json_str + wpos, wsize - wpos)) < 0)\n\t\t{\n\t\t\tbreak;\n\t\t}", needle="C20.R1")
M("c20-read-append-bufsize", "C20", "json_util.c",
  "\t\tif (printbuf_memappend(pb, buf, ret) < 0)", "\t\tif (printbuf_memappend(pb, buf, sizeof(buf)) < 0)", needle="C20.R2")
M("c20-read-error-silent", "C20", "json_util.c",
  "\tif (ret < 0)\n\t{\n\t\t_json_c_set_last_err(\"json_object_from_fd_ex: error reading fd %d: %s\\n\", fd,\n\t\t                     strerror(errno));\n\t\tjson_tokener_free(tok);",
  "\tif (ret < 0)\n\t{\n\t\tjson_tokener_free(tok);", needle="C20")
M("c20-leak-tok-on-read-error", "C20", "json_util.c",
  "\t\t                     strerror(errno));\n\t\tjson_tokener_free(tok);\n\t\tprintbuf_free(pb);\n\t\treturn NULL;\n\t}\n\n\tobj = json_tokener_parse_ex",
  "\t\t                     strerror(errno));\n\t\tprintbuf_free(pb);\n\t\treturn NULL;\n\t}\n\n\tobj = json_tokener_parse_ex", needle="C20.R4")
M("c20-fd-not-closed", "C20", "json_util.c",
  "\tobj = json_object_from_fd(fd);\n\tclose(fd);\n\treturn obj;", "\tobj = json_object_from_fd(fd);\n\tif (obj)\n\t\tclose(fd);\n\treturn obj;", needle="C20.R4")
M("c20-parse-in-loop", "C20", "json_util.c",
  "\tobj = json_tokener_parse_ex(tok, pb->buf, printbuf_length(pb));\n\tif (obj == NULL)", "\tobj = json_tokener_parse_ex(tok, pb->buf, printbuf_length(pb) > 4096 ? 4096 : printbuf_length(pb));\n\tif (obj == NULL)", needle="C20.R2")
M("c20-benign-while-form", "C20", "json_util.c",
  "\twhile (wpos < wsize)\n\t{", "\twhile (wsize > wpos)\n\t{", expect="silent")

# ---- C05 -------------------------------------------------------------------------------------
M("c05-double-put-on-replace", "C05", "json_object.c",
  "\tif (existing_value)\n\t\tjson_object_put(existing_value);\n\tlh_entry_set_val(existing_entry, val);",
  "\tif (existing_value)\n\t\tjson_object_put(existing_value);\n\tjson_object_put((json_object *)lh_entry_v(existing_entry));\n\tlh_entry_set_val(existing_entry, val);", needle="C06.R2")
M("c05-callback-after-free", "C05", "json_object.c",
  "\tif (jso->_user_delete)\n\t\tjso->_user_delete(jso, jso->_userdata);\n\tswitch (jso->o_type)\n\t{\n\tcase json_type_object: json_object_object_delete(jso); break;",
  "\tswitch (jso->o_type)\n\t{\n\tcase json_type_object: if (jso->_user_delete) jso->_user_delete(jso, jso->_userdata); json_object_object_delete(jso); break;", needle="C05.R2")
M("c05-string-leaks-pdata", "C05", "json_object.c",
  "\tcase json_type_string: json_object_string_delete(jso); break;", "\tcase json_type_string: json_object_generic_delete(jso); break;", needle="C05.R2")
M("c05-put-returns-zero", "C05", "json_object.c",
  "\tdefault: json_object_generic_delete(jso); break;\n\t}\n\treturn 1;", "\tdefault: json_object_generic_delete(jso); break;\n\t}\n\treturn 0;", needle="C05.R2")
M("c05-store-before-failure", "C05", "arraylist.c",
  "\tif (idx > SIZE_T_MAX - 1)\n\t\treturn -1;\n\tif (array_list_expand_internal(arr, idx + 1))\n\t\treturn -1;\n\tif (idx < arr->length",
  "\tif (idx > SIZE_T_MAX - 1)\n\t\treturn -1;\n\tif (idx < arr->size)\n\t\tarr->array[idx] = data;\n\tif (array_list_expand_internal(arr, idx + 1))\n\t\treturn -1;\n\tif (idx < arr->length", needle="C05.R3")
M("c05-userdata-overwrite-first", "C05", "json_object.c",
  "\tif (jso->_user_delete)\n\t\tjso->_user_delete(jso, jso->_userdata);\n\n\tjso->_userdata = userdata;\n\tjso->_user_delete = user_delete;",
  "\tvoid *old = jso->_userdata;\n\tjso->_userdata = userdata;\n\tif (jso->_user_delete)\n\t\tjso->_user_delete(jso, old);\n\tjso->_user_delete = user_delete;", needle="C05.R4")
M("c05-use-after-free", "C05", "json_pointer.c",
  "\trc = json_pointer_object_get_recursive(*obj, path_copy, &set);\n\tfree(path_copy);\n\n\tif (rc)\n\t\treturn rc;",
  "\trc = json_pointer_object_get_recursive(*obj, path_copy, &set);\n\tfree(path_copy);\n\n\tif (rc)\n\t\treturn path_copy[0] ? rc : -1;", needle="C05.R5")
M("c05-entry-free-forgets-key", "C05", "json_object.c",
  "\tif (!lh_entry_k_is_constant(ent))\n\t\tfree(lh_entry_k(ent));\n\tjson_object_put", "\tjson_object_put", needle="C05.R1")
M("c05-benign-switch-order", "C05", "json_object.c",
  "\tcase json_type_object: json_object_object_delete(jso); break;\n\tcase json_type_array: json_object_array_delete(jso); break;",
  "\tcase json_type_array: json_object_array_delete(jso); break;\n\tcase json_type_object: json_object_object_delete(jso); break;", expect="silent")

# ---- C09 -------------------------------------------------------------------------------------
M("c09-mixed-sign-unguarded", "C09", "json_object.c",
  "\t\t\tif (int1->cint.c_int64 < 0)\n\t\t\t\treturn 0;\n\t\t\treturn ((uint64_t)int1->cint.c_int64 == int2->cint.c_uint64);",
  "\t\t\treturn ((uint64_t)int1->cint.c_int64 == int2->cint.c_uint64);", needle="C09.R3")
M("c09-type-check-dropped", "C09", "json_object.c",
  "\tif (jso1->o_type != jso2->o_type)\n\t\treturn 0;\n\n\tswitch (jso1->o_type)", "\tswitch (jso1->o_type)", needle="C09.R1")
M("c09-one-direction", "C09", "json_object.c",
  "\t/* Iterate over jso2 keys to see if any exist that are not in jso1 */\n\tjson_object_object_foreachC(jso2, iter)\n\t{\n\t\tif (!lh_table_lookup_ex(JC_OBJECT(jso1)->c_object, (void *)iter.key,\n\t\t                        (void **)(void *)&sub))\n\t\t\treturn 0;\n\t}\n",
  "", needle="C09.R4")
M("c09-copy-shares-child", "C09", "json_object.c",
  "\t\t\tif (json_object_array_add(*dst, jso) < 0)\n\t\t\t{\n\t\t\t\tjson_object_put(jso);\n\t\t\t\treturn -1;\n\t\t\t}",
  "\t\t\tif (jso1 && json_object_get_type(jso1) == json_type_null)\n\t\t\t{\n\t\t\t\tjson_object_put(jso);\n\t\t\t\tjso = json_object_get(jso1);\n\t\t\t}\n\t\t\tif (json_object_array_add(*dst, jso) < 0)\n\t\t\t{\n\t\t\t\tjson_object_put(jso);\n\t\t\t\treturn -1;\n\t\t\t}",
  needle="C09.R5")
M("c09-copy-uint-as-int", "C09", "json_object.c",
  "\t\t\t*dst = json_object_new_uint64(JC_INT(src)->cint.c_uint64);", "\t\t\t*dst = json_object_new_int64(JC_INT(src)->cint.c_int64);", needle="C09.R6")
M("c09-userdata-shared", "C09", "json_object.c",
  "\t\tp = strdup(src->_userdata);\n\t\tif (p == NULL)", "\t\tp = src->_userdata;\n\t\tif (p == NULL)", needle="C09.R5")
M("c09-benign-early-null", "C09", "json_object.c",
  "\tif (!jso1 || !jso2)\n\t\treturn 0;\n\n\tif (jso1->o_type != jso2->o_type)", "\tif (jso1 == NULL)\n\t\treturn 0;\n\tif (jso2 == NULL)\n\t\treturn 0;\n\n\tif (jso1->o_type != jso2->o_type)", expect="silent")

# ---- C02 -------------------------------------------------------------------------------------
M("c02-del-not-escaped", "C02", "json_object.c",
  "\t\t\tif (c < ' ')\n\t\t\t{\n\t\t\t\tchar sbuf[7];", "\t\t\tif (c < ' ' && c != 0x1f)\n\t\t\t{\n\t\t\t\tchar sbuf[7];", needle="0x1f")
M("c02-wrong-escape-letter", "C02", "json_object.c",
  "\t\t\telse if (c == '\\f')\n\t\t\t\tprintbuf_memappend(pb, \"\\\\f\", 2);", "\t\t\telse if (c == '\\f')\n\t\t\t\tprintbuf_memappend(pb, \"\\\\v\", 2);", needle="0x0c")
M("c02-hex-uppercase-shift", "C02", "json_object.c",
  "json_hex_chars[c >> 4],\n\t\t\t\t         json_hex_chars[c & 0xf]);", "json_hex_chars[c >> 4],\n\t\t\t\t         json_hex_chars[c & 0x7]);", needle="C02.R1")
M("c02-noslash-affects-backslash", "C02", "json_object.c",
  "\t\t\tif ((flags & JSON_C_TO_STRING_NOSLASHESCAPE) && c == '/')", "\t\t\tif ((flags & JSON_C_TO_STRING_NOSLASHESCAPE) && (c == '/' || c == '\\\\'))", needle="C02.R1")
M("c02-pretty-drops-comma", "C02", "json_object.c",
  "\t\tif (had_children)\n\t\t{\n\t\t\tprintbuf_strappend(pb, \",\");\n\t\t}\n\t\tif (flags & JSON_C_TO_STRING_PRETTY)\n\t\t\tprintbuf_strappend(pb, \"\\n\");\n\t\thad_children = 1;\n\t\tif (flags & JSON_C_TO_STRING_SPACED && !(flags & JSON_C_TO_STRING_PRETTY))\n\t\t\tprintbuf_strappend(pb, \" \");\n\t\tindent(pb, level + 1, flags);\n\t\tif (flags & JSON_C_TO_STRING_COLOR)\n\t\t\tprintbuf_strappend(pb, ANSI_COLOR_FG_BLUE);",
  "\t\tif (had_children && !(flags & JSON_C_TO_STRING_PRETTY_TAB))\n\t\t{\n\t\t\tprintbuf_strappend(pb, \",\");\n\t\t}\n\t\tif (flags & JSON_C_TO_STRING_PRETTY)\n\t\t\tprintbuf_strappend(pb, \"\\n\");\n\t\thad_children = 1;\n\t\tif (flags & JSON_C_TO_STRING_SPACED && !(flags & JSON_C_TO_STRING_PRETTY))\n\t\t\tprintbuf_strappend(pb, \" \");\n\t\tindent(pb, level + 1, flags);\n\t\tif (flags & JSON_C_TO_STRING_COLOR)\n\t\t\tprintbuf_strappend(pb, ANSI_COLOR_FG_BLUE);",
  needle="C02.R2")
M("c02-color-null-skipped", "C02", "json_object.c",
  "\t\t\tif (flags & JSON_C_TO_STRING_COLOR)\n\t\t\t\tprintbuf_strappend(pb, ANSI_COLOR_FG_MAGENTA);\n\t\t\tprintbuf_strappend(pb, \"null\");\n\t\t\tif (flags & JSON_C_TO_STRING_COLOR)\n\t\t\t\tprintbuf_strappend(pb, ANSI_COLOR_RESET);\n\t\t} else if (iter.val->_to_json_string",
  "\t\t\tif (flags & JSON_C_TO_STRING_COLOR)\n\t\t\t\tprintbuf_strappend(pb, ANSI_COLOR_FG_MAGENTA);\n\t\t\telse\n\t\t\t\tprintbuf_strappend(pb, \"null\");\n\t\t\tif (flags & JSON_C_TO_STRING_COLOR)\n\t\t\t\tprintbuf_strappend(pb, ANSI_COLOR_RESET);\n\t\t} else if (iter.val->_to_json_string",
  needle="C02.R2")
M("c02-child-failure-ignored", "C02", "json_object.c",
  "\t\t} else if (iter.val->_to_json_string(iter.val, pb, level + 1, flags) < 0)\n\t\t\treturn -1;", "\t\t} else\n\t\t\titer.val->_to_json_string(iter.val, pb, level + 1, flags);", needle="C02.R3")
M("c02-length-on-failure", "C02", "json_object.c",
  "\t\tif (jso->_to_json_string(jso, jso->_pb, 0, flags) >= 0)\n\t\t{\n\t\t\ts = (size_t)jso->_pb->bpos;\n\t\t\tr = jso->_pb->buf;\n\t\t}",
  "\t\tjso->_to_json_string(jso, jso->_pb, 0, flags);\n\t\ts = (size_t)jso->_pb->bpos;\n\t\tr = jso->_pb->buf;", needle="C02.R3")
M("c02-uint-signed-format", "C02", "json_object.c",
  "snprintf(sbuf, sizeof(sbuf), \"%\" PRIu64, JC_INT(jso)->cint.c_uint64);", "snprintf(sbuf, sizeof(sbuf), \"%\" PRId64, JC_INT(jso)->cint.c_uint64);", needle="C02.R4")
M("c02-dblmax-as-infinity", "C02", "json_object.c",
  "\telse if (isinf(jsodbl->c_double))\n\t{\n\t\tif (jsodbl->c_double > 0)",
  "\telse if (jsodbl->c_double >= 1.7976931348623157e308 || jsodbl->c_double <= -1.7976931348623157e308)\n\t{\n\t\tif (jsodbl->c_double > 0)",
  needle="C02.R5")
M("c02-inf-sign-swapped", "C02", "json_object.c",
  "\t\tif (jsodbl->c_double > 0)\n\t\t\tsize = snprintf(buf, sizeof(buf), \"Infinity\");",
  "\t\tif (jsodbl->c_double < 0)\n\t\t\tsize = snprintf(buf, sizeof(buf), \"Infinity\");",
  needle="C02.R5")
M("c02-benign-isinf-by-compare", "C02", "json_object.c",
  "\telse if (isinf(jsodbl->c_double))\n",
  "\telse if (jsodbl->c_double == HUGE_VAL || jsodbl->c_double == -HUGE_VAL)\n", expect="silent")
M("c02-nozero-through-exponent", "C02", "json_object.c",
  "\t\t\tfor (q = p; is_plain_digit(*q); q++)\n",
  "\t\t\tfor (q = p; *q; q++)\n", needle="C02.R6")
M("c02-nozero-keeps-no-digit", "C02", "json_object.c",
  "\t\t\tif (*p != 0)\n\t\t\t\tp++;\n\t\t\tif (p != q)",
  "\t\t\tif (p != q)", needle="C02.R6")
M("c02-dotzero-on-exponent", "C02", "json_object.c",
  "\t\t    strchr(buf, 'e') == NULL && /* Not scientific notation */\n", "", needle="C02.R6")
M("c02-benign-nozero-rewrite", "C02", "json_object.c",
  "\t\t\tif (p != q)\n\t\t\t\tmemmove(p, q, strlen(q) + 1);\n\t\t\tsize = (int)strlen(buf);\n",
  "\t\t\tmemmove(p, q, strlen(q) + 1);\n\t\t\tsize = (int)((p - buf) + strlen(p));\n", expect="silent")
M("c01-int-conversion-altered", "C01", "json_util.c",
  "\tval = strtoll(buf, &end, 10);\n\tif (end != buf)\n\t\t*retval = val;",
  "\tval = strtoll(buf, &end, 10);\n\tif (end != buf)\n\t\t*retval = (errno == ERANGE) ? 0 : val;", needle="C01.R6")
M("c01-double-underflow-flushed", "C02", "json_tokener.c",
  "\t*retval = strtod(buf, &end);\n",
  "\t*retval = strtod(buf, &end);\n\tif (*retval > -1e-300 && *retval < 1e-300)\n\t\t*retval = 0.0;\n", needle="C01.R6")
M("c01-benign-conversion-local", "C01", "json_tokener.c",
  "\t*retval = strtod(buf, &end);\n",
  "\tdouble d = strtod(buf, &end);\n\t*retval = d;\n", expect="silent")
M("c16-strict-number-check-dropped", "C16", "json_tokener.c",
  "\t\t\tif ((tok->flags & JSON_TOKENER_STRICT) &&\n\t\t\t    !json_tokener_is_rfc8259_number(tok->pb->buf))\n",
  "\t\t\tif (0 && (tok->flags & JSON_TOKENER_STRICT) &&\n\t\t\t    !json_tokener_is_rfc8259_number(tok->pb->buf))\n", needle="C16.X6")
M("c16-strict-empty-fraction", "C16", "json_tokener.c",
  "\tif (*s == '.')\n\t{\n\t\ts++;\n\t\tif (!(*s >= '0' && *s <= '9'))\n\t\t\treturn 0;\n",
  "\tif (*s == '.')\n\t{\n\t\ts++;\n", needle="decimal point")
M("c16-strict-leading-zero-int-only", "C16", "json_tokener.c",
  "\tif (*s == '0')\n\t\ts++;\n\telse if (*s >= '1' && *s <= '9')",
  "\tif (*s == '0' && (s[1] == '.' || s[1] == 'e' || s[1] == 'E'))\n\t\ts++;\n\telse if (*s >= '0' && *s <= '9')", needle="leading zero")
M("c16-benign-number-check-rewrite", "C16", "json_tokener.c",
  "\tif (*s == '-')\n\t\ts++;\n\tif (*s == '0')\n\t\ts++;",
  "\ts += (*s == '-');\n\tif (s[0] == '0')\n\t\t++s;", expect="silent")
M("c01-exponent-not-double", "C01", "json_tokener.c",
  "\t\t\t\t\tis_exponent = 1;\n\t\t\t\t\ttok->is_double = 1;\n\t\t\t\t\t/* the exponent part can begin with a negative sign */",
  "\t\t\t\t\tis_exponent = 1;\n\t\t\t\t\t/* the exponent part can begin with a negative sign */", needle="C01.R7")
M("c01-plus-sign-in-exponent-lost", "C01", "json_tokener.c",
  "(neg_sign_ok && c == '-') || (pos_sign_ok && c == '+') ||", "(neg_sign_ok && c == '-') ||", needle="C01.R7")
M("c03-resume-after-point-forgotten", "C03", "json_tokener.c",
  "\t\t\t\telse if (*last_saved_char == '.')\n\t\t\t\t{\n\t\t\t\t\tpos_sign_ok = neg_sign_ok = 1;\n\t\t\t\t}\n", "", needle="C03.R8")
M("c03-resume-neg-sign-default", "C03", "json_tokener.c",
  "\t\t\t\tneg_sign_ok = 0;\n\t\t\t\tif (e_loc)", "\t\t\t\tif (e_loc)", needle="C03.R8")
M("c03-benign-resume-strpbrk", "C03", "json_tokener.c",
  "\t\t\t\tchar *e_loc = strchr(tok->pb->buf, 'e');\n\t\t\t\tif (!e_loc)\n\t\t\t\t\te_loc = strchr(tok->pb->buf, 'E');\n",
  "\t\t\t\tchar *e_loc = strpbrk(tok->pb->buf, \"eE\");\n", expect="silent")
M("c01-literal-true-built-false", "C01", "json_tokener.c",
  "\t\t\t\t\tcurrent = json_object_new_boolean(1);", "\t\t\t\t\tcurrent = json_object_new_boolean(0);", needle="C01.R8")
M("c16-strict-literal-caseless", "C16", "json_tokener.c",
  "\t\t\tif ((!(tok->flags & JSON_TOKENER_STRICT) &&\n\t\t\t     strncasecmp(json_true_str, tok->pb->buf, size1) == 0) ||",
  "\t\t\tif ((strncasecmp(json_true_str, tok->pb->buf, size1) == 0) ||", needle="C16.X4")
M("c16-default-literal-exact-only", "C16", "json_tokener.c",
  "\t\t\telse if ((!(tok->flags & JSON_TOKENER_STRICT) &&\n\t\t\t          strncasecmp(json_false_str, tok->pb->buf, size2) == 0) ||\n\t\t\t         (strncmp(json_false_str, tok->pb->buf, size2) == 0))",
  "\t\t\telse if (strncmp(json_false_str, tok->pb->buf, size2) == 0)", needle="C16.X4.default")
M("c04-depth-check-containers-only", "C04", "json_tokener.c",
  "\t\t\tif (tok->depth >= tok->max_depth - 1)\n\t\t\t{\n\t\t\t\ttok->err = json_tokener_error_depth;\n\t\t\t\tgoto out;\n\t\t\t}\n\t\t\tstate = json_tokener_state_object_value_add;",
  "\t\t\tif (tok->depth >= tok->max_depth - 1 && (c == '[' || c == '{'))\n\t\t\t{\n\t\t\t\ttok->err = json_tokener_error_depth;\n\t\t\t\tgoto out;\n\t\t\t}\n\t\t\tstate = json_tokener_state_object_value_add;",
  needle="C04.R8")
M("c02-noslash-skips-next-byte", "C02", "json_object.c",
  "\t\t\tif ((flags & JSON_C_TO_STRING_NOSLASHESCAPE) && c == '/')\n\t\t\t{\n\t\t\t\tpos++;\n\t\t\t\tbreak;\n\t\t\t}",
  "\t\t\tif ((flags & JSON_C_TO_STRING_NOSLASHESCAPE) && c == '/')\n\t\t\t{\n\t\t\t\tpos += 2;\n\t\t\t\tif (len)\n\t\t\t\t\t--len;\n\t\t\t\tbreak;\n\t\t\t}",
  needle="C02.R1")
M("c08-destructor-on-half-built-array", "C08", "json_object.c",
  "\tif (jso->c_array == NULL)\n\t{\n\t\tfree(jso);\n\t\treturn NULL;\n\t}",
  "\tif (jso->c_array == NULL)\n\t{\n\t\tjson_object_put(&jso->base);\n\t\treturn NULL;\n\t}", needle="C08.R1f")
M("c10-benign-unsigned-read-through-signed-member", "C10", "json_object.c",
  "\t\tsnprintf(sbuf, sizeof(sbuf), \"%\" PRIu64, JC_INT(jso)->cint.c_uint64);",
  "\t\tsnprintf(sbuf, sizeof(sbuf), \"%\" PRIu64, (uint64_t)JC_INT(jso)->cint.c_int64);", expect="silent")
M("c10-benign-punned-read-used-unsigned", "C10", "json_object.c",
  "\t\tif (val > 0 && jsoint->cint.c_uint64 > UINT64_MAX - (uint64_t)val)",
  "\t\tif (val > 0 && (uint64_t)jsoint->cint.c_int64 > UINT64_MAX - (uint64_t)val)", expect="silent")
M("c10-signed-compare-of-unsigned-node", "C10", "json_object.c",
  "\t\tif (val > 0 && jsoint->cint.c_uint64 > UINT64_MAX - (uint64_t)val)",
  "\t\tif (val > 0 && jsoint->cint.c_int64 > INT64_MAX - val)", needle="C10.R")
M("c10-set-int64-keeps-old-tag", "C10", "json_object.c",
  "\tJC_INT(jso)->cint.c_int64 = new_value;\n\tJC_INT(jso)->cint_type = json_object_int_type_int64;\n\treturn 1;",
  "\tJC_INT(jso)->cint.c_int64 = new_value;\n\treturn 1;", needle="C10.R3")
M("c10-benign-tag-before-member", "C10", "json_object.c",
  "\tJC_INT(jso)->cint.c_uint64 = new_value;\n\tJC_INT(jso)->cint_type = json_object_int_type_uint64;",
  "\tJC_INT(jso)->cint_type = json_object_int_type_uint64;\n\tJC_INT(jso)->cint.c_uint64 = new_value;", expect="silent")
M("c13-overlap-guard-move-only", "C13", "json_patch.c",
  "\tif (strncmp(from_s, path, from_s_len) == 0 &&", "\tif (move && strncmp(from_s, path, from_s_len) == 0 &&", needle="C13.R7")
M("c13-overlap-string-prefix", "C13", "json_patch.c",
  "\tif (strncmp(from_s, path, from_s_len) == 0 &&\n\t    (path[from_s_len] == '\\0' || path[from_s_len] == '/')) {",
  "\tif (strncmp(from_s, path, from_s_len) == 0) {", needle="C13.R7")
M("c13-benign-overlap-rewrite", "C13", "json_patch.c",
  "\tif (strncmp(from_s, path, from_s_len) == 0 &&\n\t    (path[from_s_len] == '\\0' || path[from_s_len] == '/')) {",
  "\tif (strlen(path) >= from_s_len && memcmp(from_s, path, from_s_len) == 0 &&\n\t    (path[from_s_len] == '/' || !path[from_s_len])) {", expect="silent")
M("c20-close-result-overwrites", "C20", "json_util.c",
  "\tsaved_errno = errno;\n\tclose(fd);\n\terrno = saved_errno;\n\treturn ret;",
  "\tsaved_errno = errno;\n\tret = close(fd);\n\terrno = saved_errno;\n\treturn ret;", needle="C20.R5")
M("c20-benign-explicit-failure-return", "C20", "json_util.c",
  "\tsaved_errno = errno;\n\tclose(fd);\n\terrno = saved_errno;\n\treturn ret;",
  "\tsaved_errno = errno;\n\tclose(fd);\n\terrno = saved_errno;\n\tif (ret < 0)\n\t\treturn -1;\n\treturn 0;", expect="silent")
M("c15-fromfd-zero-becomes-default", "C15", "json_util.c",
  "\tif (in_depth != -1)\n\t\tdepth = in_depth;", "\tif (in_depth > 0)\n\t\tdepth = in_depth;", needle="C15.R4")
M("c15-benign-fromfd-early-refusal", "C15", "json_util.c",
  "\tif (in_depth != -1)\n\t\tdepth = in_depth;", "\tif (in_depth != -1)\n\t\tdepth = in_depth;\n\tif (depth < 1)\n\t{\n\t\tprintbuf_free(pb);\n\t\treturn NULL;\n\t}", expect="silent")
M("c02-benign-escape-reorder", "C02", "json_object.c",
  "\t\t\tif (c == '\\b')\n\t\t\t\tprintbuf_memappend(pb, \"\\\\b\", 2);\n\t\t\telse if (c == '\\n')\n\t\t\t\tprintbuf_memappend(pb, \"\\\\n\", 2);",
  "\t\t\tif (c == '\\n')\n\t\t\t\tprintbuf_memappend(pb, \"\\\\n\", 2);\n\t\t\telse if (c == '\\b')\n\t\t\t\tprintbuf_memappend(pb, \"\\\\b\", 2);", expect="silent")


def PATCH(mid, prop, patch, expect="fire", needle="", tier="quick"):
    """a mutant given as a diff under tools/mutants/ (several hunks)"""
    MUTANTS.append(dict(id=mid, prop=prop, file=None, patch=os.path.join(HERE, "tools", "mutants", patch), old=None, new=None,
                        expect=expect, needle=needle, tier=tier))


PATCH("c07-benign-resize-helper", "C07", "arraylist-resize-helper-benign.diff", expect="silent")
PATCH("c08-benign-resize-helper", "C08", "arraylist-resize-helper-benign.diff", expect="silent")
PATCH("c06-benign-probe-helper", "C06", "linkhash-probe-helper-benign.diff", expect="silent")
PATCH("c05-benign-probe-helper", "C05", "linkhash-probe-helper-benign.diff", expect="silent")
PATCH("c01-benign-strict-helper", "C01", "tokener-strict-helper-benign.diff", expect="silent")
PATCH("c16-benign-strict-helper", "C16", "tokener-strict-helper-benign.diff", expect="silent")
PATCH("c03-benign-strict-helper", "C03", "tokener-strict-helper-benign.diff", expect="silent")
PATCH("c04-benign-strict-helper", "C04", "tokener-strict-helper-benign.diff", expect="silent")
PATCH("c08-benign-constkey-guarded-free", "C08", "c08-constkey-guarded-free-benign.diff", expect="silent")
PATCH("c05-benign-constkey-guarded-free", "C05", "c08-constkey-guarded-free-benign.diff", expect="silent")
PATCH("c09-benign-copy-setserializer", "C09", "c09-copy-setserializer-benign.diff", expect="silent")
PATCH("c02-benign-copy-setserializer", "C02", "c09-copy-setserializer-benign.diff", expect="silent")
PATCH("c03-benign-hex4-fastpath", "C03", "c03-hex4-fastpath-benign.diff", expect="silent")
PATCH("c01-benign-hex4-fastpath", "C01", "c03-hex4-fastpath-benign.diff", expect="silent")
PATCH("c04-benign-hex4-fastpath", "C04", "c03-hex4-fastpath-benign.diff", expect="silent")
# S-c10i with the invariant it assumes established by every producer (the increment re-tags small results): the getter's
# shortcut is then unreachable with a small value, and C10.R9 - which collects the states the producers make - must stay silent
PATCH("c10-benign-canonical-uint", "C10", "c10-canonical-uint-benign.diff", expect="silent")
M("c11-raw-len-positive-test", "C11", "json_object.c",
  "\tcase json_type_string: return (JC_STRING_C(jso)->len != 0);", "\tcase json_type_string: return (JC_STRING_C(jso)->len > 0);", needle="C11.R7")
M("c11-benign-len-zero-test", "C11", "json_object.c",
  "\tcase json_type_string: return (JC_STRING_C(jso)->len != 0);", "\tcase json_type_string: return !(JC_STRING_C(jso)->len == 0);", expect="silent")
M("c11-raw-len-as-length", "C11", "json_object.c",
  "\tjson_escape_str(pb, get_string_component(jso), len < 0 ? -(ssize_t)len : len, flags);",
  "\tjson_escape_str(pb, get_string_component(jso), len, flags);", needle="C11.R7")
M("c12-unescape-rescan", "C12", "json_pointer.c",
  "\t\t*p = repl_char;\n\t\tp++;\n\t\tslen -= skip;\n\t\tmemmove(p, (p + skip), slen - (p - s) + 1); /* includes null char too */",
  "\t\t*p = repl_char;\n\t\tslen -= skip;\n\t\tmemmove(p + 1, p + 1 + skip, slen - (p - s)); /* includes null char too */", needle="C12.R7")
M("c12-unescape-order-swapped-in-helper", "C12", "json_pointer.c",
  "\tstring_replace_all_occurrences_with_char(token, \"~1\", '/');\n\tstring_replace_all_occurrences_with_char(token, \"~0\", '~');",
  "\tstring_replace_all_occurrences_with_char(token, \"~0\", '~');\n\tstring_replace_all_occurrences_with_char(token, \"~1\", '/');", needle="C12.R7")
M("c12-benign-unescape-rewrite", "C12", "json_pointer.c",
  "\t\t*p = repl_char;\n\t\tp++;\n\t\tslen -= skip;\n\t\tmemmove(p, (p + skip), slen - (p - s) + 1); /* includes null char too */",
  "\t\t*p++ = repl_char;\n\t\tslen -= skip;\n\t\tmemmove(p, p + skip, strlen(p + skip) + 1);", expect="silent")
M("c05-copy-leak-object-branch", "C05", "json_object.c",
  "\t\t\t                                         &jso, shallow_copy) < 0)\n\t\t\t{\n\t\t\t\tjson_object_put(jso);\n\t\t\t\treturn -1;",
  "\t\t\t                                         &jso, shallow_copy) < 0)\n\t\t\t{\n\t\t\t\treturn -1;", needle="C05.R6")
M("c13-op-prefix-compare", "C13", "json_patch.c",
  "\t\tif (!strcmp(op, \"test\"))", "\t\tif (!strncmp(op, \"test\", 4))", needle="C13.R2")
M("c13-benign-op-bounded-compare", "C13", "json_patch.c",
  "\t\tif (!strcmp(op, \"test\"))", "\t\tif (!strncmp(op, \"test\", 5))", expect="silent")


def sh(cmd, **kw):
    return subprocess.run(cmd, shell=isinstance(cmd, str), stdout=subprocess.PIPE, stderr=subprocess.STDOUT, text=True, **kw)


def main():
    want = set(a.upper() for a in sys.argv[1:])
    if sh("git -C %s status --porcelain --untracked-files=no" % REPO).stdout.strip():
        print("refusing: /repo has uncommitted changes")
        return 2
    fails = 0
    for m in MUTANTS:
        if want and m["prop"] not in want and m["id"] not in [w.lower() for w in want]:
            continue
        if m.get("patch"):
            if sh("git -C %s apply --check %s" % (REPO, m["patch"])).returncode != 0:
                print("SKIP %-28s patch does not apply" % m["id"])
                fails += 1
                continue
        else:
            path = os.path.join(REPO, m["file"])
            src = open(path).read()
            if src.count(m["old"]) != 1:
                print("SKIP %-28s pattern occurs %d times in %s" % (m["id"], src.count(m["old"]), m["file"]))
                fails += 1
                continue
        try:
            if m.get("patch"):
                sh("git -C %s apply %s" % (REPO, m["patch"]))
            else:
                open(path, "w").write(src.replace(m["old"], m["new"]))
            r = sh([os.path.join(HERE, "check"), m["prop"], "--tier", m["tier"], "--brief"])
        finally:
            sh("git -C %s checkout -- ." % REPO)
        out = r.stdout
        fired = r.returncode == 1 and "VIOLATION property=%s" % m["prop"] in out
        vio_lines = [l for l in out.split("\n") if l.startswith("  ")]
        ok = False
        if m["expect"] == "fire":
            ok = fired and (not m["needle"] or any(m["needle"] in l for l in vio_lines))
        else:
            ok = r.returncode == 0 and not fired
        print("%s %-28s %s rc=%d %s" % ("ok  " if ok else "FAIL", m["id"], m["expect"], r.returncode,
                                         (vio_lines[0][:150] if vio_lines else "")))
        if not ok:
            fails += 1
            print("\n".join(out.split("\n")[-12:]))
    print("selftest: %d failure(s)" % fails)
    return 1 if fails else 0


if __name__ == "__main__":
    sys.exit(main())
