#!/usr/bin/env python3
"""Freeze the list of internal (static) functions of every library unit on the reference tree.
The front end inlines any internal function that is NOT in this list into its callers before analysis, so that a refactoring
which moves code into a new static helper is analysed as the code it is; anchors that rules name stay functions."""
import json
import os
import re
import sys
sys.path.insert(0, os.path.dirname(os.path.dirname(os.path.abspath(__file__))))
from jcv import frontend

out = {}
for v in ("default", "threading", "asserts", "setlocale"):
    for u in frontend.build_ir(v, raw=True):
        with open(u["ir"]) as fh:
            for line in fh:
                m = re.match(r"define internal .*?@\"?([\w.$]+)\"?\(", line)
                if m:
                    out.setdefault(u["file"], set()).add(m.group(1))
json.dump({k: sorted(v) for k, v in sorted(out.items())}, open(os.path.join(os.path.dirname(os.path.abspath(__file__)), "known_internal.json"), "w"), indent=1)
print({k: len(v) for k, v in out.items()})
