#!/bin/sh
# Re-run every stored seeded change against the checks named in its meta.json (apply to /repo, check, undo).
# usage: tools/all_seeds.sh [S-id ...]
cd /verif
git -C /repo diff --quiet || { echo "/repo dirty"; exit 2; }
L="$@"; [ -z "$L" ] && L=$(ls seeded)
fail=0
for s in $L; do
  d=/verif/seeded/$s
  props=$(python3 -c "import json,re,sys; m=json.load(open('$d/meta.json')); print(' '.join(re.findall(r'\bC[0-9][0-9]\b', m['checked_with'])) or m['property'])")
  if ! git -C /repo apply --check $d/patch.diff 2>/dev/null; then echo "$s: PATCH DOES NOT APPLY"; fail=1; continue; fi
  git -C /repo apply $d/patch.diff
  caught=""
  for P in $props; do
    timeout 1200 ./check $P --brief > /tmp/as-$s-$P.log 2>&1; rc=$?
    [ $rc -eq 1 ] && caught="$caught $P"
  done
  git -C /repo checkout -- .
  if [ -n "$caught" ]; then echo "$s: caught by$caught"; else echo "$s: MISSED (checked $props)"; fail=1; fi
done
exit $fail
