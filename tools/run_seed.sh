#!/bin/sh
# usage: tools/run_seed.sh <seeded dir> <PROP>... : apply the seeded patch to /repo, run the checks, undo
D=$1; shift
git -C /repo diff --quiet || { echo "/repo dirty"; exit 2; }
git -C /repo apply $D/patch.diff || { echo "patch does not apply"; exit 2; }
for P in "$@"; do
  timeout 900 /verif/check $P --brief > /tmp/rs-$P.log 2>&1; rc=$?
  echo "  check $P rc=$rc: $(grep -A1 '^VIOLATION' /tmp/rs-$P.log | grep -v '^VIOLATION\|^--' | head -2 | cut -c1-220)"
done
git -C /repo checkout -- .
