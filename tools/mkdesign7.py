#!/usr/bin/env python3
"""Regenerate sections 7.2 - 7.6 of DESIGN.md from the evidence files, the known-findings file and seeded/*/meta.json."""
import glob
import json
import os

V = os.path.dirname(os.path.dirname(os.path.abspath(__file__)))
D = open(os.path.join(V, "DESIGN.md")).read()
a = D.index("### 7.2 Findings on the pinned tree")
b = D.index("## Appendix A")

FINDINGS = [
    ("F1", "C10", "`get_int64/uint64` cast at 2^63 / 2^64", "fixed 3739285 (C10.R1)"),
    ("F2", "C12", "null array element reported ENOENT", "fixed 3223e4c (C12.R2)"),
    ("F3", "C12", "empty token accepted as index 0", "fixed eddafce (C12.R1)"),
    ("F4", "C13", "NULL `op`/`from`/`path` to strcmp/strlen", "fixed 951536c (C13.R1)"),
    ("F5", "C13", "add/replace/copy share nodes with the patch document", "known finding (2 entries)"),
    ("F6", "C08", "43 dropped print-buffer results in the serializers", "known finding (8 entries, one per (function, callee) group)"),
    ("F7", "C01", "`strdup(tok->pb->buf)` truncates member names at a decoded NUL", "known finding"),
    ("F8", "C16", "strict accepts single-quoted member names", "fixed 8ac72f8 (C16.strict)"),
    ("F9", "C16", "strict accepts the number tokens `00`, `-012`, `01.5`, `5.`, `1.e5`, `-.5`", "fixed 0e6588f (found by C16.X6 once number tokens were made transparent)"),
    ("F10", "C08", "child leaked when attach fails", "fixed 48ca54e (C08.R2)"),
    ("F11", "C03", "`nBytes` local (UTF-8 validation state lost at a chunk boundary)", "known finding"),
    ("F12", "C08", "key leaked when table insert fails", "fixed a2a9a28 (C08.R2)"),
    ("F13", "C03", "`[1` + `-5]` parses: sign flags re-derived on resumption differ from the carried ones", "fixed d41adfb (found by C03.R8)"),
    ("F14", "C10", "`-val` at INT64_MIN", "fixed da7ee62 (C10.R2)"),
    ("F15", "C04", "reset leaves `high_surrogate`", "fixed 8ead419 (C04.R5)"),
    ("F16", "C18", "plain reads of the counter inside `assert` (Debug + threading)", "known finding, `asserts` variant"),
    ("F17", "C12", "`json_pointer_set` does not unescape the last token", "fixed 1f363ad (C12.R3)"),
    ("F18", "C03", "`[1/*` returns the inner value with success", "fixed 3756bc5 (C03.R5)"),
    ("F19", "C19", "`printbuf_memset` leaves no terminator / fills the whole allocation", "fixed c15115f (C19.R2)"),
    ("F20", "C13", "patch `remove`/`move` deletes by the escaped token", "fixed 7e4ba6f (reported by a seeding sub-agent, then C13.R6)"),
    ("F21", "C02", "NOZERO trims zeros out of the exponent: 1.5e+20 -> `1.5e+2`", "fixed 1d0a43b (reported by a seeding sub-agent, then C02.R6)"),
    ("F22", "C13", "move / copy from `/a` to `/ab` refused: from/path overlap tested on the strings, not on reference tokens", "fixed 1b76f14 (found by C13.R7)"),
    ("F23", "C10", "`json_object_get_uint64` of the string `\\t-1` returns 2^64-1: `json_parse_uint64` skips only `' '` before its `-` test, `strtoull` skips all white space and negates", "fixed 66949f5 (found by C10.R6, written for a fourth-round seed)"),
    ("F24", "C08", "`json_c_set_serialization_double_format(fmt, GLOBAL)` with a failing `strdup` frees the old global format and leaves the global dangling (use after free on the next double, double free on the next call)", "fixed aafd838 (found by C08.R6, written for a fourth-round seed)"),
    ("F25", "C03", "`-0` + `Infinity` in two calls enters the -Infinity state, in one call returns -0: the test uses `case_len`, the byte count of *this call*", "fixed bc447aa (found by C16.X8n, written for a fourth-round seed)"),
]

out = []
out.append("### 7.2 Findings on the pinned tree (all reproduced against the built library before being acted on)\n")
out.append("| id | property | construct | disposition |\n|----|----------|-----------|-------------|")
for f in FINDINGS:
    out.append("| %s | %s | %s | %s |" % f)
out.append("""
Every `fix:` commit in /repo was followed by the unedited suite (25/25). Observations that are outside every property's quantifier
and therefore neither fixed nor listed: a custom double format with an uppercase exponent (`%G`) gets `.0` appended after the
exponent (the emitter looks for a lowercase `e` only); in default mode the tokener accepts `5.` and the retained text is
re-emitted as is.

False alarms met while building, and what was done (the check was corrected, never the finding list): phi-merged allocator results
(null-flow made edge-sensitive), `assert` calls counted as destruction steps, disjunctive guards on doubles (forward interval
analysis), an unrealistic `size = INT_MIN` witness (data invariants passed to the linear engine), opaque literal tokens in the
automaton product (no obligations while the reference is inside a literal), infeasible `?:` arms of `PEEK_CHAR` (constants followed
through phis), loop widening losing the input cursor, array-to-pointer decay and typed views of one object in the evaluator's
memory model, the "two directions" shape of object equality (made semantic), the tombstone rule (sound `LH_EMPTY` hand-back accepted),
a relaxed tight-loop-local rule (C03.R4) whose first version flagged a seeded change for the wrong reason; the evaluator resolved a
private string literal (`@.str`) in the first module that has one instead of the analysed function's module (found when C12.R7 gave a
violation that did not replay; `home_module` added); **code moved into a new static helper** made the per-function list rules
report artefacts and flag the behaviour-preserving version of the same refactoring (the front end now inlines every internal
function that the reference tree does not have, `tools/known_internal.json`, with `opt -passes=always-inline`; nothing changes on the
reference tree; benign helper refactorings of arraylist.c, linkhash.c and json_tokener.c are regression mutants); the C15 structural
rules called a moved-but-sound guard an index violation (they now answer UNDECIDED when the guard does not dominate the
increment in the CFG, and the automaton rule C15.R2 always runs and decides both exactness and index safety); the number rules
answer UNDECIDED, not REFUTED, when the token buffer is handed to a function the model does not know.

Met after the fourth seed round and the B3 refactorings, corrected the same way: a leak reported for `if (key != stackbuf)
free(key)` (an allocator result never equals the address of a local or a global: ownership engine); a leak reported for
`k = const ? key : strdup(key) ... if (!const) free(k)` (an edge that contradicts a condition dominating the acquisition cannot be
taken by a run that acquired: ownership engine); string literals of an inlined function of another module read from the wrong
module (private globals are qualified by the frame's module); `isspace()` made the number evaluation opaque after fix F23 (the
C-locale `__ctype_b_loc` table is modelled); the first version of the dangling-field rule called the string node's `pdata`
dangling although the union's discriminant retires it (members of a union: UNDECIDED) and followed a path that the dominating
`len == 0` excludes (dominating equalities seed the path search); the first version of the serializer-data table refuted a copy
that goes through `json_object_set_serializer` (the setter and `json_object_set_userdata` are followed; an invisible field is
UNDECIDED, only a concrete wrong value is a refutation); the terminator obligation did not see a zero byte stored through an address
computed in place (UNDECIDED, B2-c08); the constructor size rule refuted a size that comes back through a helper's out-parameter
(untracked value: UNDECIDED, B3-c11); the copy = add callback agreement refuted a callback taken from a constant table (resolved
through the table when the index is a function of the flag, otherwise UNDECIDED, B3-c13); C15.R3 crashed on a guard whose comparison
reaches its branch through a materialised boolean (followed). The first oracle of C16.X8n looked wrong on the unchanged tree
(`-0` then `I` gives `continue`) and was replayed against the library before being touched: the library was wrong (F25).
""")

out.append("### 7.3 Rules per property as built (generated from the evidence files of the current tree)\n")
for p in sorted(glob.glob(os.path.join(V, "evidence", "C*.json"))):
    e = json.load(open(p))
    c = e["coverage"]
    out.append("**%s** - %d obligations: %d proven, %d refuted (known findings), %d undecided; %.1f s\n" %
               (e["property_id"], c["obligations"], c["discharged"], c["refuted"], c["undecided"], e["wall_s"]))
    for rid, txt in c["rules"].items():
        pr = c["per_rule"].get(rid, {})
        out.append("* `%s` (%s of %s proven): %s" % (rid, pr.get("PROVEN", 0), sum(pr.values()) if pr else 0, txt))
    if c.get("not_decided"):
        out.append("* *not decided:* " + "; ".join(c["not_decided"]))
    out.append("")

out.append("""### 7.4 Independent seeded changes (sub-agents given only the property text and a scratch worktree)

Eight rounds, one change per property and round; the second- and third-round agents were additionally told the one-line
descriptions of the earlier changes for their property and asked for a different site and mechanism. Each change was confirmed by
`tools/verify_seed.sh` (demo passes on HEAD, patch builds, suite 25/25, demo fails with the patch) and run against the checks with
`tools/run_seed.sh` (apply to /repo, check, `git checkout`); `tools/all_seeds.sh` re-runs all of them against the current checks.

| seed | property | change | needs to manifest | caught by |
|------|----------|--------|-------------------|-----------|""")
for d in sorted(glob.glob(os.path.join(V, "seeded", "S-*"))):
    m = json.load(open(os.path.join(d, "meta.json")))
    out.append("| %s | %s | %s | %s | %s |" % (os.path.basename(d), m["property"], m["change"], m["needs_to_manifest"], m["caught_by"]))
out.append("""
Missed when first run, and the strengthening each caused: S-c12 (C12.R6 unguarded accumulation), S-c13 (callback agreement
copy = add), S-c08 (failure atomicity of the string set: C11.R4, also run under C08), S-c19 (C19.R6 vsnprintf truncation), S-c03
(C03.R7 marker agreement; later C03.R8), S-c20 (read-loop exit rule), S-c04 (walk aborted at the first look-ahead in NUL mode),
S-c02 (C02.R5 exact class analysis of the emitter's conditions on the double), S-c02b (C01.R6 conversion integrity), S-c05b
(C05.R6 node leak rule + out-slot contract of the recursive copy), S-c08b (list failure atomicity under C08; helper inlining),
S-c10b and S-c11b (C11.R7 sign-encoded length discipline), S-c12b (C12.R7 evaluation of the unescape routine on all short tokens),
S-c16b (C16.X6: number tokens made transparent). Caught as submitted: the other 25. S-c15b and S-c13b were caught with a
message that was imprecise; the rules were made to say what is wrong (C15.R2 exactness witness, C13.R2 prefix comparison).
S-c16b is neutralised on the current HEAD by the fix its rule led to (see its meta.json).

Third round (20 changes): caught as submitted 11 (c06c, c07c, c09c, c11c, c12c, c14c, c16c, c17c, c18c, c19c, and c10c by a
rule written an hour before it arrived). Missed by the property's own check although another property's rule fired,
fixed by sharing the rule: c01c (read-loop rule under C01), c04c (level-stack safety under C04), c05c (list slot rules under
C05). Missed outright, new rules: c02c (C02.R1b byte-wise homomorphism of the escaping writer), c03c (library calls on the cursor
are reads: C03.R10 / C04.R1), c08c (C08.R1f half-built object handed to a destructor), c13c (C13.R7 from/path overlap table,
which also found F22), c15c (C15.R4 as a decision table), c20c (C20.R5 writer result reaches the caller). The general lesson of
rounds 2 and 3: a clause of property X that is decided by a rule living under property Y must be *run* under X too, and a rule
that evaluates a routine on one-element inputs says nothing about what the routine does to the next element. The developer mutants in
`tools/selftest.py` (about 200, including behaviour-preserving variants that must stay silent) are the regression suite for the
checkers themselves.

Fourth round (20 changes, written after the refactoring suites of 7.5 had made the rules shape-independent): caught as submitted
11 (c01d, c03d, c05d, c07d, c09d, c14d, c15d, c17d, c18d, c20d; c12d only through a false leak report, see below). Missed,
and the rule each caused: c10d (C10.R6: `json_parse_int64` / `json_parse_uint64` evaluated on every short text over blank, TAB,
sign, digit, letter and on the boundary numerals, `strtoll` / `strtoull` at their ISO C contracts - which found F23 on the unchanged
tree), c12d and c13d (C12.R8 / C13.R6: *member names by evaluation* - every function that hands a string to the object API is run on
concrete reference tokens, including lengths that straddle each buffer size and length constant found in the function, and the
string that reaches `json_object_object_add / get_ex / del` must be the RFC 6901 decoding; this replaced the structural C13.R6),
c08d (C08.R5: no `free` of a pointer-to-const parameter, decided path by path with the integer parameters ranging over the masks
they are tested against), c04d (C08.R6: a block released through a field of a caller-visible object must not stay in that field
when the function returns - which found F24), c11d (C11.R5 terminator obligation on every successful path of the string set),
c19d (C19.R7: every byte that becomes part of the text during a fill is written by that call, unless no function lowers `bpos` while
keeping the bytes), c06d (C06.R3a: the lookup, evaluated on the table the insert leaves, can return the slot the insert chose - for
table sizes 8, 6, 5, 3 and hashes below and above the size), c16d (C16.X8n: a finished top-level number followed by a trailing byte,
token buffer modelled - which found F25), c02d (C09.R6 extended to the routine that copies serializer user data: same serializer
function, own block, same delete function; shared into C02). c12d had been "caught" by a leak report that was itself wrong
(`if (key != stackbuf) free(key)`: the ownership engine did not know that an allocator result never equals the address of a
local); the engine was corrected first, then the change was caught for the right reason by C12.R8. The evaluator also resolved
string literals of an *inlined* function in the caller's module; module-private globals are now qualified by the module of the
frame that names them.

Fifth round (20 changes): caught as submitted 12 (c01e, c02e, c04e, c05e, c06e, c08e, c11e, c13e, c14e, c18e, c19e, c20e), c15e by
C20's read-loop rule, which is now also run under C15. Missed, and the rule each caused: c07e (C07.R8: `array_list_sort`
evaluated on every list of up to 4 elements over three keys, the comparator answered from the keys: qsort on the whole list, or the
list is already ordered), c09e (C09.R7: `json_object_deep_copy_recursive` evaluated on scripted arrays and objects with null and
non-null children - one destination entry per source entry, in order, trailing nulls included), c10e (C10.R7: decision table of
`json_object_int_inc` over representation x boundary value x boundary increment against exact arithmetic clamped to
[INT64_MIN, UINT64_MAX]), c12e (C12.R9: every public function of the pointer module that can reach a lookup refuses "a", "ab/c",
"0"; the printf variants get the string as the result of their `vasprintf`), c16e (C16.X8 repeated with the unrelated
`VALIDATE_UTF8` bit set), c17e (C17.R4 also with the root being JSON null), c03e (C03.R11: from every configuration inside a
string, escape or comment, four bytes in one call against the same bytes one per call - status, end, successor configuration
*and the amount of text appended to the token*; the one-call outcome must be among the byte-per-call outcomes, because the
byte-per-call side starts each call with the code point under construction unconstrained. The corrected version of the same
fast path - guard `st_pos == 0` - is a regression mutant that must stay silent).

Sixth round (20 changes): caught as submitted 9 (c01f, c03f, c05f, c07f, c08f, c09f, c13f, c19f, c20f). Missed, and the rule each
caused: c02f (C20.R6: an open() for writing has O_CREAT | O_TRUNC; shared into C02), c10f (C10.R8: the value that reaches the
integer -> double conversion of `json_object_get_double` is the stored value read with the signedness of its tag), c11f (C11.R6
extended to the whole module: the node's data pointer never reaches strcmp / strlen / strdup ...), c12f (C12.R10: every lookup
entry reports success on "/a" when the member a is present and null), c14f (C14.R1: the base handed to `newlocale` is never the
locale read at entry), c15f (C15.R4: entries without a depth argument create their parser with the default limit, whatever text
they are given), c16f (C04.R5: `json_tokener_reset` writes no configuration field; shared into C16), c17f (C17.R5: the index
pointer given to an array element points into storage of the current activation), c18f (C18.R3: a buffer filled by `read` / `fread`
/ `recv` ... is a write to it). **Not caught, and recorded as such** (`not_caught` in their meta.json; the regression harness
reports them without failing): c04f - a shortcut in the Infinity state that compares seven bytes when the *chunk* (not what is
left of it) has eight: it needs a token that starts in the middle of a chunk of at least eight bytes, and walking nine-byte
chunks through the tokener costs minutes per configuration (tried, removed); c06f - one tail case of `hashlittle`'s 16-bit-aligned
branch adds a byte twice, so the hash depends on the key's address modulo 4: the evaluator does not model uint32 / uint16 / uint8
views of one buffer byte-accurately.

Seventh round (20 changes): caught as submitted 14 (c01g, c02g, c03g, c04g, c07g, c09g, c12g, c13g, c14g, c15g, c16g, c17g, c18g,
c19g). Missed, and the rule each caused: c05g (C05.R7: no call through `_user_delete` is guarded by a test of the user data
pointer), c06g (C06.R3i: when the growth an insert asks for fails, the insert returns failure with the table untouched), c08g
(C08.R7: no path from one release of a pointer value to another release of the same value), c10g (C10.R5: the double setter has
no path that skips the store on a floating-point equality test - +0.0 / -0.0), c11g (C11.R8: the public string functions hand the
caller's length on unchanged), c20g (C20.R7: the result of open() is tested as negative / -1, never "> 0").

Eighth round (20 changes): caught as submitted 12 (c01h, c04h, c05h, c06h, c08h, c11h, c15h, c16h, c17h, c18h, c19h, c20h). Missed,
and the rule each caused: c02h (C02.R7: the indentation helper evaluated for levels 0..70 - exactly `level` tabs or 2 x `level`
blanks, and no append longer than the constant it reads from), c07h (C07.R9: the node-level array operations call the list routine
exactly once with the caller's arguments), c09h (C09.R8: two double nodes are equal exactly when IEEE-equal, evaluated with
comparison predicates interpreted on {1, 2, +0, -0, inf, NaN}), c12h (C12.R11: an array index resolves exactly when it is below the
length, on arrays of 0..2 elements), c13h (C13.R8: the operation handlers work on the caller's root slot, or the local copy is
written back before every return), c14h (C18.R3, the inventory of process-wide state, is now also run under C14: a separator
cached in a static is such a state). **Not caught, recorded as such**: c03h - a one-shot comparison of the whole `Infinity` literal
that needs eight bytes in one chunk (same family as c04f); c10h - `json_object_get_double` on a string node treats every ERANGE
from `strtod` as overflow, so subnormal texts read as 0: which texts `strtod` flags is value-level.

Ninth round (20 changes): caught as submitted 13 (c01i, c02i, c03i, c05i, c08i, c12i, c13i, c14i, c15i, c17i, c18i, c19i, c20i).
Missed, and the rule each caused: c04i (C08.R1n, also run under C04: at every call site that passes a literal NULL for a pointer
parameter of a library function, every access through exactly that parameter in the callee is behind a non-null test - the
"tested on one path, dereferenced on another" contradiction, armed only where a caller is known to pass NULL), c06i (C06.R8: a
function that can be installed as a table's hash function reads no global that a function outside its own call closure writes - a
trampoline that reads the current selection at hashing time changes the hash of live keys), c07i (C07.R8's search half is now an
evaluation: `array_list_bsearch` on every sorted list of 0..4 elements over three keys and the keys 0..4, `bsearch` answered from
the block it is handed - found exactly when present), c09i (C09.R9: `json_c_shallow_copy_default` evaluated on a boolean node holding
each value that `json_object_set_boolean`, itself evaluated on 0, 1, 2, -1, leaves in a node; then `json_object_equal` evaluated on
the node and the node the copy created), c10i (C10.R9: the (tag, value) states are *collected* by evaluating the 64-bit setters on
boundary values and the increment on each of those states; the three integer getters are then evaluated on every collected state -
a getter may rely on a representation invariant only if every producer keeps it, which is what makes the rule silent on a
refactoring that establishes the invariant everywhere), c16i (C16.X9: from every configuration inside a `//` comment the step on the
terminating NUL ends like the step from the white-space configuration the comment was entered from). **Not caught, recorded as
such**: c11i - the set routine releases the separate buffer before copying from the source, which only matters when the source
aliases the node's own bytes; the property quantifies over byte strings and set sequences, not over aliasing sources, and the
unchanged routine has the same release-before-copy order on its growth path, so a rule on that order would fire on the unchanged
tree.

Across the nine rounds (180 changes): 106 were caught by the checks as they stood when the change arrived (25 of 40, then 11, 10, 12,
9, 14, 12, 13 of 20), 68 after a rule was added or shared, 5 are recorded as not caught, 1 was neutralised by a fix. The miss rate per round
stayed between a third and a half throughout (the agents are told the earlier changes and move elsewhere), which is the honest measure of how much of each
property a rule set of this kind covers. Every added rule was then run against all stored refactorings.

### 7.5 Behaviour-preserving refactorings (the "never raises an alarm where the property holds" side)

A checker that is exact on today's source but alarms on the same behaviour written differently is a false alarm in waiting, so the
checks are also run against edits that keep every property true. Two suites are stored under `benign/` (patch + the author's
argument why nothing changes; each builds, passes 25/25, and `tools/all_benign.sh` applies it to /repo, runs all 20 checks, undoes
it). They were written by sub-agents that saw only the property text and a scratch worktree, and were asked to restructure the code
the property is anchored in as far as a maintainer plausibly would: **B-c01..c20** (light: renames, guard styles, loop forms, early
returns vs flags) and **B2-c01..c20** (deep: helpers split out or merged, switch <-> if ladders, result flags instead of early
returns, tables instead of chains, iterator macros replaced by direct table walks, callbacks merged behind a mode argument).

The light suite was silent on 18 of 20 at first run; the two alarms (an append whose text comes from a constant local, B-c01; an
unescape routine that is called instead of being inlined, B-c12) were rule bugs and were fixed. The deep suite was the productive one:
about thirty distinct false alarms on the first run. Every one was a rule that *recognised a shape* and answered REFUTED when the shape was gone.
The correction was the same each time and is now the working principle of the whole tool:

> **REFUTED needs a positive witness** (a concrete input, state, path or decision-table row on which the code does the wrong
> thing). "The construct I was looking for is not there" is UNDECIDED, or - better - the rule is restated so that it is decided
> by evaluation on a finite family and has no preferred shape at all.

What this changed, by engine:

* front end: new static helpers are inlined (`tools/known_internal.json` lists the internal functions of the reference tree; all
  others get `alwaysinline`), the receiving functions then have their stack slots promoted again (a result the helper
  returned through an out-parameter is a plain value once the helper is inlined) and are jump-threaded so that a helper's
  `return -1` / `return 0` followed by the caller's test of that code collapses back into the branch structure the rules see on the
  reference tree;
* condition refinement (ownership, null-flow, taint, Walker) follows values through `zext`/`trunc`, single-entry phis, boolean flags
  (`int ok = (p != NULL); ... if (ok)`), and selects (forking on pointer selects);
* the Walker knows the induction bounds of up- and down-counting loops with `<`, `<=`, `!=` exits; a slot written inside a loop is
  "loop-written" (UNDECIDED for index rules), not wrong;
* rules restated as decision tables evaluated on the IR: C02.R1/R3 (escape writer: local buffers, literal offsets, text + length pairs),
  C02.R5 (classes of the double per CFG edge, texts chosen through a phi of literals), C09.R4 (container equality on scripted pairs of
  objects / arrays, whatever helpers it is decomposed into), C11.R6 (data-pointer flow instead of callee names), C12.R1/R3/R5/R7
  (tokens evaluated concretely; the unescape routine is found by what it does, not by name), C13.R2 (operation dispatch evaluated on
  the six operation names and near misses), C13.R7, C14 (fix-up of the locale's decimal point evaluated on formatted texts),
  C15.R4 (depth decision table), C18.R1 (the destroy decision evaluated through boolean conversions), C20 (read / write loops run
  against scripted short-count sequences);
* known-finding keys no longer contain local variable names, ordinals or line numbers: they are `(rule, function, normalised
  construct)` and, for F6, grouped per `(function, callee)`, so a refactoring that renames a temporary or moves a dropped result
  neither hides nor duplicates a finding;
* instance floors (the vacuity guard) are 60 % of the count confirmed on the reference tree, and are not applied when a rule is run
  as a *shared* rule under another property (`chk.shared()`), because a refactoring legitimately merges call sites.

A third suite, **B3-c04 .. B3-c19** (ten refactorings), was commissioned after the fourth seed round and aimed at exactly the
functions the newest rules read (the text -> integer helpers, the token -> member-name code of pointer and patch, the print buffer,
the hash table's insert / lookup / delete / resize, the string set operation, the deep-copy routines, every function that releases
a field or a global, the number state of the tokener, the member-name ownership of the tokener). What it found is listed with the
false alarms of 7.2. `tools/par_regress.py` runs the whole regression - unchanged tree, the 72 refactorings x 20 checks, the 180
seeded changes, the ~225 developer mutants - in parallel scratch worktrees with private analysis caches (494 tasks, about 70 minutes on 16
cores), never touching /repo or /verif/evidence.

A fourth suite, **B4-c03 .. B4-c17** (six refactorings aimed at the code the fifth-round rules read), found two more: the old
structural C07.R7 (qsort called with `arr->array, arr->length` literally; now UNDECIDED in favour of the evaluation rule C07.R8)
and a `zeroinitializer` element inside a constant table that the evaluator could not read (the traversal's decision table then
saw unknown values).

A fifth suite, **B5-c05 .. B5-c20** (six refactorings aimed at the code the sixth- and seventh-round rules read), found one more:
the dangling-field rule did not see that `old = t->table; t->table = fresh; free(old);` overwrites the field *before* the release.

A sixth suite, **B6-c02, B6-c07, B6-c09, B6-c13** (four refactorings aimed at the code the eighth-round rules read: the
indentation and container serializers, the array wrappers, the equality routine, the patch driver), found one more, in an older
rule: C12.R5 recognised the range test before an array fetch by the *name* `json_object_array_length` in the compared value; once
the accessor became a plain field getter (`list->length`), the path summary saw through it and the comparison read
`idx < obj->c_array->length`, which the rule took for "no comparison with the length" and refuted. The rule now accepts the
accessor's result or the length field of the fetched array's backing list; the mutant that drops the range test
(c12-drop-range-check) and the C12 seeds still fire.

A seventh suite, **B7-c06, B7-c07, B7-c08, B7-c09, B7-c10, B7-c16** (six refactorings aimed at the code the ninth-round rules
read: hash functions and their selection, the sort / search / delete routines of the list, functions with optional pointer
parameters and their callers, the scalar copy and equality cases, the integer setters / getters / increment, the tokener's
epilogue and comment states), found two more, both in `array_list_del_idx` split into helpers: a range end returned through an
out-parameter stayed a stack slot after inlining (front end: slots are promoted again after inlining), and the release loop
rewritten as an index that runs in step with a separate countdown (`while (n > 0) { ... pos++; n--; }`) made C07.R2's bound on the
index underivable - the walk knows a loop-carried value only through its start and direction, and no branch condition mentions
`pos`. A failed entailment about such a value is not a witness of an out-of-range index: it is now UNDECIDED, while a loop whose
own exit test bounds the index wrongly (`i <= stop`) still has the test among the path guards and is still refuted.

What remains after these corrections (and is accepted): a refactoring that removes a function a rule is anchored in by name ends
as analysis-broken (exit 2) for that one check, never as a violation; exit 2 asks for the anchor table to be re-confirmed by a
person, which is the documented meaning of that code. On the stored suites no check ends that way any more (C13.R6, which did
on B2-c08 and B2-c13, was restated as an evaluation rule that has no named anchor).

### 7.6 Honest limits

* Number and literal tokens are modelled with the token buffer concrete (`jcv/numtok.py`): numbers exactly up to digit-run
  collapsing with strtod / strtoll / strtoull at their ISO C contracts, literals (null / true / false / NaN) letter by letter with
  strncmp / strncasecmp evaluated; the Infinity state (no buffer) stays under the reachability rule. Whether libc converts an
  in-range text to the right value is libc's. UTF-8 bit arithmetic and the `%.17g` text are value-level.
* Shape-class arguments (containers of 0..3 members, tables of 4..8 slots, nesting limit 2..4, conversion texts with zero runs of
  length 0..2, pointer tokens up to 5 characters over the 5 characters the routine distinguishes) rely on loop bodies being one piece
  of code; the evidence files say so. These rules evaluate the routine's IR with the partial evaluator on every member of a finite
  family; they do not run the library.
* The automaton step is one call per byte; equivalence with other chunkings is rule C03.R6 / C03.R8 (two bytes in one call vs two
  calls, from every reachable configuration), C03.R11 (four bytes, inside strings / escapes / comments, including the amount of
  text appended) plus the no-local-state rule; longer chunks follow by induction on the carried state *only as far as no decision
  uses a quantity local to the call* - F25 (`case_len`) was exactly such a decision and was found by a rule that feeds one byte per
  call, not by the induction argument.
* The ownership engine's contract tables are verified against the code (C05.R3) but the table of *which* functions acquire is a
  list; a new allocator wrapper must be added there (its absence shows as a drop in an instance floor, exit 2).
* Internal functions absent from `tools/known_internal.json` are inlined before analysis; a new *external* helper is not, and
  rules that meet it answer UNDECIDED or analysis-broken, not a violation.
* Chunk lengths: the tokener is evaluated on chunks of 1, 2 and 4 bytes from every configuration. A shortcut that only applies to
  longer chunks (seeds S-c04f, S-c03h) is outside that family; so is anything that depends on how much input
  *remains* rather than on the bytes seen.
* Bit-level arithmetic through reinterpreting pointer casts (the string hash reading one buffer as uint32 / uint16 / uint8, seed
  S-c06f) is not modelled; what is decided about the hash table is relative to "the hash is a function of the key's bytes".
* Which decimal texts libc's `strtod` reports as out of range (seed S-c10h: gradual underflow) is value-level.
* UNDECIDED obligations are printed and never count as proven: C10.R2 has one (unsigned-compare guarded add in `json_object_int_inc`).

""")
D = D[:a] + "\n".join(out) + D[b:]
open(os.path.join(V, "DESIGN.md"), "w").write(D)
print("DESIGN.md regenerated:", len(D), "bytes")
