#!/usr/bin/env python3
"""Regenerate sections 7.2 - 7.5 of DESIGN.md from the evidence files, the known-findings file and seeded/*/meta.json."""
import glob
import json
import os

V = os.path.dirname(os.path.dirname(os.path.abspath(__file__)))
D = open(os.path.join(V, "DESIGN.md")).read()
a = D.index("### 7.2 Findings on the pinned tree")
b = D.index("## Appendix A")

FINDINGS = [
    ("F1", "C10", "`get_int64/uint64` cast at 2^63 / 2^64", "fixed 3739285 (C10.R1)"),
    ("F2", "C12", "null array element reported ENOENT", "fixed 3223e4c (C12.R2)"),
    ("F3", "C12", "empty token accepted as index 0", "fixed eddafce (C12.R1)"),
    ("F4", "C13", "NULL `op`/`from`/`path` to strcmp/strlen", "fixed 951536c (C13.R1)"),
    ("F5", "C13", "add/replace/copy share nodes with the patch document", "known finding (2 entries)"),
    ("F6", "C08", "43 dropped print-buffer results", "known finding (43 entries)"),
    ("F7", "C01", "`strdup(tok->pb->buf)` truncates member names at a decoded NUL", "known finding"),
    ("F8", "C16", "strict accepts single-quoted member names", "fixed 8ac72f8 (C16.strict)"),
    ("F9", "C16", "strict accepts the number tokens `00`, `-012`, `01.5`, `5.`, `1.e5`, `-.5`", "fixed 0e6588f (found by C16.X6 once number tokens were made transparent)"),
    ("F10", "C08", "child leaked when attach fails", "fixed 48ca54e (C08.R2)"),
    ("F11", "C03", "`nBytes` local (UTF-8 validation state lost at a chunk boundary)", "known finding"),
    ("F12", "C08", "key leaked when table insert fails", "fixed a2a9a28 (C08.R2)"),
    ("F13", "C03", "`[1` + `-5]` parses: sign flags re-derived on resumption differ from the carried ones", "fixed d41adfb (found by C03.R8)"),
    ("F14", "C10", "`-val` at INT64_MIN", "fixed da7ee62 (C10.R2)"),
    ("F15", "C04", "reset leaves `high_surrogate`", "fixed 8ead419 (C04.R5)"),
    ("F16", "C18", "plain reads of the counter inside `assert` (Debug + threading)", "known finding, `asserts` variant"),
    ("F17", "C12", "`json_pointer_set` does not unescape the last token", "fixed 1f363ad (C12.R3)"),
    ("F18", "C03", "`[1/*` returns the inner value with success", "fixed 3756bc5 (C03.R5)"),
    ("F19", "C19", "`printbuf_memset` leaves no terminator / fills the whole allocation", "fixed c15115f (C19.R2)"),
    ("F20", "C13", "patch `remove`/`move` deletes by the escaped token", "fixed 7e4ba6f (reported by a seeding sub-agent, then C13.R6)"),
    ("F21", "C02", "NOZERO trims zeros out of the exponent: 1.5e+20 -> `1.5e+2`", "fixed 1d0a43b (reported by a seeding sub-agent, then C02.R6)"),
    ("F22", "C13", "move / copy from `/a` to `/ab` refused: from/path overlap tested on the strings, not on reference tokens", "fixed 1b76f14 (found by C13.R7)"),
]

out = []
out.append("### 7.2 Findings on the pinned tree (all reproduced against the built library before being acted on)\n")
out.append("| id | property | construct | disposition |\n|----|----------|-----------|-------------|")
for f in FINDINGS:
    out.append("| %s | %s | %s | %s |" % f)
out.append("""
Every `fix:` commit in /repo was followed by the unedited suite (25/25). Observations that are outside every property's quantifier
and therefore neither fixed nor listed: a custom double format with an uppercase exponent (`%G`) gets `.0` appended after the
exponent (the emitter looks for a lowercase `e` only); in default mode the tokener accepts `5.` and the retained text is
re-emitted as is.

False alarms met while building, and what was done (the check was corrected, never the finding list): phi-merged allocator results
(null-flow made edge-sensitive), `assert` calls counted as destruction steps, disjunctive guards on doubles (forward interval
analysis), an unrealistic `size = INT_MIN` witness (data invariants passed to the linear engine), opaque literal tokens in the
automaton product (no obligations while the reference is inside a literal), infeasible `?:` arms of `PEEK_CHAR` (constants followed
through phis), loop widening losing the input cursor, array-to-pointer decay and typed views of one object in the evaluator's
memory model, the "two directions" shape of object equality (made semantic), the tombstone rule (sound `LH_EMPTY` hand-back accepted),
a relaxed tight-loop-local rule (C03.R4) whose first version flagged a seeded change for the wrong reason; the evaluator resolved a
private string literal (`@.str`) in the first module that has one instead of the analysed function's module (found when C12.R7 gave a
violation that did not replay; `home_module` added); **code moved into a new static helper** made the per-function list rules
report artefacts and flag the behaviour-preserving version of the same refactoring (the front end now inlines every internal
function that the reference tree does not have, `tools/known_internal.json`, with `opt -passes=always-inline`; nothing changes on the
reference tree; benign helper refactorings of arraylist.c, linkhash.c and json_tokener.c are regression mutants); the C15 structural
rules called a moved-but-sound guard an index violation (they now answer UNDECIDED when the guard does not dominate the
increment in the CFG, and the automaton rule C15.R2 always runs and decides both exactness and index safety); the number rules
answer UNDECIDED, not REFUTED, when the token buffer is handed to a function the model does not know.
""")

out.append("### 7.3 Rules per property as built (generated from the evidence files of the current tree)\n")
for p in sorted(glob.glob(os.path.join(V, "evidence", "C*.json"))):
    e = json.load(open(p))
    c = e["coverage"]
    out.append("**%s** - %d obligations: %d proven, %d refuted (known findings), %d undecided; %.1f s\n" %
               (e["property_id"], c["obligations"], c["discharged"], c["refuted"], c["undecided"], e["wall_s"]))
    for rid, txt in c["rules"].items():
        pr = c["per_rule"].get(rid, {})
        out.append("* `%s` (%s of %s proven): %s" % (rid, pr.get("PROVEN", 0), sum(pr.values()) if pr else 0, txt))
    if c.get("not_decided"):
        out.append("* *not decided:* " + "; ".join(c["not_decided"]))
    out.append("")

out.append("""### 7.4 Independent seeded changes (sub-agents given only the property text and a scratch worktree)

Three rounds, one change per property and round; the second- and third-round agents were additionally told the one-line
descriptions of the earlier changes for their property and asked for a different site and mechanism. Each change was confirmed by
`tools/verify_seed.sh` (demo passes on HEAD, patch builds, suite 25/25, demo fails with the patch) and run against the checks with
`tools/run_seed.sh` (apply to /repo, check, `git checkout`); `tools/all_seeds.sh` re-runs all of them against the current checks.

| seed | property | change | needs to manifest | caught by |
|------|----------|--------|-------------------|-----------|""")
for d in sorted(glob.glob(os.path.join(V, "seeded", "S-*"))):
    m = json.load(open(os.path.join(d, "meta.json")))
    out.append("| %s | %s | %s | %s | %s |" % (os.path.basename(d), m["property"], m["change"], m["needs_to_manifest"], m["caught_by"]))
out.append("""
Missed when first run, and the strengthening each caused: S-c12 (C12.R6 unguarded accumulation), S-c13 (callback agreement
copy = add), S-c08 (failure atomicity of the string set: C11.R4, also run under C08), S-c19 (C19.R6 vsnprintf truncation), S-c03
(C03.R7 marker agreement; later C03.R8), S-c20 (read-loop exit rule), S-c04 (walk aborted at the first look-ahead in NUL mode),
S-c02 (C02.R5 exact class analysis of the emitter's conditions on the double), S-c02b (C01.R6 conversion integrity), S-c05b
(C05.R6 node leak rule + out-slot contract of the recursive copy), S-c08b (list failure atomicity under C08; helper inlining),
S-c10b and S-c11b (C11.R7 sign-encoded length discipline), S-c12b (C12.R7 evaluation of the unescape routine on all short tokens),
S-c16b (C16.X6: number tokens made transparent). Caught as submitted: the other 25. S-c15b and S-c13b were caught with a
message that was imprecise; the rules were made to say what is wrong (C15.R2 exactness witness, C13.R2 prefix comparison).
S-c16b is neutralised on the current HEAD by the fix its rule led to (see its meta.json).

Third round (20 changes): caught as submitted 11 (c06c, c07c, c09c, c11c, c12c, c14c, c16c, c17c, c18c, c19c, and c10c by a
rule written an hour before it arrived). Missed by the property's own check although another property's rule fired,
fixed by sharing the rule: c01c (read-loop rule under C01), c04c (level-stack safety under C04), c05c (list slot rules under
C05). Missed outright, new rules: c02c (C02.R1b byte-wise homomorphism of the escaping writer), c03c (library calls on the cursor
are reads: C03.R10 / C04.R1), c08c (C08.R1f half-built object handed to a destructor), c13c (C13.R7 from/path overlap table,
which also found F22), c15c (C15.R4 as a decision table), c20c (C20.R5 writer result reaches the caller). The general lesson of
rounds 2 and 3: a clause of property X that is decided by a rule living under property Y must be *run* under X too, and a rule
that evaluates a routine on one-element inputs says nothing about what the routine does to the next element. The developer mutants in
`tools/selftest.py` (about 200, including behaviour-preserving variants that must stay silent) are the regression suite for the
checkers themselves.

### 7.5 Honest limits

* Number and literal tokens are modelled with the token buffer concrete (`jcv/numtok.py`): numbers exactly up to digit-run
  collapsing with strtod / strtoll / strtoull at their ISO C contracts, literals (null / true / false / NaN) letter by letter with
  strncmp / strncasecmp evaluated; the Infinity state (no buffer) stays under the reachability rule. Whether libc converts an
  in-range text to the right value is libc's. UTF-8 bit arithmetic and the `%.17g` text are value-level.
* Shape-class arguments (containers of 0..3 members, tables of 4..8 slots, nesting limit 2..4, conversion texts with zero runs of
  length 0..2, pointer tokens up to 5 characters over the 5 characters the routine distinguishes) rely on loop bodies being one piece
  of code; the evidence files say so. These rules evaluate the routine's IR with the partial evaluator on every member of a finite
  family; they do not run the library.
* The automaton step is one call per byte; equivalence with other chunkings is rule C03.R6 / C03.R8 (two bytes in one call vs two
  calls, from every reachable configuration) plus the no-local-state rule; longer chunks follow by induction on the carried state.
* The ownership engine's contract tables are verified against the code (C05.R3) but the table of *which* functions acquire is a
  list; a new allocator wrapper must be added there (its absence shows as a drop in an instance floor, exit 2).
* Internal functions absent from `tools/known_internal.json` are inlined before analysis; a new *external* helper is not, and
  rules that meet it answer UNDECIDED or analysis-broken, not a violation.
* UNDECIDED obligations are printed and never count as proven: C10.R2 has one (unsigned-compare guarded add in `json_object_int_inc`).

""")
D = D[:a] + "\n".join(out) + D[b:]
open(os.path.join(V, "DESIGN.md"), "w").write(D)
print("DESIGN.md regenerated:", len(D), "bytes")
