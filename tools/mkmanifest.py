#!/usr/bin/env python3
"""Regenerate MANIFEST.json from tools/claims.json (claimed checks) + properties.jsonl."""
import json, os
HERE = os.path.dirname(os.path.dirname(os.path.abspath(__file__)))
props = [json.loads(l) for l in open(os.path.join(HERE, "properties.jsonl"))]
claims = json.load(open(os.path.join(HERE, "tools", "claims.json")))
checks = []
na = []
for p in props:
    c = claims["claimed"].get(p["id"])
    if c is None:
        na.append({"property_id": p["id"], "reason": claims["not_applicable"].get(p["id"], "check not built yet (DESIGN.md section 5 build order)")})
        continue
    checks.append({
        "property_id": p["id"],
        "quick_cmd": "./check %s --tier quick" % p["id"],
        "thorough_cmd": "./check %s --tier thorough" % p["id"],
        "evidence_file": "/verif/evidence/%s.json" % p["id"],
        "replay_cmd_template": "./check %s --replay {path}" % p["id"],
        "engine": "jcv",
        "level_claimed": {"category": "other", "text": c["level_text"], "design_ref": c.get("design_ref", "DESIGN.md section 3 " + p["id"])},
        "level_note": c["level_note"],
        "technique": c["technique"],
    })
m = {
    "version": 1,
    "setup_cmd": "./setup.sh",
    "hooks": {"guard": "JSON_C_VERIF",
              "enable": "none needed: the analysis compiles /repo's working tree to LLVM IR and reads it; no instrumentation exists in /repo",
              "baseline_off_cmd": "./baseline.sh", "source_commits": [], "add_only": True},
    "engines": [{"name": "jcv", "path": "/verif/jcv", "serves_properties": sorted(claims["claimed"]),
                 "kind_free_text": "custom static analysis over LLVM IR (clang 14 -O0 + mem2reg) of the library units: call-result discipline, ownership typestate, null-flow, guard intervals, finite-domain partial evaluation, effect/who-may-write rules"}],
    "checks": checks,
    "notes": claims.get("notes", ""),
    "not_applicable": na,
}
json.dump(m, open(os.path.join(HERE, "MANIFEST.json"), "w"), indent=1)
print("claimed", len(checks), "not_applicable", len(na))
