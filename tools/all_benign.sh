#!/bin/sh
# Re-run every stored behaviour-preserving refactoring (benign/B-*) against all 20 checks: every check must stay silent.
cd /verif
fail=0
L="$@"; [ -z "$L" ] && L=$(ls benign)
for b in $L; do
  echo "== $b"
  tools/run_benign.sh /verif/benign/$b || fail=1
done
exit $fail
