"""Rules over the extracted tokener automaton, shared by C01 / C03 / C04 / C15 / C16."""
from . import tokauto, product, rfcref
from .ir import load_program

F_STRICT, F_TRAILING, F_UTF8 = 1, 2, 16
KIND_NAMES = {"X1": "comment", "X2": "single-quoted string / member name", "X3": "trailing comma",
              "X5": "raw control character inside a string"}

_products = {}


def get_product(prog, flags, max_depth, ext):
    key = (id(prog), flags, max_depth, ext)
    if key not in _products:
        T = tokauto.get_table(prog, flags, max_depth)
        stats, checks, parent = product.explore(T, ext)
        _products[key] = (T, stats, checks, parent)
    return _products[key]


def pos_name(ref):
    stack = "".join(ref[1]) or "top"
    return "%s@%s" % (ref[0], stack)


def describe_table(chk, T, name):
    chk.tables[name] = {"configurations": len(T.trans), "transitions": sum(len(v) for v in T.trans.values()),
                        "flags": T.flags, "max_depth": T.max_depth, "stats": T.stats}


def group_obligations(checks, pred, keyfn):
    """aggregate per key: (n, failing entries)"""
    out = {}
    for c in checks:
        if not pred(c):
            continue
        k = keyfn(c)
        g = out.setdefault(k, [0, []])
        g[0] += 1
        if not c["holds"]:
            g[1].append(c)
    return out


def entry_witness(T, parent, c):
    return product.show(product.witness(parent, c["pair"], c["bytes"][0]))


def ext_kind_of(ref, b, max_depth):
    r = rfcref.step(ref, b, ext=True, max_depth=max_depth)
    return r[2] if r[0] == "accept" else None
