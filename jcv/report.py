"""Obligation bookkeeping, known findings, evidence files, exit codes."""
import json
import os
import sys
import time

from .frontend import VERIF, AnalysisBroken

# developer regression runs (tools/par_regress.py) redirect the evidence of mutated trees away from /verif/evidence
EVIDENCE_DIR = os.environ.get("JCV_EVIDENCE") or os.path.join(VERIF, "evidence")

PROVEN, REFUTED, UNDECIDED = "PROVEN", "REFUTED", "UNDECIDED"


class Obligation:
    __slots__ = ("rule", "fn", "sig", "verdict", "loc", "msg", "detail", "ordinal", "variant", "group")

    def __init__(self, rule, fn, sig, verdict, loc, msg, detail=None, variant="default"):
        self.rule = rule
        self.fn = fn
        self.sig = sig
        self.verdict = verdict
        self.loc = loc
        self.msg = msg
        self.detail = detail or {}
        self.ordinal = 0
        self.variant = variant
        self.group = None      # coarser identity for known findings that name "every site of this kind in this function"

    def group_key(self):
        return None if self.group is None else "%s|%s|%s|*" % (self.rule, self.fn, self.group)

    def key(self):
        return "%s|%s|%s|%d" % (self.rule, self.fn, self.sig, self.ordinal)

    def to_json(self):
        return {"rule": self.rule, "function": self.fn, "construct": self.sig, "ordinal": self.ordinal,
                "verdict": self.verdict, "loc": self.loc, "message": self.msg, "variant": self.variant,
                "detail": self.detail}


class Check:
    def __init__(self, prop, tier="quick", seed=0):
        self.prop = prop
        self.tier = tier
        self.seed = seed
        self.t0 = time.time()
        self.obls = []
        self.rules = {}        # rule id -> description
        self.floors = {}       # rule id -> (measured, floor)
        self.analysed = {"variants": {}, "functions": set()}
        self.notes = []
        self.tables = {}       # extra structured output for evidence
        self.assumptions = []
        self.undecided_clauses = []

    # ---- registration ------------------------------------------------------
    def rule(self, rid, text):
        self.rules[rid] = text

    def variant(self, prog):
        self.analysed["variants"][prog.variant] = {
            "units": [{"file": u["file"], "hash": u["hash"]} for u in prog.units],
            "functions": sum(1 for _ in prog.all_functions()),
            "instructions": sum(1 for f in prog.all_functions() for _ in f.instrs()),
        }

    def touched(self, fn):
        self.analysed["functions"].add(fn.name if hasattr(fn, "name") else str(fn))

    def add(self, rule, fn, sig, verdict, loc, msg, detail=None, variant="default"):
        if rule not in self.rules:
            raise AnalysisBroken("rule %s used but not declared" % rule)
        o = Obligation(rule, fn, sig, verdict, loc, msg, detail, variant)
        n = sum(1 for p in self.obls if p.rule == rule and p.fn == fn and p.sig == sig and p.variant == variant)
        o.ordinal = n
        self.obls.append(o)
        return o

    def proven(self, rule, fn, sig, loc, msg, detail=None, variant="default"):
        return self.add(rule, fn, sig, PROVEN, loc, msg, detail, variant)

    def refuted(self, rule, fn, sig, loc, msg, detail=None, variant="default"):
        return self.add(rule, fn, sig, REFUTED, loc, msg, detail, variant)

    def undecided(self, rule, fn, sig, loc, msg, detail=None, variant="default"):
        return self.add(rule, fn, sig, UNDECIDED, loc, msg, detail, variant)

    def shared(self):
        """context manager: rules borrowed from another property's module are run without their instance floors (a vanished
        anchor is that property's analysis-broken, not this one's)"""
        chk = self

        class _S:
            def __enter__(self_):
                chk._floors_off = getattr(chk, "_floors_off", 0) + 1

            def __exit__(self_, *a):
                chk._floors_off -= 1
                return False
        return _S()

    def floor(self, rule, measured, floor, what):
        """instance-count floor: fewer instances than confirmed by hand is analysis-broken"""
        # the number written in the rule is the count confirmed by hand on the reference tree; a refactoring may merge or split
        # sites, so the run is called blind only when fewer than 60% of them (at least one) are found
        confirmed = floor
        floor = max(1, (floor * 6) // 10)
        self.floors[rule] = {"measured": measured, "floor": floor, "confirmed_on_reference_tree": confirmed, "what": what}
        if getattr(self, "_floors_off", 0):
            return
        if measured < floor:
            # decided at finish(): a refuted obligation is reported first; with none, the run is analysis-broken
            self.floor_broken = getattr(self, "floor_broken", []) + [
                "rule %s: %d instances of '%s' found, floor is %d (anchor moved or rule went blind)" % (rule, measured, what, floor)]

    def require(self, cond, msg):
        if not cond:
            raise AnalysisBroken(msg)

    def note(self, s):
        self.notes.append(s)

    # ---- finish --------------------------------------------------------------
    def finish(self):
        prop = self.prop
        known = load_known(prop)
        viol = []
        known_hit = []
        for o in self.obls:
            if o.verdict != REFUTED:
                continue
            k = known.get((o.key(), o.variant)) or known.get((o.key(), None))
            if k is None and o.group_key() is not None:
                k = known.get((o.group_key(), o.variant)) or known.get((o.group_key(), None))
            if k is not None and k.get("status") == "known":
                known_hit.append((o, k))
            else:
                viol.append(o)
        n = len(self.obls)
        np_ = sum(1 for o in self.obls if o.verdict == PROVEN)
        nu = sum(1 for o in self.obls if o.verdict == UNDECIDED)
        nr = n - np_ - nu
        print("[%s] tier=%s variants=%s functions=%d rules=%d obligations=%d proven=%d refuted=%d undecided=%d"
              % (prop, self.tier, ",".join(self.analysed["variants"]), len(self.analysed["functions"]),
                 len(self.rules), n, np_, nr, nu))
        for rid in self.rules:
            os_ = [o for o in self.obls if o.rule == rid]
            fl = self.floors.get(rid)
            print("[%s] %s: %d obligations, %d proven, %d refuted, %d undecided%s -- %s"
                  % (prop, rid, len(os_), sum(1 for o in os_ if o.verdict == PROVEN),
                     sum(1 for o in os_ if o.verdict == REFUTED), sum(1 for o in os_ if o.verdict == UNDECIDED),
                     (" (instances %d, floor %d)" % (fl["measured"], fl["floor"])) if fl else "",
                     self.rules[rid]))
        for o in self.obls:
            if o.verdict == UNDECIDED:
                print("[%s] UNDECIDED %s %s %s: %s" % (prop, o.rule, o.loc, o.fn, o.msg))
        printed = set()
        for o, k in known_hit:
            if id(k) in printed:
                continue
            printed.add(id(k))
            sites = [x for x, kk in known_hit if kk is k]
            print("KNOWN-FINDING: property=%s %s [%s %s %s%s]" % (prop, k.get("what", o.msg), o.rule, o.loc, o.fn,
                                                                  (", %d sites" % len(sites)) if len(sites) > 1 else ""))
        vdir = os.path.join(EVIDENCE_DIR, "violations")
        os.makedirs(vdir, exist_ok=True)
        for f in os.listdir(vdir):
            if f.startswith(prop + "-"):
                os.unlink(os.path.join(vdir, f))
        for k, o in enumerate(viol):
            path = os.path.join(vdir, "%s-%d.json" % (prop, k + 1))
            with open(path, "w") as fh:
                json.dump({"property": prop, "key": o.key(), **o.to_json()}, fh, indent=1)
            print("VIOLATION property=%s replay=%s" % (prop, path))
            print("  %s %s %s: %s" % (o.rule, o.loc, o.fn, o.msg))
            for dk, dv in ({} if getattr(self, "brief", False) else (o.detail or {})).items():
                print("    %s: %s" % (dk, dv if isinstance(dv, str) else json.dumps(dv)))
        self._write_evidence(n, np_, nr, nu, viol, known_hit)
        if not viol and getattr(self, "floor_broken", None):
            raise AnalysisBroken("; ".join(self.floor_broken))
        return 1 if viol else 0

    def _write_evidence(self, n, np_, nr, nu, viol, known_hit):
        samples = []
        per_rule_seen = {}
        for o in self.obls:
            c = per_rule_seen.get((o.rule, o.verdict), 0)
            if c < 3:
                per_rule_seen[(o.rule, o.verdict)] = c + 1
                samples.append(o.to_json())
        distinct = len({(o.key(), o.variant) for o in self.obls})
        ev = {
            "property_id": self.prop,
            "tier": self.tier,
            "seed": self.seed,
            "level": "other",
            "coverage": {
                "explanation": "Static analysis of LLVM IR compiled from /repo's working tree (never executed). "
                               "Each obligation is one rule instance (call site, cast, store, path or decision-table row) "
                               "decided PROVEN / REFUTED / UNDECIDED by the named rule; only REFUTED raises a violation. "
                               "The rules decide structural necessary conditions of the property, not the behaviour itself; "
                               "clauses not decided are listed under not_decided.",
                "obligations": n,
                "discharged": np_,
                "refuted": nr,
                "undecided": nu,
                "known_findings_matched": len(known_hit),
                "evaluations": max(n, 1),
                "distinct_nontrivial": distinct,
                "rule": "one obligation per rule instance found in the IR of the current tree; distinct = distinct "
                        "(rule, function, construct signature, ordinal, variant) keys; every instance is non-trivial "
                        "in the sense that it is a real construct of the code the rule applies to",
                "samples": samples,
                "exhaustive": True,
                "checker_cmd": "./check %s --tier %s" % (self.prop, self.tier),
                "trusted_base": ["clang 14 front end and mem2reg", "jcv/ir.py IR parser", "rule tables in jcv/props"],
                "rules": self.rules,
                "instance_floors": self.floors,
                "variants": self.analysed["variants"],
                "functions_analysed": sorted(self.analysed["functions"]),
                "per_rule": {rid: {v: sum(1 for o in self.obls if o.rule == rid and o.verdict == v)
                                   for v in (PROVEN, REFUTED, UNDECIDED)} for rid in self.rules},
                "not_decided": self.undecided_clauses,
                "tables": self.tables,
                "notes": self.notes,
                "refuted_list": [o.to_json() for o in self.obls if o.verdict == REFUTED],
                "undecided_list": [o.to_json() for o in self.obls if o.verdict == UNDECIDED],
            },
            "assumptions": self.assumptions + [
                "the IR analysed is what clang 14 produces for the build's flags; other compilers/configurations are not covered unless listed under variants",
                "libc functions behave as their C standard / POSIX summaries in jcv say",
            ],
            "wall_s": round(time.time() - self.t0, 3),
            "violations": len(viol),
        }
        edir = EVIDENCE_DIR
        os.makedirs(edir, exist_ok=True)
        tmp = os.path.join(edir, ".%s.json.tmp%d" % (self.prop, os.getpid()))
        with open(tmp, "w") as fh:
            json.dump(ev, fh, indent=1, sort_keys=True, default=str)
        os.rename(tmp, os.path.join(edir, "%s.json" % self.prop))


def load_known(prop):
    """known_findings.json: {"findings":[{property, key, variant?, status: known|fixed, what, input}]}"""
    path = os.path.join(VERIF, "known_findings.json")
    out = {}
    if not os.path.isfile(path):
        return out
    with open(path) as fh:
        data = json.load(fh)
    for e in data.get("findings", []):
        if e.get("property") != prop:
            continue
        out[(e["key"], e.get("variant"))] = e
    return out


def write_broken_evidence(prop, tier, seed, msg, t0):
    ev = {"property_id": prop, "tier": tier, "seed": seed, "level": "other",
          "coverage": {"explanation": "ANALYSIS BROKEN (exit 2): " + msg, "evaluations": 1, "distinct_nontrivial": 0,
                       "samples": [msg]},
          "wall_s": round(time.time() - t0, 3), "violations": 0}
    edir = EVIDENCE_DIR
    os.makedirs(edir, exist_ok=True)
    with open(os.path.join(edir, "%s.json" % prop), "w") as fh:
        json.dump(ev, fh, indent=1)
