"""Parser for the textual LLVM IR that clang 14 -O0 (+ mem2reg) emits for C.

Closed world: an opcode or operand form that is not understood raises
AnalysisBroken instead of being guessed at.
"""
import re
from .frontend import AnalysisBroken

# ----------------------------------------------------------------------------
# values


class Val:
    """An operand. kind in: reg, int, float, null, global, undef, zero, cexpr, meta, label, bool"""
    __slots__ = ("kind", "type", "v", "args")

    def __init__(self, kind, type_, v=None, args=None):
        self.kind = kind
        self.type = type_
        self.v = v
        self.args = args

    def is_reg(self):
        return self.kind == "reg"

    def is_const_int(self):
        return self.kind == "int"

    def __repr__(self):
        if self.kind == "reg":
            return "%" + self.v
        if self.kind == "global":
            return "@" + self.v
        if self.kind == "int":
            return str(self.v)
        if self.kind == "cexpr":
            return "%s(%s)" % (self.v, ", ".join(map(repr, self.args)))
        if self.kind == "null":
            return "null"
        return "%s:%s" % (self.kind, self.v)

    def key(self):
        """hashable identity of the operand"""
        if self.kind == "cexpr":
            return ("cexpr", self.v, tuple(a.key() for a in self.args))
        return (self.kind, self.v)


class Instr:
    __slots__ = ("res", "op", "type", "ops", "x", "dbg", "block", "idx", "fn", "raw")

    def __init__(self):
        self.res = None     # result register name (without %), or None
        self.op = None      # opcode
        self.type = None    # result type
        self.ops = []       # operand Vals
        self.x = {}         # opcode-specific extras
        self.dbg = None     # metadata id (int)
        self.block = None
        self.idx = 0
        self.fn = None
        self.raw = ""

    def __repr__(self):
        return "<%s%s %s>" % (("%" + self.res + " = ") if self.res else "", self.op,
                              ", ".join(map(repr, self.ops)))

    # convenience ----------------------------------------------------------
    @property
    def callee(self):
        """name of a directly called function, or None for an indirect call"""
        c = self.x.get("callee")
        if c is None:
            return None
        c = strip_casts(c)
        if c.kind == "global":
            return c.v
        return None

    def loc(self):
        return self.fn.module.loc(self.dbg)

    def locstr(self):
        l = self.loc()
        if not l:
            return "%s:?" % self.fn.module.srcname
        return "%s:%d:%d" % (l[2] or self.fn.module.srcname, l[0], l[1])


class Block:
    __slots__ = ("name", "instrs", "succs", "preds", "fn")

    def __init__(self, name, fn):
        self.name = name
        self.instrs = []
        self.succs = []
        self.preds = []
        self.fn = fn

    @property
    def term(self):
        return self.instrs[-1]

    def __repr__(self):
        return "<bb %s>" % self.name


class Function:
    def __init__(self, name, module):
        self.name = name
        self.module = module
        self.ret_type = None
        self.params = []      # list of (type, name)
        self.blocks = {}      # name -> Block (insertion ordered)
        self.is_decl = False
        self.internal = False
        self.varargs = False
        self.dbg = None
        self.defs = {}        # reg name -> Instr
        self.local_names = {}  # reg name -> source variable name (from dbg.value)

    @property
    def entry(self):
        return next(iter(self.blocks.values()))

    def instrs(self):
        for b in self.blocks.values():
            for i in b.instrs:
                yield i

    def param_index(self, regname):
        for k, (_, n) in enumerate(self.params):
            if n == regname:
                return k
        return None

    def __repr__(self):
        return "<fn %s>" % self.name


class Global:
    def __init__(self, name):
        self.name = name
        self.type = None
        self.init = None      # Val or None
        self.constant = False
        self.external = False
        self.thread_local = False
        self.internal = False
        self.bytes = None     # for c"..." initialisers
        self.module = None


class Module:
    def __init__(self, srcname, path):
        self.srcname = srcname
        self.path = path
        self.structs = {}      # '%struct.x' -> [field types] or None (opaque)
        self.globals = {}
        self.functions = {}
        self.md = {}           # id -> (kind, fields dict) | list
        self._loc_cache = {}
        self._struct_fields = None

    # ---- debug info helpers ----------------------------------------------
    def loc(self, mid):
        """(line, col, file) of a !DILocation"""
        if mid is None:
            return None
        if mid in self._loc_cache:
            return self._loc_cache[mid]
        m = self.md.get(mid)
        r = None
        if m and m[0] == "DILocation":
            f = m[1]
            r = (int(f.get("line", 0)), int(f.get("column", 0)), self._scope_file(f.get("scope")))
        self._loc_cache[mid] = r
        return r

    def _scope_file(self, sid):
        seen = 0
        while sid is not None and seen < 50:
            seen += 1
            m = self.md.get(_mid(sid))
            if not m or isinstance(m, list):
                return None
            f = m[1]
            if m[0] == "DIFile":
                fn = f.get("filename", "")
                return fn.split("/")[-1]
            if "file" in f:
                sid = f["file"]
                m2 = self.md.get(_mid(sid))
                if m2 and m2[0] == "DIFile":
                    return m2[1].get("filename", "").split("/")[-1]
            sid = f.get("scope")
        return None

    def struct_fields(self, sname):
        """field names of '%struct.NAME' by index, from DICompositeType; None if unknown"""
        if self._struct_fields is None:
            self._struct_fields = {}
            for mid, m in self.md.items():
                if isinstance(m, list) or m[0] != "DICompositeType":
                    continue
                f = m[1]
                if f.get("tag") not in ("DW_TAG_structure_type", "DW_TAG_union_type"):
                    continue
                nm = f.get("name")
                els = f.get("elements")
                if not nm or els is None:
                    continue
                lst = self.md.get(_mid(els))
                if not isinstance(lst, list):
                    continue
                names = []
                for e in lst:
                    em = self.md.get(_mid(e))
                    if em and not isinstance(em, list) and em[0] == "DIDerivedType" and em[1].get("tag") == "DW_TAG_member":
                        names.append(em[1].get("name") or "?")
                pre = "%struct." if f.get("tag") == "DW_TAG_structure_type" else "%union."
                self._struct_fields.setdefault(pre + nm, names)
        return self._struct_fields.get(sname)

    def enumerators(self, enum_name=None):
        """dict name -> value for all DIEnumerators (optionally of one enum type)"""
        out = {}
        for mid, m in self.md.items():
            if isinstance(m, list) or m[0] != "DICompositeType":
                continue
            f = m[1]
            if f.get("tag") != "DW_TAG_enumeration_type":
                continue
            if enum_name is not None and f.get("name") != enum_name:
                continue
            lst = self.md.get(_mid(f.get("elements")))
            if not isinstance(lst, list):
                continue
            for e in lst:
                em = self.md.get(_mid(e))
                if em and not isinstance(em, list) and em[0] == "DIEnumerator":
                    out[em[1]["name"]] = int(em[1]["value"])
        return out


def _mid(s):
    if s is None:
        return None
    if isinstance(s, int):
        return s
    s = s.strip()
    if s.startswith("!") and s[1:].isdigit():
        return int(s[1:])
    return None


# ----------------------------------------------------------------------------
# lexical helpers

_OPEN = "([{<"
_CLOSE = ")]}>"


def split_top(s, sep=","):
    """split at top-level separators honouring brackets and string quotes"""
    out = []
    depth = 0
    cur = []
    i = 0
    n = len(s)
    inq = False
    while i < n:
        c = s[i]
        if inq:
            cur.append(c)
            if c == '"':
                inq = False
            i += 1
            continue
        if c == '"':
            inq = True
            cur.append(c)
        elif c in _OPEN:
            # '<' only counts as a bracket when it starts a vector/packed type, i.e. not in icmp preds
            depth += 1
            cur.append(c)
        elif c in _CLOSE:
            depth -= 1
            cur.append(c)
        elif c == sep and depth == 0:
            out.append("".join(cur).strip())
            cur = []
        else:
            cur.append(c)
        i += 1
    t = "".join(cur).strip()
    if t or out:
        out.append(t)
    return out


_BASE_RE = re.compile(r"\s*(void|i\d+|float|double|x86_fp80|half|fp128|metadata|label|ptr|token|opaque|%[\w.$\-]+|%\"[^\"]*\")")


def read_type(s, i=0):
    """read one type starting at s[i:]; returns (typestr, next index)"""
    n = len(s)
    while i < n and s[i] == " ":
        i += 1
    start = i
    if i < n and s[i] in "[{<":
        # aggregate: balanced
        depth = 0
        while i < n:
            c = s[i]
            if c in "[{<(":
                depth += 1
            elif c in "]}>)":
                depth -= 1
                if depth == 0:
                    i += 1
                    break
            i += 1
    else:
        m = _BASE_RE.match(s, i)
        if not m:
            raise AnalysisBroken("cannot read type at: %r" % s[i:i + 60])
        i = m.end()
    # suffixes
    while True:
        j = i
        while j < n and s[j] == " ":
            j += 1
        if j < n and s[j] == "*":
            i = j + 1
            continue
        if j < n and s[j] == "(":
            # function type
            depth = 0
            k = j
            while k < n:
                if s[k] == "(":
                    depth += 1
                elif s[k] == ")":
                    depth -= 1
                    if depth == 0:
                        k += 1
                        break
                k += 1
            i = k
            continue
        break
    return s[start:i].strip(), i


_ATTRS = {"noundef", "signext", "zeroext", "nonnull", "noalias", "nocapture", "readonly",
          "readnone", "writeonly", "returned", "inreg", "immarg", "nofree", "nest", "swiftself"}
_ATTR_RE = re.compile(r"\s*(align \d+|dereferenceable\(\d+\)|dereferenceable_or_null\(\d+\)|byval\([^)]*\)|sret\([^)]*\)|captures\([^)]*\))")


def _skip_attrs(s, i):
    n = len(s)
    while True:
        while i < n and s[i] == " ":
            i += 1
        m = _ATTR_RE.match(s, i)
        if m:
            i = m.end()
            continue
        m = re.match(r"[a-z_]+", s[i:])
        if m and m.group(0) in _ATTRS:
            i += m.end()
            continue
        return i


_CEXPR_OPS = ("getelementptr", "bitcast", "inttoptr", "ptrtoint", "trunc", "zext", "sext",
              "add", "sub", "mul", "and", "or", "xor", "shl", "lshr", "ashr", "icmp", "select",
              "addrspacecast")


def parse_value(type_, s):
    """parse the value text s of known type"""
    s = s.strip()
    if s.startswith("%"):
        return Val("reg", type_, s[1:].strip('"'))
    if s.startswith("@"):
        return Val("global", type_, s[1:].strip('"'))
    if s == "null":
        return Val("null", type_, 0)
    if s == "undef" or s == "poison":
        return Val("undef", type_, None)
    if s == "zeroinitializer":
        return Val("zero", type_, 0)
    if s == "true":
        return Val("int", type_, 1)
    if s == "false":
        return Val("int", type_, 0)
    if re.fullmatch(r"-?\d+", s):
        return Val("int", type_, int(s))
    if type_ in ("double", "float", "x86_fp80"):
        if s.startswith("0x"):
            import struct
            h = s[2:]
            if h[0] in "KLMHR":
                return Val("float", type_, None)
            return Val("float", type_, struct.unpack(">d", bytes.fromhex(h.rjust(16, "0")))[0])
        try:
            return Val("float", type_, float(s))
        except ValueError:
            pass
    if s.startswith('c"'):
        return Val("bytes", type_, _cstring(s[2:-1]))
    if s.startswith("["):
        inner = s[1:-1].strip()
        elems = [parse_typed_value(e) for e in split_top(inner)] if inner else []
        return Val("array", type_, None, elems)
    if s.startswith("{") or s.startswith("<{"):
        inner = s.strip("<>")[1:-1].strip()
        elems = [parse_typed_value(e) for e in split_top(inner)] if inner else []
        return Val("struct", type_, None, elems)
    for op in _CEXPR_OPS:
        if s.startswith(op + " ") or s.startswith(op + "("):
            p = s.index("(")
            inner = s[p + 1:s.rindex(")")]
            parts = split_top(inner)
            args = []
            extra = None
            if op == "getelementptr":
                extra = parts[0]  # source element type
                parts = parts[1:]
            for a in parts:
                if op in ("bitcast", "inttoptr", "ptrtoint", "trunc", "zext", "sext", "addrspacecast") and " to " in a:
                    a = a[:a.rindex(" to ")]
                args.append(parse_typed_value(a))
            v = Val("cexpr", type_, op, args)
            return v
    if s.startswith("!") or s.startswith("metadata"):
        return Val("meta", type_, s)
    if s.startswith("blockaddress") or s.startswith("dso_local_equivalent"):
        return Val("undef", type_, None)
    raise AnalysisBroken("cannot parse value %r of type %s" % (s[:80], type_))


def parse_typed_value(s):
    s = s.strip()
    if s.startswith("metadata"):
        return Val("meta", "metadata", s[len("metadata"):].strip())
    t, i = read_type(s)
    i = _skip_attrs(s, i)
    return parse_value(t, s[i:])


def _cstring(s):
    out = bytearray()
    i = 0
    while i < len(s):
        c = s[i]
        if c == "\\":
            if s[i + 1] == "\\":
                out.append(0x5c)
                i += 2
                continue
            out.append(int(s[i + 1:i + 3], 16))
            i += 3
        else:
            out.append(ord(c))
            i += 1
    return bytes(out)


def strip_casts(v):
    while v.kind == "cexpr" and v.v in ("bitcast", "addrspacecast"):
        v = v.args[0]
    return v


# ----------------------------------------------------------------------------
# metadata

_MD_LINE = re.compile(r"^!(\d+) = (distinct )?(.*)$")


def _parse_md(body):
    body = body.strip()
    if body.startswith("!{"):
        inner = body[2:body.rindex("}")]
        return [x.strip() for x in split_top(inner)] if inner.strip() else []
    m = re.match(r"!(\w+)\((.*)\)$", body, re.S)
    if not m:
        return ("raw", {"text": body})
    kind = m.group(1)
    fields = {}
    for part in split_top(m.group(2)):
        if ":" not in part:
            continue
        k, v = part.split(":", 1)
        v = v.strip()
        if v.startswith('"') and v.endswith('"'):
            v = v[1:-1]
        fields[k.strip()] = v
    return (kind, fields)


# ----------------------------------------------------------------------------
# instructions

_BINOPS = {"add", "sub", "mul", "udiv", "sdiv", "urem", "srem", "and", "or", "xor", "shl",
           "lshr", "ashr", "fadd", "fsub", "fmul", "fdiv", "frem"}
_CASTS = {"trunc", "zext", "sext", "fptrunc", "fpext", "fptoui", "fptosi", "uitofp", "sitofp",
          "ptrtoint", "inttoptr", "bitcast", "addrspacecast"}
_FLAGS = {"nsw", "nuw", "exact", "inbounds", "volatile", "fast", "nnan", "ninf", "nsz", "arcp",
          "contract", "afn", "reassoc", "atomic", "weak"}
_CC = {"fastcc", "coldcc", "ccc", "tail", "musttail", "notail"}
_ORDERINGS = {"unordered", "monotonic", "acquire", "release", "acq_rel", "seq_cst"}


def _split_dbg(line):
    """strip trailing metadata attachments; return (text, dbg id)"""
    dbg = None
    # attachments look like: , !dbg !12, !tbaa !3  or " !dbg !12" after a define
    while True:
        m = re.search(r",\s*!([\w.]+) !(\d+)\s*$", line)
        if not m:
            m2 = re.search(r",\s*!([\w.]+) !\{[^}]*\}\s*$", line)
            if m2:
                line = line[:m2.start()]
                continue
            break
        if m.group(1) == "dbg":
            dbg = int(m.group(2))
        line = line[:m.start()]
    return line, dbg


def parse_instr(line, fn):
    ins = Instr()
    ins.fn = fn
    ins.raw = line.strip()
    text, ins.dbg = _split_dbg(line.strip())
    m = re.match(r'%("[^"]+"|[\w.$\-]+) = (.*)$', text)
    if m:
        ins.res = m.group(1).strip('"')
        text = m.group(2)
    sp = text.find(" ")
    op = text if sp < 0 else text[:sp]
    rest = "" if sp < 0 else text[sp + 1:].strip()
    # calls may have prefixes
    while op in _CC:
        ins.x.setdefault("cc", []).append(op)
        sp = rest.find(" ")
        op, rest = rest[:sp], rest[sp + 1:].strip()
    ins.op = op

    def eat_flags(r):
        flags = []
        while True:
            m2 = re.match(r"(\w+)\s", r)
            if m2 and m2.group(1) in _FLAGS:
                flags.append(m2.group(1))
                r = r[m2.end():]
            else:
                break
        return flags, r

    if op in _BINOPS:
        flags, rest = eat_flags(rest)
        ins.x["flags"] = flags
        t, i = read_type(rest)
        a, b = split_top(rest[i:])
        ins.type = t
        ins.ops = [parse_value(t, a), parse_value(t, b)]
    elif op == "fneg":
        flags, rest = eat_flags(rest)
        t, i = read_type(rest)
        ins.type = t
        ins.ops = [parse_value(t, rest[i:])]
    elif op in _CASTS:
        k = rest.rindex(" to ")
        ins.ops = [parse_typed_value(rest[:k])]
        ins.type = rest[k + 4:].strip()
    elif op in ("icmp", "fcmp"):
        flags, rest = eat_flags(rest)
        sp = rest.find(" ")
        ins.x["pred"] = rest[:sp]
        rest = rest[sp + 1:]
        t, i = read_type(rest)
        a, b = split_top(rest[i:])
        ins.type = "i1"
        ins.ops = [parse_value(t, a), parse_value(t, b)]
    elif op == "load":
        flags, rest = eat_flags(rest)
        ins.x["flags"] = flags
        parts = split_top(rest)
        ins.type = parts[0]
        ins.ops = [parse_typed_value(parts[1])]
        for p in parts[2:]:
            if p.split()[0] in _ORDERINGS:
                ins.x["ordering"] = p.split()[0]
        if "atomic" in flags:
            # 'load atomic i32, i32* %p seq_cst, align 4'
            toks = parts[1].split()
            if toks[-1] in _ORDERINGS:
                ins.x["ordering"] = toks[-1]
                ins.ops = [parse_typed_value(" ".join(toks[:-1]))]
    elif op == "store":
        flags, rest = eat_flags(rest)
        ins.x["flags"] = flags
        parts = split_top(rest)
        p1 = parts[1]
        if "atomic" in flags:
            toks = p1.split()
            if toks[-1] in _ORDERINGS:
                ins.x["ordering"] = toks[-1]
                p1 = " ".join(toks[:-1])
        ins.ops = [parse_typed_value(parts[0]), parse_typed_value(p1)]
        ins.type = "void"
    elif op == "getelementptr":
        flags, rest = eat_flags(rest)
        ins.x["flags"] = flags
        parts = split_top(rest)
        ins.x["srcty"] = parts[0]
        ins.ops = [parse_typed_value(p) for p in parts[1:]]
        ins.type = _gep_result_type(parts[0], ins.ops, fn.module)
    elif op == "alloca":
        parts = split_top(rest)
        ins.x["allocty"] = parts[0]
        ins.type = parts[0] + "*"
    elif op == "phi":
        t, i = read_type(rest)
        ins.type = t
        inc = []
        for part in split_top(rest[i:]):
            part = part.strip()
            inner = part[1:-1]
            v, lab = split_top(inner)
            inc.append((parse_value(t, v), lab.strip()[1:].strip('"')))
        ins.x["incoming"] = inc
        ins.ops = [v for v, _ in inc]
    elif op == "select":
        parts = split_top(rest)
        ins.ops = [parse_typed_value(p) for p in parts]
        ins.type = ins.ops[1].type
    elif op == "br":
        if rest.startswith("label"):
            ins.x["targets"] = [rest.split("%", 1)[1].strip().strip('"')]
        else:
            parts = split_top(rest)
            ins.ops = [parse_typed_value(parts[0])]
            ins.x["targets"] = [p.split("%", 1)[1].strip().strip('"') for p in parts[1:]]
        ins.type = "void"
    elif op == "switch":
        # switch i32 %x, label %default [ i32 0, label %a ... ]
        head, body = rest.split("[", 1)
        body = body[:body.rindex("]")]
        hp = split_top(head.strip())
        ins.ops = [parse_typed_value(hp[0])]
        default = hp[1].split("%", 1)[1].strip().strip('"')
        cases = []
        toks = re.findall(r"(\S+)\s+(-?\d+),\s*label\s+%(\"[^\"]+\"|[\w.$\-]+)", body)
        for t, v, lab in toks:
            cases.append((int(v), lab.strip('"')))
        ins.x["default"] = default
        ins.x["cases"] = cases
        tg = [default]
        for _, l in cases:
            if l not in tg:
                tg.append(l)
        ins.x["targets"] = tg
        ins.type = "void"
    elif op == "ret":
        ins.type = "void"
        if rest.strip() != "void":
            ins.ops = [parse_typed_value(rest)]
        ins.x["targets"] = []
    elif op == "unreachable":
        ins.type = "void"
        ins.x["targets"] = []
    elif op == "call":
        flags, rest = eat_flags(rest)
        i = _skip_ret_attrs(rest)
        t, i = read_type(rest, i)
        # t may be a full function type for varargs calls: 'i32 (i8*, ...)'
        ret = t
        if "(" in t:
            ret = t[:_fn_type_paren(t)].strip()
            ins.x["fnty"] = t
        ins.type = ret
        r2 = rest[i:].strip()
        # callee up to the '(' that opens the argument list
        if r2.startswith("@") or r2.startswith("%"):
            m2 = re.match(r'([@%])("[^"]+"|[\w.$\-]+)', r2)
            cal = Val("global" if m2.group(1) == "@" else "reg", t, m2.group(2).strip('"'))
            r3 = r2[m2.end():]
        elif r2.startswith("bitcast"):
            depth = 0
            k = r2.index("(")
            j = k
            while j < len(r2):
                if r2[j] == "(":
                    depth += 1
                elif r2[j] == ")":
                    depth -= 1
                    if depth == 0:
                        break
                j += 1
            cal = parse_value(t, r2[:j + 1])
            r3 = r2[j + 1:]
        elif r2.startswith("asm"):
            cal = Val("asm", t, r2)
            r3 = "()"
        else:
            raise AnalysisBroken("cannot parse callee in: " + line)
        ins.x["callee"] = cal
        r3 = r3.strip()
        # args: balanced parens
        depth = 0
        j = 0
        while j < len(r3):
            if r3[j] == "(":
                depth += 1
            elif r3[j] == ")":
                depth -= 1
                if depth == 0:
                    break
            j += 1
        inner = r3[1:j]
        ins.ops = [parse_typed_value(a) for a in split_top(inner)] if inner.strip() else []
    elif op == "atomicrmw":
        flags, rest = eat_flags(rest)
        ins.x["flags"] = flags
        sp = rest.find(" ")
        ins.x["rmw"] = rest[:sp]
        parts = split_top(rest[sp + 1:])
        ins.ops = [parse_typed_value(parts[0])]
        toks = parts[1].split()
        ordering = None
        while toks and toks[-1] in _ORDERINGS:
            ordering = toks.pop()
        ins.x["ordering"] = ordering
        ins.ops.append(parse_typed_value(" ".join(toks)))
        ins.type = ins.ops[1].type
    elif op == "cmpxchg":
        flags, rest = eat_flags(rest)
        ins.x["flags"] = flags
        parts = split_top(rest)
        toks = parts[2].split()
        ords = []
        while toks and toks[-1] in _ORDERINGS:
            ords.insert(0, toks.pop())
        ins.x["ordering"] = ords
        ins.ops = [parse_typed_value(parts[0]), parse_typed_value(parts[1]), parse_typed_value(" ".join(toks))]
        ins.type = "{ %s, i1 }" % ins.ops[1].type
    elif op == "extractvalue":
        parts = split_top(rest)
        ins.ops = [parse_typed_value(parts[0])]
        ins.x["indices"] = [int(p) for p in parts[1:]]
        ins.type = "?"
    elif op == "insertvalue":
        parts = split_top(rest)
        ins.ops = [parse_typed_value(parts[0]), parse_typed_value(parts[1])]
        ins.x["indices"] = [int(p) for p in parts[2:]]
        ins.type = ins.ops[0].type
    elif op == "fence":
        ins.type = "void"
    elif op == "va_arg":
        parts = split_top(rest)
        ins.ops = [parse_typed_value(parts[0])]
        ins.type = parts[1]
    else:
        raise AnalysisBroken("unknown opcode %r in: %s" % (op, line.strip()))
    return ins


def _skip_ret_attrs(s):
    i = 0
    while True:
        j = _skip_attrs(s, i)
        if j == i:
            return i
        i = j


def _fn_type_paren(t):
    """index of the '(' that starts the parameter list of function type t (top level)"""
    depth = 0
    for i, c in enumerate(t):
        if c in "[{<":
            depth += 1
        elif c in "]}>":
            depth -= 1
        elif c == "(" and depth == 0:
            return i
    return len(t)


def elem_type(t):
    """pointee of a pointer type string"""
    t = t.strip()
    if not t.endswith("*"):
        raise AnalysisBroken("not a pointer type: " + t)
    return t[:-1].strip()


def array_elem(t):
    m = re.match(r"\[(\d+) x (.*)\]$", t.strip())
    if not m:
        return None
    return int(m.group(1)), m.group(2).strip()


def _gep_result_type(srcty, ops, module):
    t = srcty
    for k, idx in enumerate(ops[1:]):
        if k == 0:
            continue
        ae = array_elem(t)
        if ae:
            t = ae[1]
        elif t.startswith("%"):
            fields = module.structs.get(t)
            if fields is None or idx.kind != "int":
                return "?*"
            t = fields[idx.v]
        elif t.startswith("{"):
            parts = split_top(t.strip()[1:-1])
            t = parts[idx.v]
        else:
            return "?*"
    return t + "*"


# ----------------------------------------------------------------------------
# module parser

_DEFINE_RE = re.compile(r"^(define|declare)\s+(.*)$")


def parse_module(path, srcname=None):
    mod = Module(srcname or path, path)
    with open(path) as fh:
        lines = fh.read().split("\n")
    i = 0
    n = len(lines)
    cur = None
    blk = None
    while i < n:
        line = lines[i]
        i += 1
        if not line or line.startswith(";"):
            continue
        if cur is not None:
            if line == "}":
                _finish_function(cur)
                cur = None
                blk = None
                continue
            s = line.strip()
            if not s or s.startswith(";"):
                continue
            m = re.match(r'^("[^"]+"|[\w.$\-]+):', line)
            if m and not line.startswith(" "):
                blk = Block(m.group(1).strip('"'), cur)
                cur.blocks[blk.name] = blk
                continue
            if s.startswith("switch ") and s.endswith("["):
                # multi-line switch
                acc = [s]
                while i < n:
                    l2 = lines[i].strip()
                    i += 1
                    acc.append(l2)
                    if l2.startswith("]"):
                        break
                s = " ".join(acc)
            if blk is None:
                blk = Block("entry", cur)
                cur.blocks[blk.name] = blk
            ins = parse_instr(s, cur)
            if ins.op == "call" and ins.callee and ins.callee.startswith("llvm.dbg."):
                _record_dbg(cur, ins)
                continue
            if ins.op == "call" and ins.callee and (ins.callee.startswith("llvm.lifetime") or ins.callee.startswith("llvm.experimental.noalias")):
                continue
            ins.block = blk
            ins.idx = len(blk.instrs)
            blk.instrs.append(ins)
            if ins.res is not None:
                cur.defs[ins.res] = ins
            continue
        if line.startswith("%") and " = type " in line:
            nm, body = line.split(" = type ", 1)
            body = body.strip()
            if body == "opaque":
                mod.structs[nm.strip()] = None
            else:
                inner = body.strip("<>").strip()[1:-1].strip()
                mod.structs[nm.strip()] = split_top(inner) if inner else []
            continue
        if line.startswith("@"):
            _parse_global(line, mod)
            continue
        m = _DEFINE_RE.match(line)
        if m:
            fn = _parse_fn_header(line, mod)
            mod.functions[fn.name] = fn
            if m.group(1) == "define":
                cur = fn
                blk = None
            else:
                fn.is_decl = True
            continue
        m = _MD_LINE.match(line)
        if m:
            mod.md[int(m.group(1))] = _parse_md(m.group(3))
            continue
        # attributes, target, source_filename, named metadata: ignored
    return mod


def _record_dbg(fn, ins):
    # call void @llvm.dbg.value(metadata T %x, metadata !N, metadata !DIExpression())
    try:
        a0, a1 = ins.ops[0], ins.ops[1]
    except IndexError:
        return
    if a0.kind != "meta" or a1.kind != "meta":
        return
    m = re.match(r"(.*?)%(\"[^\"]+\"|[\w.$\-]+)\s*$", a0.v)
    mid = _mid(a1.v)
    if not m or mid is None:
        return
    fn.local_names.setdefault(m.group(2).strip('"'), mid)


def _finish_function(fn):
    for b in fn.blocks.values():
        if not b.instrs:
            raise AnalysisBroken("empty block %s in %s" % (b.name, fn.name))
        t = b.term
        if "targets" not in t.x:
            raise AnalysisBroken("block %s in %s does not end in a terminator: %s" % (b.name, fn.name, t.raw))
        for tg in t.x["targets"]:
            if tg not in fn.blocks:
                raise AnalysisBroken("unknown branch target %s in %s" % (tg, fn.name))
            sb = fn.blocks[tg]
            if sb not in b.succs:
                b.succs.append(sb)
            if b not in sb.preds:
                sb.preds.append(b)


def _parse_global(line, mod):
    text, dbg = _split_dbg(line)
    text = re.sub(r",\s*align \d+\s*$", "", text)
    text = re.sub(r",\s*(section|comdat|partition) .*$", "", text)
    m = re.match(r'^@("[^"]+"|[\w.$\-]+) = (.*)$', text)
    if not m:
        return
    g = Global(m.group(1).strip('"'))
    g.module = mod
    rest = m.group(2)
    words = {"private", "internal", "external", "dso_local", "unnamed_addr", "local_unnamed_addr",
             "common", "weak", "linkonce_odr", "hidden", "thread_local", "global", "constant",
             "available_externally", "appending", "weak_odr", "linkonce", "dso_preemptable",
             "extern_weak", "protected", "externally_initialized"}
    while True:
        m2 = re.match(r"(thread_local\([a-z]+\)|[a-z_]+)\s+", rest)
        if m2 and (m2.group(1) in words or m2.group(1).startswith("thread_local")):
            w = m2.group(1)
            if w == "constant":
                g.constant = True
            if w == "external":
                g.external = True
            if w.startswith("thread_local"):
                g.thread_local = True
            if w in ("internal", "private"):
                g.internal = True
            rest = rest[m2.end():]
            if w in ("global", "constant"):
                break
        else:
            break
    t, i = read_type(rest)
    g.type = t
    init = rest[i:].strip()
    if init:
        try:
            g.init = parse_value(t, init)
            if g.init.kind == "bytes":
                g.bytes = g.init.v
        except AnalysisBroken:
            g.init = None
    mod.globals[g.name] = g


def _parse_fn_header(line, mod):
    text = line
    m = re.match(r"^(define|declare)\s+(.*)$", text)
    rest = m.group(2)
    internal = False
    words = {"internal", "private", "dso_local", "hidden", "weak", "linkonce_odr", "available_externally",
             "external", "unnamed_addr", "local_unnamed_addr", "extern_weak", "protected", "weak_odr"}
    while True:
        m2 = re.match(r"([a-z_]+)\s+", rest)
        if m2 and (m2.group(1) in words or m2.group(1) in _CC):
            if m2.group(1) in ("internal", "private"):
                internal = True
            rest = rest[m2.end():]
        else:
            break
    i = _skip_ret_attrs(rest)
    rt, i = read_type(rest, i)
    r2 = rest[i:].strip()
    m3 = re.match(r'@("[^"]+"|[\w.$\-]+)\(', r2)
    if not m3:
        raise AnalysisBroken("cannot parse function header: " + line)
    fn = Function(m3.group(1).strip('"'), mod)
    fn.ret_type = rt
    fn.internal = internal
    # params
    depth = 0
    j = m3.end() - 1
    k = j
    while k < len(r2):
        if r2[k] == "(":
            depth += 1
        elif r2[k] == ")":
            depth -= 1
            if depth == 0:
                break
        k += 1
    inner = r2[j + 1:k]
    for p in split_top(inner) if inner.strip() else []:
        p = p.strip()
        if p == "...":
            fn.varargs = True
            continue
        t, ii = read_type(p)
        ii = _skip_attrs(p, ii)
        nm = p[ii:].strip()
        fn.params.append((t, nm[1:].strip('"') if nm.startswith("%") else None))
    tail = r2[k + 1:]
    m4 = re.search(r"!dbg !(\d+)", tail)
    if m4:
        fn.dbg = int(m4.group(1))
    return fn


# ----------------------------------------------------------------------------
# program = set of modules


class Program:
    def __init__(self, modules):
        self.modules = modules
        self.functions = {}   # name -> Function (definitions; internal ones as 'unit:name' too)
        self.decls = set()
        for m in modules:
            for f in m.functions.values():
                if f.is_decl:
                    self.decls.add(f.name)
                    continue
                if f.internal:
                    self.functions[m.srcname + ":" + f.name] = f
                else:
                    if f.name in self.functions:
                        raise AnalysisBroken("duplicate definition of " + f.name)
                    self.functions[f.name] = f

    def resolve(self, name, from_module):
        """definition of callee `name` as seen from a module, or None (external/libc)"""
        f = from_module.functions.get(name)
        if f is not None and not f.is_decl:
            return f
        return self.functions.get(name)

    def all_functions(self):
        seen = set()
        for f in self.functions.values():
            if id(f) not in seen:
                seen.add(id(f))
                yield f

    def fn(self, name, unit=None):
        """look up a function definition by name (searching internal ones too)"""
        if unit:
            for m in self.modules:
                if m.srcname == unit and name in m.functions and not m.functions[name].is_decl:
                    return m.functions[name]
        f = self.functions.get(name)
        if f:
            return f
        for m in self.modules:
            g = m.functions.get(name)
            if g is not None and not g.is_decl:
                return g
        return None

    def module(self, unit):
        for m in self.modules:
            if m.srcname == unit:
                return m
        return None


def load_program(variant="default", extra_units=()):
    from . import frontend
    units = frontend.build_ir(variant, extra_units)
    mods = [parse_module(u["ir"], u["file"]) for u in units]
    p = Program(mods)
    p.units = units
    p.variant = variant
    return p
