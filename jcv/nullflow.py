"""E6: null-flow. Maybe-null sources propagated through SSA (edge-sensitive at phi nodes) to dereferences and to
callee parameters that are dereferenced unguarded (summary closed over the call graph, libc from a table)."""
from .cfg import cfg_of
from . import flow

LIBC_ALLOC = ("malloc", "calloc", "realloc", "strdup", "strndup")


def may_null_functions(prog):
    """library functions returning a pointer that may be NULL because an allocation failed:
    least fixpoint of 'some return operand derives from an allocator / may-null function result'"""
    mn = set(LIBC_ALLOC)
    changed = True
    while changed:
        changed = False
        for f in prog.all_functions():
            if f.name in mn or not f.ret_type.endswith("*"):
                continue
            for i in f.instrs():
                if i.op != "ret" or not i.ops:
                    continue
                if _derives_from_call(f, i.ops[0], mn, set()):
                    mn.add(f.name)
                    changed = True
                    break
    return mn


def _derives_from_call(f, v, names, seen):
    if v.kind != "reg" or v.v in seen:
        return False
    seen.add(v.v)
    d = f.defs.get(v.v)
    if d is None:
        return False
    if d.op == "call":
        return d.callee in names
    if d.op in ("bitcast", "phi", "select"):
        ops = d.ops[1:] if d.op == "select" else d.ops
        return any(_derives_from_call(f, o, names, seen) for o in ops)
    return False


def unguarded_deref_params(prog):
    """(function name, param index) pairs where the parameter is dereferenced on some path that is not
    behind a null test of it; closed over calls. libc sinks from a table."""
    table = {("memcpy", 0), ("memcpy", 1), ("memmove", 0), ("memmove", 1), ("memset", 0), ("strlen", 0),
             ("strcmp", 0), ("strcmp", 1), ("strncmp", 0), ("strncmp", 1), ("strcpy", 0), ("strcpy", 1),
             ("strdup", 0), ("strchr", 0), ("strstr", 0), ("strstr", 1), ("memcmp", 0), ("memcmp", 1),
             ("snprintf", 0), ("vsnprintf", 0), ("strcat", 0), ("strcat", 1), ("strtod", 0), ("strtoll", 0),
             ("strtoull", 0), ("llvm.memcpy.p0i8.p0i8.i64", 0), ("llvm.memcpy.p0i8.p0i8.i64", 1),
             ("llvm.memmove.p0i8.p0i8.i64", 0), ("llvm.memmove.p0i8.p0i8.i64", 1), ("llvm.memset.p0i8.i64", 0)}
    res = set(table)
    changed = True
    while changed:
        changed = False
        for f in prog.all_functions():
            for k, (t, nm) in enumerate(f.params):
                if not t.endswith("*") or nm is None or (f.name, k) in res:
                    continue
                if _param_sinks(prog, f, nm, res):
                    res.add((f.name, k))
                    changed = True
    return res


def maybe_null_regs(f, reg):
    """registers that may carry the (possibly NULL) value of reg: through casts always, through a phi only
    when the incoming edge is not already behind a non-null test of the value"""
    cfg = cfg_of(f)
    regs = {reg}
    work = [reg]
    while work:
        r = work.pop()
        for u in cfg.users(r):
            if u.res is None or u.res in regs:
                continue
            if u.op in ("bitcast", "sext", "zext", "trunc"):
                regs.add(u.res)
                work.append(u.res)
            elif u.op == "phi":
                for v, lab in u.x["incoming"]:
                    if v.kind == "reg" and v.v == r:
                        pb = f.blocks[lab]
                        if not block_guarded(f, regs, pb):
                            regs.add(u.res)
                            work.append(u.res)
                            break
            elif u.op == "select" and any(o.kind == "reg" and o.v == r for o in u.ops[1:]):
                regs.add(u.res)
                work.append(u.res)
    return regs


def block_guarded(f, regs, blk):
    cfg = cfg_of(f)
    for br, nn, nl in flow.null_tests(f, regs):
        if nn is nl:
            continue
        if cfg.edge_dominates(br.block, nn, blk):
            return True
    return False


def deref_consumers(prog, f, reg, sinks):
    """consumers of `reg`'s value that dereference it: yields (instr, regs, kind)"""
    regs = maybe_null_regs(f, reg)
    cfg = cfg_of(f)
    cons = [(u, r) for r in regs for u in cfg.users(r)]
    for u, r in cons:
        if u.op == "load" and u.ops[0].kind == "reg" and u.ops[0].v == r:
            yield u, regs, "load"
        elif u.op == "store" and u.ops[1].kind == "reg" and u.ops[1].v == r:
            yield u, regs, "store"
        elif u.op == "getelementptr" and u.ops[0].kind == "reg" and u.ops[0].v == r:
            # address computation: a deref if the address is loaded/stored/passed to a sink
            for uu, rr, kind in _gep_derefs(prog, f, u, sinks, 0):
                yield uu, regs, kind
        elif u.op == "call":
            nm = u.callee
            for ai, a in enumerate(u.ops):
                if a.kind == "reg" and a.v == r and nm and (nm, ai) in sinks:
                    yield u, regs, "arg%d of %s" % (ai, nm)
        elif u.op in ("atomicrmw", "cmpxchg") and u.ops[0].kind == "reg" and u.ops[0].v == r:
            yield u, regs, u.op


def _gep_derefs(prog, f, gep, sinks, depth):
    if depth > 6 or gep.res is None:
        return
    regs, cons = flow.derived_values(f, gep.res)
    for u, r in cons:
        if u.op == "load" and u.ops[0].kind == "reg" and u.ops[0].v == r:
            yield u, r, "load"
        elif u.op == "store" and u.ops[1].kind == "reg" and u.ops[1].v == r:
            yield u, r, "store"
        elif u.op == "getelementptr" and u.ops[0].kind == "reg" and u.ops[0].v == r:
            yield from _gep_derefs(prog, f, u, sinks, depth + 1)
        elif u.op == "call":
            nm = u.callee
            for ai, a in enumerate(u.ops):
                if a.kind == "reg" and a.v == r and nm and (nm, ai) in sinks:
                    yield u, r, "arg%d of %s" % (ai, nm)
        elif u.op in ("atomicrmw", "cmpxchg") and u.ops[0].kind == "reg" and u.ops[0].v == r:
            yield u, r, u.op


def _param_sinks(prog, f, pname, sinks):
    for u, regs, kind in deref_consumers(prog, f, pname, sinks):
        if not flow.guarded_nonnull(f, regs, u):
            return True
    return False


