"""E6: null-flow. Maybe-null sources propagated through SSA (edge-sensitive at phi nodes) to dereferences and to
callee parameters that are dereferenced unguarded (summary closed over the call graph, libc from a table)."""
from .cfg import cfg_of
from . import flow

LIBC_ALLOC = ("malloc", "calloc", "realloc", "strdup", "strndup")


def may_null_functions(prog):
    """library functions returning a pointer that may be NULL because an allocation failed:
    least fixpoint of 'some return operand derives from an allocator / may-null function result'"""
    mn = set(LIBC_ALLOC)
    changed = True
    while changed:
        changed = False
        for f in prog.all_functions():
            if f.name in mn or not f.ret_type.endswith("*"):
                continue
            for i in f.instrs():
                if i.op != "ret" or not i.ops:
                    continue
                if _derives_from_call(f, i.ops[0], mn, set()):
                    mn.add(f.name)
                    changed = True
                    break
    return mn


def _derives_from_call(f, v, names, seen):
    if v.kind != "reg" or v.v in seen:
        return False
    seen.add(v.v)
    d = f.defs.get(v.v)
    if d is None:
        return False
    if d.op == "call":
        return d.callee in names
    if d.op in ("bitcast", "phi", "select"):
        ops = d.ops[1:] if d.op == "select" else d.ops
        return any(_derives_from_call(f, o, names, seen) for o in ops)
    return False


def unguarded_deref_params(prog):
    """(function name, param index) pairs where the parameter is dereferenced on some path that is not
    behind a null test of it; closed over calls. libc sinks from a table."""
    table = {("memcpy", 0), ("memcpy", 1), ("memmove", 0), ("memmove", 1), ("memset", 0), ("strlen", 0),
             ("strcmp", 0), ("strcmp", 1), ("strncmp", 0), ("strncmp", 1), ("strcpy", 0), ("strcpy", 1),
             ("strdup", 0), ("strchr", 0), ("strstr", 0), ("strstr", 1), ("memcmp", 0), ("memcmp", 1),
             ("snprintf", 0), ("vsnprintf", 0), ("strcat", 0), ("strcat", 1), ("strtod", 0), ("strtoll", 0),
             ("strtoull", 0), ("llvm.memcpy.p0i8.p0i8.i64", 0), ("llvm.memcpy.p0i8.p0i8.i64", 1),
             ("llvm.memmove.p0i8.p0i8.i64", 0), ("llvm.memmove.p0i8.p0i8.i64", 1), ("llvm.memset.p0i8.i64", 0)}
    res = set(table)
    changed = True
    while changed:
        changed = False
        for f in prog.all_functions():
            for k, (t, nm) in enumerate(f.params):
                if not t.endswith("*") or nm is None or (f.name, k) in res:
                    continue
                if _param_sinks(prog, f, nm, res):
                    res.add((f.name, k))
                    changed = True
    return res


def maybe_null_regs(f, reg):
    """registers that may carry the (possibly NULL) value of reg: through casts always, through a phi only
    when the incoming edge is not already behind a non-null test of the value"""
    cfg = cfg_of(f)
    regs = {reg}
    work = [reg]
    while work:
        r = work.pop()
        for u in cfg.users(r):
            if u.res is None or u.res in regs:
                continue
            if u.op in ("bitcast", "sext", "zext", "trunc"):
                regs.add(u.res)
                work.append(u.res)
            elif u.op == "phi":
                for v, lab in u.x["incoming"]:
                    if v.kind == "reg" and v.v == r:
                        pb = f.blocks[lab]
                        if not block_guarded(f, regs, pb):
                            regs.add(u.res)
                            work.append(u.res)
                            break
            elif u.op == "select" and any(o.kind == "reg" and o.v == r for o in u.ops[1:]):
                regs.add(u.res)
                work.append(u.res)
    return regs


def block_guarded(f, regs, blk):
    cfg = cfg_of(f)
    for br, nn, nl in flow.null_tests(f, regs):
        if nn is nl:
            continue
        if cfg.edge_dominates(br.block, nn, blk):
            return True
    return False


def deref_consumers(prog, f, reg, sinks):
    """consumers of `reg`'s value that dereference it: yields (instr, regs, kind)"""
    regs = maybe_null_regs(f, reg)
    cfg = cfg_of(f)
    cons = [(u, r) for r in regs for u in cfg.users(r)]
    for u, r in cons:
        if u.op == "load" and u.ops[0].kind == "reg" and u.ops[0].v == r:
            yield u, regs, "load"
        elif u.op == "store" and u.ops[1].kind == "reg" and u.ops[1].v == r:
            yield u, regs, "store"
        elif u.op == "getelementptr" and u.ops[0].kind == "reg" and u.ops[0].v == r:
            # address computation: a deref if the address is loaded/stored/passed to a sink
            for uu, rr, kind in _gep_derefs(prog, f, u, sinks, 0):
                yield uu, regs, kind
        elif u.op == "call":
            nm = u.callee
            for ai, a in enumerate(u.ops):
                if a.kind == "reg" and a.v == r and nm and (nm, ai) in sinks:
                    yield u, regs, "arg%d of %s" % (ai, nm)
        elif u.op in ("atomicrmw", "cmpxchg") and u.ops[0].kind == "reg" and u.ops[0].v == r:
            yield u, regs, u.op


def _gep_derefs(prog, f, gep, sinks, depth):
    if depth > 6 or gep.res is None:
        return
    regs, cons = flow.derived_values(f, gep.res)
    for u, r in cons:
        if u.op == "load" and u.ops[0].kind == "reg" and u.ops[0].v == r:
            yield u, r, "load"
        elif u.op == "store" and u.ops[1].kind == "reg" and u.ops[1].v == r:
            yield u, r, "store"
        elif u.op == "getelementptr" and u.ops[0].kind == "reg" and u.ops[0].v == r:
            yield from _gep_derefs(prog, f, u, sinks, depth + 1)
        elif u.op == "call":
            nm = u.callee
            for ai, a in enumerate(u.ops):
                if a.kind == "reg" and a.v == r and nm and (nm, ai) in sinks:
                    yield u, r, "arg%d of %s" % (ai, nm)
        elif u.op in ("atomicrmw", "cmpxchg") and u.ops[0].kind == "reg" and u.ops[0].v == r:
            yield u, r, u.op


def _param_sinks(prog, f, pname, sinks):
    for u, regs, kind in deref_consumers(prog, f, pname, sinks):
        if not flow.guarded_nonnull(f, regs, u):
            return True
    return False




# ---------------------------------------------------------------------------------------------------------------
# field-sensitive part: a callee that dereferences <param>-><field> without a null test, and callers that pass an object
# whose field may still be NULL (half-built object handed to a destructor / reset function)
def unguarded_field_derefs(prog, sinks=None):
    """{(function name, param index): {field name: witness instr}} - pointer-typed fields of the parameter that are loaded and
    dereferenced (directly or by a callee that dereferences its parameter unguarded) with no null test of the loaded value;
    closed over calls that pass the parameter on"""
    from .flow import Paths
    sinks = sinks if sinks is not None else unguarded_deref_params(prog)
    res = {}
    fns = [f for f in prog.all_functions()]
    paths = {}
    changed = True
    rounds = 0
    while changed and rounds < 6:
        changed = False
        rounds += 1
        for f in fns:
            P = paths.get(f.name)
            if P is None:
                P = paths[f.name] = Paths(f, prog)
            for k, (t, nm) in enumerate(f.params):
                if not t.endswith("*") or nm is None:
                    continue
                cur = res.setdefault((f.name, k), {})
                for i in f.instrs():
                    if i.op == "load" and i.type.endswith("*") and i.res is not None:
                        p = P.path(i.ops[0])
                        if not p.startswith(nm + "->") or "->" in p[len(nm) + 2:] or "[" in p:
                            continue
                        field = p[len(nm) + 2:]
                        if field in cur:
                            continue
                        for u, regs, kind in deref_consumers(prog, f, i.res, sinks):
                            if not flow.guarded_nonnull(f, regs, u):
                                cur[field] = u
                                changed = True
                                break
                    elif i.op == "call" and i.callee:
                        for ai, a in enumerate(i.ops):
                            if a.kind == "reg" and a.v == nm and (i.callee, ai) in res:
                                for field, w in res[(i.callee, ai)].items():
                                    if field not in cur:
                                        cur[field] = i
                                        changed = True
    return {k: v for k, v in res.items() if v}


def maybe_null_field_at_call(prog, f, P, call, argidx, field, may_null):
    """the field <arg>-><field> was last assigned from a may-fail allocation in this function and no non-null test of it
    dominates the call: returns the allocating store or None"""
    a = call.ops[argidx]
    if a.kind != "reg":
        return None
    # the address of the first member is the object itself (struct json_object base; casts between node types)
    hops = 0
    while a.kind == "reg" and a.v in f.defs and hops < 6:
        d = f.defs[a.v]
        if d.op == "bitcast":
            a = d.ops[0]
        elif d.op == "getelementptr" and all(o.kind == "int" and o.v == 0 for o in d.ops[1:]):
            a = d.ops[0]
        else:
            break
        hops += 1
    if a.kind != "reg":
        return None
    base = P.path(a)
    target = base + "->" + field
    stores = [s for s in f.instrs() if s.op == "store" and P.path(s.ops[1]) == target]
    src = None
    for s in stores:
        v = s.ops[0]
        d = f.defs.get(v.v) if v.kind == "reg" else None
        hops = 0
        while d is not None and d.op == "bitcast" and hops < 4:
            v = d.ops[0]
            d = f.defs.get(v.v) if v.kind == "reg" else None
            hops += 1
        if d is not None and d.op == "call" and d.callee in may_null:
            src = s
    if src is None:
        return None
    # the value that was stored may itself have been tested (a local holds the allocation until it is known to be good)
    v = src.ops[0]
    if v.kind == "reg":
        regs = maybe_null_regs(f, v.v)
        d0 = f.defs.get(v.v)
        while d0 is not None and d0.op == "bitcast" and d0.ops[0].kind == "reg":
            regs |= maybe_null_regs(f, d0.ops[0].v)
            d0 = f.defs.get(d0.ops[0].v)
        if flow.guarded_nonnull(f, regs, call):
            return None
    cfg = cfg_of(f)
    if src.block is not call.block and call.block not in cfg.reachable_from(src.block):
        return None
    # a dominating test that the field is non-null
    for c, tr in flow.dominating_conditions(f, call.block):
        if getattr(c, "op", None) != "icmp":
            continue
        x, y = c.ops
        px = P.path(x) if x.kind == "reg" else None
        if px == target and y.kind == "null":
            nonnull = (c.x["pred"] == "ne") == tr
            if nonnull:
                return None
    return src


# ---------------------------------------------------------------------------------------------------------------
# literal NULL arguments: the contradiction rule "one path tests the pointer, another dereferences it" specialised to
# the call sites that are known to pass NULL
def _direct_regs(f, pname):
    """registers that hold exactly the parameter's value (the parameter itself and casts of it; no phi, no select)"""
    regs = {pname}
    cfg = cfg_of(f)
    work = [pname]
    while work:
        r = work.pop()
        for u in cfg.users(r):
            if u.op in ("bitcast", "addrspacecast") and u.res and u.res not in regs and u.ops[0].kind == "reg" and u.ops[0].v == r:
                regs.add(u.res)
                work.append(u.res)
    return regs


def rule_null_literal_args(chk, prog, rid, only_modules=None, floor=10):
    chk.rule(rid, "a call that passes a literal NULL for a pointer parameter of a library function: in the callee every load, store or "
                  "libc access through exactly that parameter is behind a non-null test of it (a callee that tests the parameter on "
                  "one path and dereferences it on another is handed the NULL by this caller)")
    libc_tab = {("memcpy", 0), ("memcpy", 1), ("memmove", 0), ("memmove", 1), ("memset", 0), ("strlen", 0), ("strcmp", 0), ("strcmp", 1),
                ("strncmp", 0), ("strncmp", 1), ("strcpy", 0), ("strcpy", 1), ("strdup", 0), ("strchr", 0), ("memcmp", 0), ("memcmp", 1),
                ("strtod", 0), ("strtoll", 0), ("strtoull", 0), ("llvm.memcpy.p0i8.p0i8.i64", 0), ("llvm.memcpy.p0i8.p0i8.i64", 1),
                ("llvm.memmove.p0i8.p0i8.i64", 0), ("llvm.memmove.p0i8.p0i8.i64", 1), ("llvm.memset.p0i8.i64", 0)}
    defined = {f.name: f for f in prog.all_functions() if not f.is_decl}
    n = 0
    for m in prog.modules:
        if only_modules is not None and m.srcname not in only_modules:
            continue
        for f in m.functions.values():
            if f.is_decl:
                continue
            for i in f.instrs():
                if i.op != "call" or i.callee not in defined:
                    continue
                g = defined[i.callee]
                for k, a in enumerate(i.ops):
                    if a.kind != "null" or k >= len(g.params) or g.params[k][1] is None:
                        continue
                    n += 1
                    chk.touched(f)
                    pname = g.params[k][1]
                    regs = _direct_regs(g, pname)
                    bad = None
                    passed = None
                    for u, rr, kind in deref_consumers(prog, g, pname, libc_tab):
                        # only uses of exactly the parameter (deref_consumers also follows phis, which merge in non-null values)
                        direct = any(o.kind == "reg" and o.v in regs for o in u.ops) or (
                            u.op in ("load", "store") and any(o.kind == "reg" and o.v in g.defs and g.defs[o.v].op == "getelementptr"
                                                              and g.defs[o.v].ops[0].kind == "reg" and g.defs[o.v].ops[0].v in regs for o in u.ops))
                        if not direct:
                            continue
                        if not flow.guarded_nonnull(g, regs, u):
                            bad = (u, kind)
                            break
                    if bad is None:
                        cfg = cfg_of(g)
                        for r in regs:
                            for u in cfg.users(r):
                                if u.op == "call" and u.callee in defined and not flow.guarded_nonnull(g, regs, u):
                                    passed = u
                    sig = "%s(arg %d = NULL)" % (i.callee, k)
                    if bad:
                        u, kind = bad
                        chk.refuted(rid, f.name, sig, i.locstr(),
                                    "%s is called with NULL for its parameter '%s', and %s %s through that parameter at %s on a path "
                                    "that no non-null test of it guards" % (i.callee, pname, i.callee, "writes" if kind == "store" else "reads (%s)" % kind, u.locstr()),
                                    {"call": i.raw, "deref": u.raw})
                    elif passed is not None:
                        chk.undecided(rid, f.name, sig, i.locstr(), "the callee hands the parameter on to %s unguarded (not followed)" % passed.callee)
                    else:
                        chk.proven(rid, f.name, sig, i.locstr(), "no unguarded access through parameter '%s' in %s" % (pname, i.callee))
    chk.floor(rid, n, floor, "call sites passing a literal NULL to a library function")
