"""Front end: configure /repo (out of tree), take the compilation database of the
json-c library target, compile every unit of the *current working tree* to
LLVM IR (-O0, mem2reg) and cache the result by content hash.

Nothing here runs json-c code.
"""
import hashlib
import json
import os
import shlex
import shutil
import subprocess
import sys
from concurrent.futures import ThreadPoolExecutor

REPO = os.environ.get("JCV_REPO", "/repo")
VERIF = os.path.dirname(os.path.dirname(os.path.abspath(__file__)))
WORK = os.environ.get("JCV_WORK", os.path.join(VERIF, ".work"))

VARIANTS = {
    # name: (cmake options, config.h undefs)
    "default": ([], []),
    "threading": (["-DENABLE_THREADING=ON"], []),
    "asserts": (["-DENABLE_THREADING=ON", "-DCMAKE_BUILD_TYPE=Debug"], []),
    "setlocale": ([], ["HAVE_USELOCALE", "HAVE_DUPLOCALE"]),
    "noatomics": (["-DENABLE_THREADING=ON"], ["HAVE_ATOMIC_BUILTINS"]),
}

IR_FLAGS = ["-O0", "-Xclang", "-disable-O0-optnone", "-fno-discard-value-names",
            "-g", "-S", "-emit-llvm", "-w"]


class AnalysisBroken(Exception):
    """The analysis could not be carried out (exit 2): never a pass, never a violation."""


def _sha(*parts):
    h = hashlib.sha256()
    for p in parts:
        if isinstance(p, str):
            p = p.encode()
        h.update(p)
        h.update(b"\0")
    return h.hexdigest()[:16]


def _cfg_hash(variant):
    files = [os.path.join(REPO, "CMakeLists.txt")]
    for d in ("cmake",):
        dd = os.path.join(REPO, d)
        if os.path.isdir(dd):
            for f in sorted(os.listdir(dd)):
                files.append(os.path.join(dd, f))
    for f in sorted(os.listdir(REPO)):
        if f.endswith(".in") or f.endswith(".cmakein"):
            files.append(os.path.join(REPO, f))
    parts = [variant, repr(VARIANTS[variant])]
    for f in files:
        if os.path.isfile(f):
            with open(f, "rb") as fh:
                parts.append(fh.read())
    return _sha(*parts)


def configure(variant="default"):
    """Return (cfgdir, units) where units = list of dicts {file, args}."""
    if variant not in VARIANTS:
        raise AnalysisBroken("unknown variant " + variant)
    h = _cfg_hash(variant)
    cfgdir = os.path.join(WORK, "cfg", "%s-%s" % (variant, h))
    dbfile = os.path.join(cfgdir, "jcv_units.json")
    if not os.path.isfile(dbfile):
        import fcntl
        os.makedirs(os.path.join(WORK, "cfg"), exist_ok=True)
        lock = open(os.path.join(WORK, "cfg", ".lock"), "w")
        fcntl.flock(lock, fcntl.LOCK_EX)
    if not os.path.isfile(dbfile):
        # remove stale configurations of the same variant
        base = os.path.join(WORK, "cfg")
        os.makedirs(base, exist_ok=True)
        for d in os.listdir(base):
            if d.startswith(variant + "-"):
                shutil.rmtree(os.path.join(base, d), ignore_errors=True)
        tmp = cfgdir + ".tmp%d" % os.getpid()
        shutil.rmtree(tmp, ignore_errors=True)
        os.makedirs(tmp)
        opts, undefs = VARIANTS[variant]
        cmd = ["cmake", "-G", "Ninja", "-S", REPO, "-B", tmp,
               "-DCMAKE_C_COMPILER=clang", "-DCMAKE_BUILD_TYPE=RelWithDebInfo",
               "-DDISABLE_WERROR=ON", "-DBUILD_TESTING=OFF", "-DBUILD_APPS=OFF"] + opts
        r = subprocess.run(cmd, stdout=subprocess.PIPE, stderr=subprocess.STDOUT, text=True)
        if r.returncode != 0:
            raise AnalysisBroken("cmake configure failed for variant %s:\n%s" % (variant, r.stdout[-3000:]))
        r = subprocess.run(["ninja", "-C", tmp, "-t", "compdb"], stdout=subprocess.PIPE, text=True)
        if r.returncode != 0:
            raise AnalysisBroken("ninja -t compdb failed")
        db = json.loads(r.stdout)
        units = {}
        for e in db:
            out = e.get("output", "")
            if "json-c.dir" not in out or not e["file"].endswith(".c"):
                continue
            args = shlex.split(e["command"])
            keep = []
            skip = 0
            for a in args[1:]:
                if skip:
                    skip -= 1
                    continue
                if a in ("-o", "-MT", "-MF"):
                    skip = 1
                    continue
                if a in ("-MD", "-c", "-g") or a.startswith("-O") or a.startswith("-W") or a.startswith("-f"):
                    continue
                if a == e["file"]:
                    continue
                keep.append(a.replace(tmp, "@CFG@"))
            units[os.path.relpath(e["file"], REPO)] = keep
        if len(units) < 10:
            raise AnalysisBroken("compilation database lists only %d library units" % len(units))
        if undefs:
            ch = os.path.join(tmp, "config.h")
            with open(ch) as fh:
                lines = fh.readlines()
            with open(ch, "w") as fh:
                for l in lines:
                    if any(l.startswith("#define %s" % u) for u in undefs):
                        fh.write("/* jcv variant: %s */\n" % l.strip())
                    else:
                        fh.write(l)
        with open(os.path.join(tmp, "jcv_units.json"), "w") as fh:
            json.dump(units, fh, indent=1)
        os.rename(tmp, cfgdir)
    with open(dbfile) as fh:
        units = json.load(fh)
    return cfgdir, [{"file": f, "args": [a.replace("@CFG@", cfgdir) for a in args]}
                    for f, args in sorted(units.items())]


def _deps_hash(src, args):
    """Hash of the preprocessed translation unit (covers every header and macro)."""
    r = subprocess.run(["clang", "-E", "-P"] + args + [src], stdout=subprocess.PIPE,
                       stderr=subprocess.PIPE)
    if r.returncode != 0:
        raise AnalysisBroken("preprocessing %s failed:\n%s" % (src, r.stderr.decode()[-2000:]))
    unit = os.path.relpath(src, REPO) if src.startswith(REPO) else ""
    try:
        ki = ",".join(sorted(known_internal().get(unit, ())))
    except OSError:
        ki = ""
    return _sha(r.stdout, " ".join(args), " ".join(IR_FLAGS), "inline-v2:" + ki)


_known_internal = None


def known_internal():
    global _known_internal
    if _known_internal is None:
        p = os.path.join(os.path.dirname(os.path.dirname(os.path.abspath(__file__))), "tools", "known_internal.json")
        with open(p) as fh:
            _known_internal = {k: set(v) for k, v in json.load(fh).items()}
    return _known_internal


def _inline_new_helpers(path, unit):
    """Internal functions that the reference tree does not have (code moved into a new static helper) are inlined into
    their callers, so that per-function rules see the code where it used to be.  Nothing changes on the reference tree."""
    import re
    if unit is None:
        return
    known = known_internal().get(unit, set())
    with open(path) as fh:
        text = fh.read()
    new = [m.group(1) for m in re.finditer(r"^define internal [^\n]*?@\"?([\w.$]+)\"?\(", text, re.M) if m.group(1) not in known]
    if not new:
        return
    groups = dict((int(m.group(1)), m.group(2)) for m in re.finditer(r"^attributes #(\d+) = \{([^\n]*)\}", text, re.M))
    nxt = max(groups) + 1 if groups else 0
    remap = {}
    lines = text.split("\n")
    for k, line in enumerate(lines):
        m = re.match(r"define internal [^\n]*?@\"?([\w.$]+)\"?\(", line)
        if not m or m.group(1) not in new:
            continue
        g = re.search(r"\) (?:[a-z_]+ )*#(\d+)", line)
        if not g:
            continue
        old = int(g.group(1))
        if old not in remap:
            body = groups.get(old, "")
            body = re.sub(r"\b(noinline|optnone)\b", "", body)
            remap[old] = (nxt, " alwaysinline " + body)
            nxt += 1
        lines[k] = line[:g.start(1)] + str(remap[old][0]) + line[g.end(1):]
    for old, (n, body) in remap.items():
        lines.append("attributes #%d = {%s}" % (n, body))
    # the functions that receive inlined code are afterwards jump-threaded: an inlined helper's `return -1` followed by the
    # caller's `if (rc < 0)` becomes a direct edge, so the merged return-code phi does not create paths that cannot happen.
    # Every other function of the unit is fenced off with optnone and keeps the shape the rules were written against.
    text2 = "\n".join(lines)
    callers = set()
    cur = None
    for line in lines:
        m = re.match(r"define [^\n]*?@\"?([\w.$]+)\"?\(", line)
        if m:
            cur = m.group(1)
        elif line.startswith("}"):
            cur = None
        elif cur is not None and re.search(r"\bcall\b[^\n]*@\"?(%s)\"?\(" % "|".join(re.escape(x) for x in new), line):
            callers.add(cur)
    # transitive: a new helper calling another new helper
    fence = {}
    out_lines = []
    for line in lines:
        m = re.match(r"define [^\n]*?@\"?([\w.$]+)\"?\(", line)
        if m and m.group(1) not in callers and m.group(1) not in new:
            g = re.search(r"\) (?:[a-z_]+ )*#(\d+)", line)
            if g:
                oldg = int(g.group(1))
                if oldg not in fence:
                    body = groups.get(oldg, "")
                    if "optnone" not in body:
                        body = re.sub(r"\b(optsize|minsize|alwaysinline)\b", "", body)
                        body = " optnone " + (body if "noinline" in body else " noinline " + body)
                    fence[oldg] = (nxt, body)
                    nxt += 1
                line = line[:g.start(1)] + str(fence[oldg][0]) + line[g.end(1):]
        out_lines.append(line)
    for oldg, (n, body) in fence.items():
        out_lines.append("attributes #%d = {%s}" % (n, body))
    with open(path + ".in", "w") as fh:
        fh.write("\n".join(out_lines))
    r = subprocess.run(["opt-14", "-passes=always-inline,function(mem2reg,jump-threading)", "-S", path + ".in", "-o", path + ".out"],
                       stdout=subprocess.PIPE, stderr=subprocess.PIPE, text=True)
    os.unlink(path + ".in")
    if r.returncode != 0:
        raise AnalysisBroken("inlining new helper functions %s failed:\n%s" % (new, r.stderr[-2000:]))
    with open(path + ".out") as fh:
        t = fh.read()
    os.unlink(path + ".out")
    # drop the fence again (the attribute is only there to keep the pass away)
    t = re.sub(r"^(attributes #\d+ = \{[^\n]*?)\boptnone\b", r"\1", t, flags=re.M)
    with open(path, "w") as fh:
        fh.write(t)


def compile_unit(src, args, tag, raw=False):
    """Compile one C file to mem2reg'd IR text; returns (path, hash)."""
    h = _deps_hash(src, args)
    cdir = os.path.join(WORK, "ir")
    os.makedirs(cdir, exist_ok=True)
    out = os.path.join(cdir, "%s%s-%s-%s.ll" % ("raw" if raw else "", tag, os.path.basename(src).replace(".c", ""), h))
    if not os.path.isfile(out):
        tmp = out + ".tmp%d" % os.getpid()
        r = subprocess.run(["clang"] + args + IR_FLAGS + [src, "-o", tmp + ".0"],
                           stdout=subprocess.PIPE, stderr=subprocess.PIPE, text=True)
        if r.returncode != 0:
            raise AnalysisBroken("compiling %s to IR failed:\n%s" % (src, r.stderr[-3000:]))
        r = subprocess.run(["opt-14", "-passes=mem2reg", "-S", tmp + ".0", "-o", tmp],
                           stdout=subprocess.PIPE, stderr=subprocess.PIPE, text=True)
        os.unlink(tmp + ".0")
        if r.returncode != 0:
            raise AnalysisBroken("opt mem2reg failed on %s:\n%s" % (src, r.stderr[-2000:]))
        if not raw:
            _inline_new_helpers(tmp, os.path.relpath(src, REPO) if src.startswith(REPO) else None)
        os.rename(tmp, out)
        # prune older IR of the same unit/tag
        prefix = "%s%s-%s-" % ("raw" if raw else "", tag, os.path.basename(src).replace(".c", ""))
        for f in os.listdir(cdir):
            if f.startswith(prefix) and f.endswith(".ll") and os.path.join(cdir, f) != out:
                try:
                    os.unlink(os.path.join(cdir, f))
                except OSError:
                    pass
    return out, h


def build_ir(variant="default", extra_units=(), raw=False):
    """Compile all library units (+ extra witness units) of a variant.
    Returns list of dicts {file, ir, hash}."""
    cfgdir, units = configure(variant)
    jobs = []
    for u in units:
        src = os.path.join(REPO, u["file"])
        if not os.path.isfile(src):
            raise AnalysisBroken("library unit %s listed by the build is missing" % u["file"])
        jobs.append((u["file"], src, u["args"]))
    base_args = units[0]["args"]
    for w in extra_units:
        jobs.append(("witness/" + os.path.basename(w), w, base_args))
    res = []
    with ThreadPoolExecutor(max_workers=16) as ex:
        futs = [(name, ex.submit(compile_unit, src, args, variant, raw)) for name, src, args in jobs]
        for name, f in futs:
            path, h = f.result()
            res.append({"file": name, "ir": path, "hash": h})
    return res


if __name__ == "__main__":
    v = sys.argv[1] if len(sys.argv) > 1 else "default"
    for u in build_ir(v):
        print(u["file"], u["ir"])
