"""Rules about what happens to heap blocks that the *caller* can still see.

rule_dangling_fields   a block reached through a field of a caller-visible object (or a global) is released and the field is not
                       overwritten (nor its container released) before the function returns: the next release of the container
                       frees the block again / the next reader uses freed memory
rule_free_const_param  a function releases memory it received through a pointer-to-const parameter (the caller's own storage)
"""
import re
from collections import deque

from .ir import strip_casts
from .flow import Paths
from .cfg import cfg_of
from . import pe

DEALLOC = {"free": 0, "json_object_put": 0, "printbuf_free": 0, "lh_table_free": 0, "array_list_free": 0, "json_tokener_free": 0}


def _ev(fn, v, env, depth=0):
    if v.kind == "int":
        return v.v
    if v.kind == "null":
        return 0
    if v.kind != "reg" or depth > 6:
        return None
    if v.v in env:
        return env[v.v]
    d = fn.defs.get(v.v)
    if d is None:
        return None
    if d.op in ("zext", "sext", "trunc", "bitcast"):
        return _ev(fn, d.ops[0], env, depth + 1)
    if d.op == "icmp":
        x, y = _ev(fn, d.ops[0], env, depth + 1), _ev(fn, d.ops[1], env, depth + 1)
        if x is None or y is None:
            return None
        p = d.x["pred"]
        if p[0] == "u":
            x, y = x % (1 << 64), y % (1 << 64)
        return int({"eq": x == y, "ne": x != y, "slt": x < y, "sle": x <= y, "sgt": x > y, "sge": x >= y,
                    "ult": x < y, "ule": x <= y, "ugt": x > y, "uge": x >= y}[p])
    if d.op in ("xor", "and", "or"):
        x, y = _ev(fn, d.ops[0], env, depth + 1), _ev(fn, d.ops[1], env, depth + 1)
        if x is None or y is None:
            return None
        return {"xor": x ^ y, "and": x & y, "or": x | y}[d.op]
    return None


def _known_equalities(fn, block):
    """registers known to equal a constant whenever `block` runs (from dominating `== c` / `!= c` tests)"""
    from .flow import dominating_conditions
    env = {}
    for cmp_, truth in dominating_conditions(fn, block):
        if getattr(cmp_, "op", None) != "icmp" or not isinstance(truth, bool):
            continue
        pred = cmp_.x["pred"]
        if (pred == "eq" and truth) or (pred == "ne" and not truth):
            for x, y in ((cmp_.ops[0], cmp_.ops[1]), (cmp_.ops[1], cmp_.ops[0])):
                if x.kind == "reg" and y.kind in ("int", "null"):
                    env[x.v] = 0 if y.kind == "null" else y.v
    return env


def reach_avoiding(fn, start, is_target, is_avoid, env0=None):
    """a CFG path (list of block names) from just after instruction `start` to an instruction satisfying is_target that executes
    no instruction satisfying is_avoid, or None.  Branches whose condition is decided by constants that phi nodes picked up on
    this very path are followed only in the decided direction (correlated tests of an inlined helper's result)."""
    seen = set()
    dq = deque([(start.block, start.idx + 1, None, tuple(sorted((env0 or {}).items())), (start.block.name,))])
    while dq:
        b, k, prev, envt, trail = dq.popleft()
        env = dict(envt)
        if k == 0 and prev is not None:
            for i in b.instrs:
                if i.op != "phi":
                    break
                env.pop(i.res, None)
                for val, lab in i.x["incoming"]:
                    if lab == prev.name:
                        c = _ev(fn, val, env)
                        if c is not None:
                            env[i.res] = c
        stop = False
        for i in b.instrs[k:]:
            if is_avoid(i):
                stop = True
                break
            if is_target(i):
                return list(trail), i
        if stop:
            continue
        t = b.term
        succs = list(b.succs)
        if t.op == "br" and len(t.x["targets"]) == 2 and t.ops and t.x["targets"][0] != t.x["targets"][1]:
            c = _ev(fn, t.ops[0], env)
            if c is not None:
                succs = [fn.blocks[t.x["targets"][0] if c else t.x["targets"][1]]]
        for s_ in succs:
            key = (s_.name, b.name, tuple(sorted(env.items())))
            if key not in seen and len(seen) < 20000:
                seen.add(key)
                dq.append((s_, 0, b, tuple(sorted(env.items())), trail + (s_.name,)))
    return None


def _frees_param(prog):
    """functions that release (one of) their pointer parameters: name -> set of parameter indices"""
    out = {n: {k} for n, k in DEALLOC.items()}
    changed = True
    rounds = 0
    while changed and rounds < 4:
        changed = False
        rounds += 1
        for f in prog.all_functions():
            if f.is_decl:
                continue
            for i in f.instrs():
                if i.op == "call" and i.callee in out:
                    for k in out[i.callee]:
                        if k < len(i.ops):
                            a = strip_casts(i.ops[k])
                            d = f.defs.get(a.v) if a.kind == "reg" else None
                            hops = 0
                            while d is not None and d.op == "bitcast" and hops < 4:
                                a = d.ops[0]
                                d = f.defs.get(a.v) if a.kind == "reg" else None
                                hops += 1
                            if a.kind == "reg":
                                pi = f.param_index(a.v)
                                if pi is not None and pi not in out.get(f.name, set()):
                                    out.setdefault(f.name, set()).add(pi)
                                    changed = True
    return out


def _loaded_from(f, a):
    """the load instruction whose result (through casts) is value a, or None"""
    a = strip_casts(a)
    d = f.defs.get(a.v) if a.kind == "reg" else None
    hops = 0
    while d is not None and d.op == "bitcast" and hops < 4:
        a = d.ops[0]
        d = f.defs.get(a.v) if a.kind == "reg" else None
        hops += 1
    return d if d is not None and d.op == "load" else None


def _through_union(f, a, depth=0):
    """the address is computed through a union-typed object (the member shares its storage with others)"""
    a = strip_casts(a) if a.kind == "cexpr" else a
    if a.kind != "reg" or depth > 8:
        return False
    d = f.defs.get(a.v)
    if d is None:
        return False
    if d.op == "getelementptr":
        if "union." in (d.x.get("srcty") or ""):
            return True
        return _through_union(f, d.ops[0], depth + 1)
    if d.op == "bitcast":
        if "union." in (d.ops[0].type or "") or "union." in (d.type or ""):
            return True
        return _through_union(f, d.ops[0], depth + 1)
    return False


def _root(path):
    for k, ch in enumerate(path):
        if ch in "-.[":
            return path[:k]
    return path


def rule_dangling_fields(chk, prog, rid, only_modules=None, floor=10):
    chk.rule(rid, "a heap block reached through a field of an object the caller can still see (a field path rooted at a pointer "
                  "parameter, or a global) is released only if, on every path from the release to a return, the field is "
                  "overwritten or the object that holds it is released too; otherwise the stale pointer is released again by the "
                  "container's own clean-up, or read")
    frees = _frees_param(prog)
    n = 0
    for f in prog.all_functions():
        if f.is_decl or (only_modules and f.module.srcname not in only_modules):
            continue
        P = None
        pnames = {nm for t, nm in f.params if t.endswith("*") and nm}
        for i in f.instrs():
            if i.op != "call" or i.callee not in frees or not i.ops:
                continue
            for k in frees[i.callee]:
                if k >= len(i.ops):
                    continue
                ld = _loaded_from(f, i.ops[k])
                if ld is None:
                    continue
                if P is None:
                    P = Paths(f, prog)
                path = P.path(ld.ops[0])
                root = _root(path)
                if not (root in pnames or root.startswith("@")):
                    continue
                n += 1
                chk.touched(f)
                sig = "%s(%s)" % (i.callee, re.sub(r"\b%s\b" % re.escape(root), "<arg%d>" % f.param_index(root), path) if root in pnames else path)
                if _through_union(f, ld.ops[0]):
                    chk.undecided(rid, f.name, sig, i.locstr(),
                                  "the field is a member of a union: whether the stale pointer is ever read again is decided by the "
                                  "union's discriminant, which this rule does not follow")
                    continue

                def is_avoid(x, path=path, root=root):
                    if x.op == "store" and P.path(x.ops[1]) == path:
                        return True
                    if x.op == "call" and x.callee in frees:
                        for kk in frees[x.callee]:
                            if kk < len(x.ops) and P.path(x.ops[kk]) in (root,) and x is not i:
                                return True
                    # the holder is handed to a routine that re-initialises it (memset of the whole object)
                    if x.op == "call" and (x.callee or "").startswith("llvm.memset") and x.ops and P.path(x.ops[0]).startswith(root) and \
                            path.startswith(P.path(x.ops[0])):
                        return True
                    return False
                # the field may already have been given its new value between the read of the old one and the release
                # (`old = t->table; t->table = fresh; free(old);`)
                cfg = cfg_of(f)
                if any(x.op == "store" and P.path(x.ops[1]) == path and cfg.dominates(ld, x) and cfg.dominates(x, i) for x in f.instrs()):
                    chk.proven(rid, f.name, sig, i.locstr(), "the field was overwritten between the read of the old block and its release")
                    continue
                w = reach_avoiding(f, i, lambda x: x.op == "ret", is_avoid, _known_equalities(f, i.block))
                if w is None:
                    chk.proven(rid, f.name, sig, i.locstr(), "the field is overwritten, or its holder released, on every path to a return")
                else:
                    trail, ret = w
                    chk.refuted(rid, f.name, sig, i.locstr(),
                                "%s is released here and the function can return (%s, via %s) with the field still holding the released "
                                "pointer and its holder %s alive: the holder's clean-up (or the next reader) uses the block again"
                                % (path, ret.locstr(), " -> ".join(trail[-4:]), root), {"path": list(trail)})
    chk.floor(rid, n, floor, "releases of blocks reached through caller-visible fields")


# ---------------------------------------------------------------------------
def const_pointee_params(f):
    """indices of the parameters declared as pointer-to-const in the source (from the debug information)"""
    m = f.module
    d = m.md.get(f.dbg) if f.dbg is not None else None
    if not d or isinstance(d, list):
        return set()

    def node(ref):
        if ref in (None, "null"):
            return None
        try:
            return m.md.get(int(str(ref).lstrip("!")))
        except ValueError:
            return None
    t = node(d[1].get("type"))
    if not t or isinstance(t, list):
        return set()
    tl = node(t[1].get("types"))
    if not isinstance(tl, list):
        return set()
    out = set()
    for k, e in enumerate(tl[1:]):
        x = node(e)
        hops = 0
        # strip top-level qualifiers / typedefs down to the pointer
        while x and not isinstance(x, list) and x[0] == "DIDerivedType" and x[1].get("tag") in ("DW_TAG_const_type", "DW_TAG_typedef", "DW_TAG_restrict_type", "DW_TAG_volatile_type") and hops < 6:
            x = node(x[1].get("baseType"))
            hops += 1
        if x and not isinstance(x, list) and x[0] == "DIDerivedType" and x[1].get("tag") == "DW_TAG_pointer_type":
            y = node(x[1].get("baseType"))
            hops = 0
            while y and not isinstance(y, list) and y[0] == "DIDerivedType" and y[1].get("tag") in ("DW_TAG_typedef", "DW_TAG_volatile_type") and hops < 6:
                y = node(y[1].get("baseType"))
                hops += 1
            if y and not isinstance(y, list) and y[0] == "DIDerivedType" and y[1].get("tag") == "DW_TAG_const_type":
                out.add(k)
    return out


def _may_derive_from(f, v, regs, depth=0, seen=None):
    """value v may be (a cast / zero-offset view / phi / select of) one of the registers in regs"""
    seen = seen if seen is not None else set()
    v = strip_casts(v) if v.kind == "cexpr" else v
    if v.kind != "reg" or v.v in seen or depth > 12:
        return False
    seen.add(v.v)
    if v.v in regs:
        return True
    d = f.defs.get(v.v)
    if d is None:
        return False
    if d.op in ("bitcast", "getelementptr", "ptrtoint", "inttoptr"):
        return _may_derive_from(f, d.ops[0], regs, depth + 1, seen)
    if d.op == "phi":
        return any(_may_derive_from(f, val, regs, depth + 1, seen) for val, _ in d.x["incoming"])
    if d.op == "select":
        return any(_may_derive_from(f, o, regs, depth + 1, seen) for o in d.ops[1:])
    return False


class _FreePE(pe.PE):
    """follows one function with its pointer-to-const parameters named, integer parameters ranging over the bit masks / constants
    they are tested against, and every unknown call result a fresh unknown; records a release of a named parameter"""

    def __init__(self, prog, fn, cparams):
        super().__init__(prog, max_leaves=400, max_steps=60000, loop_widen=2)
        self.cparams = cparams
        self.hits = []

    def should_inline(self, g, instr):
        return False

    def call_model(self, state, frame, i, args):
        nm = i.callee or ""
        if nm in ("free", "realloc") and args and args[0][0] == "ptr" and args[0][1].startswith("cparam:") and \
                not [x for x in args[0][2] if x != ("i", 0)]:
            self.hits.append((i, args[0][1][7:], list(state.trace)[-6:]))
            return pe.C(0)
        if nm in ("malloc", "calloc", "strdup", "strndup", "realloc"):
            state.nfresh += 1
            return ("ptr", "heap#%d" % state.nfresh, ())
        if nm.startswith("llvm."):
            return None
        if i.res is not None:
            t = i.type or ""
            if t.endswith("*"):
                state.nfresh += 1
                return ("ptr", "ret#%d" % state.nfresh, ())
            if t.startswith("i"):
                return self.fresh_root(state, "ret", (-1, 0, 1))
        return pe.C(0)


def _int_domain(f, pname):
    """values an integer parameter is worth distinguishing: the masks it is and-ed with and the constants it is compared to"""
    masks, consts = set(), {0}
    cfg = cfg_of(f)
    for u in cfg.users(pname):
        if u.op == "and":
            for o in u.ops:
                if o.kind == "int" and 0 < o.v < (1 << 31):
                    masks.add(o.v)
        if u.op == "icmp":
            for o in u.ops:
                if o.kind == "int" and -(1 << 31) <= o.v < (1 << 31):
                    consts |= {o.v - 1, o.v, o.v + 1}
    masks = sorted(masks)[:4]
    dom = set(consts)
    for k in range(1 << len(masks)):
        v = 0
        for b, mk_ in enumerate(masks):
            if k >> b & 1:
                v |= mk_
        dom.add(v)
    return sorted(dom)[:64]


def rule_free_const_param(chk, prog, rid, floor=15):
    chk.rule(rid, "no function releases (free / realloc) memory it received through a pointer-to-const parameter: that storage is the "
                  "caller's.  Every release whose argument may derive from such a parameter (through casts, phis, selects) is followed "
                  "path by path with the integer parameters ranging over the masks / constants they are tested against; a path on "
                  "which the released pointer is the parameter itself is the witness")
    n = 0
    for f in prog.all_functions():
        if f.is_decl:
            continue
        rel = [i for i in f.instrs() if i.op == "call" and i.callee in ("free", "realloc") and i.ops]
        if not rel:
            continue
        n += len(rel)
        cp = const_pointee_params(f)
        cregs = {f.params[k][1]: k for k in cp if k < len(f.params) and f.params[k][1]}
        if not cregs:
            continue
        cand = [i for i in rel if _may_derive_from(f, i.ops[0], set(cregs))]
        if not cand:
            continue
        chk.touched(f)
        h = _FreePE(prog, f, cregs)
        st = pe.State()
        args = []
        for k, (t, nm) in enumerate(f.params):
            if nm in cregs:
                args.append(("ptr", "cparam:" + nm, ()))
            elif t.endswith("*"):
                args.append(("ptr", "param:" + (nm or str(k)), ()))
            elif t.startswith("i") and nm:
                st.roots["p:" + nm] = frozenset(_int_domain(f, nm))
                args.append(pe.R("p:" + nm))
            else:
                args.append(pe.TOP)
        err = None
        try:
            h.run(f, args, st)
        except Exception as e:
            err = str(e)
        for c in cand:
            sig = "%s of a value that may be parameter %s" % (c.callee, "/".join(sorted(cregs)))
            hit = [x for x in h.hits if x[0] is c]
            if hit:
                chk.refuted(rid, f.name, sig, c.locstr(),
                            "on a feasible path the pointer released here is the function's own parameter '%s', declared pointer-to-const: "
                            "the caller's storage is freed" % hit[0][1], {"call": c.raw})
            elif err:
                chk.undecided(rid, f.name, sig, c.locstr(), "path exploration stopped (%s)" % err)
            else:
                chk.proven(rid, f.name, sig, c.locstr(), "on no explored path is the released pointer the parameter itself")
    chk.floor(rid, n, floor, "free / realloc call sites inspected")


# ---------------------------------------------------------------------------
def rule_double_release(chk, prog, rid, floor=20):
    chk.rule(rid, "no block is handed to a releasing routine (free, printbuf_free, lh_table_free, array_list_free, "
                  "json_tokener_free) twice on one path: for two release calls on the same pointer value, no path leads from the "
                  "first to the second (branches decided by constants picked up on the path are followed in the decided direction)")
    REL = {"free": 0, "printbuf_free": 0, "lh_table_free": 0, "array_list_free": 0, "json_tokener_free": 0}
    n = 0
    for f in prog.all_functions():
        if f.is_decl:
            continue
        calls = {}
        for i in f.instrs():
            if i.op == "call" and i.callee in REL and len(i.ops) > REL[i.callee]:
                a = i.ops[REL[i.callee]]
                a = strip_casts(a) if a.kind == "cexpr" else a
                d = f.defs.get(a.v) if a.kind == "reg" else None
                hops = 0
                while d is not None and d.op == "bitcast" and hops < 4:
                    a = d.ops[0]
                    d = f.defs.get(a.v) if a.kind == "reg" else None
                    hops += 1
                if a.kind == "reg":
                    n += 1
                    calls.setdefault(a.v, []).append(i)
        for reg, cs in calls.items():
            if len(cs) < 2:
                continue
            chk.touched(f)
            done = False
            for a in cs:
                for b in cs:
                    if a is b or done:
                        continue
                    w = reach_avoiding(f, a, lambda x, b=b: x is b, lambda x: False, _known_equalities(f, a.block))
                    if w is not None:
                        trail, _ = w
                        chk.refuted(rid, f.name, "release of %%%s twice" % reg, b.locstr(),
                                    "the block released by %s at %s is released again here (path %s): a double free"
                                    % (a.callee, a.locstr(), " -> ".join(trail[-4:])), {"first": a.raw, "second": b.raw})
                        done = True
            if not done:
                chk.proven(rid, f.name, "releases of %%%s" % reg, cs[0].locstr(), "no path from one release to another (%d sites)" % len(cs))
    chk.floor(rid, n, floor, "release calls inspected")
