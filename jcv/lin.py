"""E5: linear facts over integer SSA values.

* values are normalised to linear forms over atoms (parameters, loads of an access path, call results);
* facts are the branch conditions whose edges dominate the program point (on the CFG pruned by a finite
  case split on the sign of selected atoms), plus the type range of every atom;
* an obligation `form <= 0` is PROVEN when facts AND NOT(obligation) is infeasible (Fourier-Motzkin
  elimination over the rationals with integer tightening of strict inequalities), REFUTED when a boundary
  assignment of the atoms satisfies every fact, violates the obligation and reaches the point through
  branches it decides consistently, UNDECIDED otherwise.

No code is executed; only branch conditions are interpreted.
"""
from collections import deque
from fractions import Fraction
from itertools import product

from .cfg import cfg_of
from .flow import Paths, _flatten_cond


class Lin:
    __slots__ = ("c", "k")

    def __init__(self, c=None, k=0):
        self.c = {a: v for a, v in (c or {}).items() if v != 0}
        self.k = k

    def __add__(self, o):
        c = dict(self.c)
        for a, v in o.c.items():
            c[a] = c.get(a, 0) + v
        return Lin(c, self.k + o.k)

    def __sub__(self, o):
        return self + o.scale(-1)

    def scale(self, n):
        return Lin({a: v * n for a, v in self.c.items()}, self.k * n)

    def atoms(self):
        return set(self.c)

    def is_const(self):
        return not self.c

    def eval(self, env):
        return sum(v * env[a] for a, v in self.c.items()) + self.k

    def __repr__(self):
        parts = []
        for a, v in sorted(self.c.items()):
            parts.append(("%s" % a) if v == 1 else ("-%s" % a if v == -1 else "%s*%s" % (v, a)))
        if self.k or not parts:
            parts.append(str(self.k))
        return " + ".join(parts).replace("+ -", "- ")


def const(k):
    return Lin({}, k)


def atom(a):
    return Lin({a: 1}, 0)


# a constraint is a Lin e meaning  e <= 0


def fm_infeasible(cons, maxcons=4000):
    """is the conjunction of (e <= 0) infeasible over the rationals?"""
    cons = [Lin(c.c, c.k) for c in cons]
    while True:
        for c in cons:
            if c.is_const() and c.k > 0:
                return True
        atoms = set()
        for c in cons:
            atoms |= c.atoms()
        if not atoms:
            return False
        # pick the atom with the fewest pos*neg products
        best = None
        for a in atoms:
            pos = sum(1 for c in cons if c.c.get(a, 0) > 0)
            neg = sum(1 for c in cons if c.c.get(a, 0) < 0)
            cost = pos * neg - pos - neg
            if best is None or cost < best[0]:
                best = (cost, a)
        a = best[1]
        pos = [c for c in cons if c.c.get(a, 0) > 0]
        neg = [c for c in cons if c.c.get(a, 0) < 0]
        rest = [c for c in cons if c.c.get(a, 0) == 0]
        new = rest
        for p in pos:
            for n in neg:
                cp, cn = p.c[a], -n.c[a]
                e = p.scale(cn) + n.scale(cp)
                e.c.pop(a, None)
                new.append(e)
        if len(new) > maxcons:
            return False
        cons = new


class Result:
    def __init__(self, verdict, msg, detail=None):
        self.verdict = verdict
        self.msg = msg
        self.detail = detail or {}


# ---------------------------------------------------------------------------


def type_range(t, signed=True):
    if t.startswith("i") and t[1:].isdigit():
        n = int(t[1:])
        if signed:
            return -(1 << (n - 1)), (1 << (n - 1)) - 1
        return 0, (1 << n) - 1
    return None


class Sym:
    """linear forms of the integer SSA values of one function"""

    def __init__(self, prog, fn):
        self.prog = prog
        self.fn = fn
        self.P = Paths(fn, prog)
        self.atom_type = {}    # atom -> llvm type
        self.nonneg = set()    # atoms known >= 0 by construction (zext results)
        self._memo = {}
        self._stores = None
        self._load_atoms = {}
        self._maywrite = {}

    def _calls_may_write(self, p):
        """does the function call a library function that (transitively) stores to a field with the same name?"""
        if p in self._maywrite:
            return self._maywrite[p]
        field = p.replace("->", ".").split(".")[-1].split("[")[0]
        r = False
        for i in self.fn.instrs():
            if i.op == "call" and i.callee:
                g = self.prog.resolve(i.callee, self.fn.module)
                if g is not None and _writes_field_named(self.prog, g, field, set()):
                    r = True
                    break
        self._maywrite[p] = r
        return r

    def _call_may_write_before(self, d, p):
        if not self._calls_may_write(p):
            return False
        field = p.replace("->", ".").split(".")[-1].split("[")[0]
        cfg = cfg_of(self.fn)
        for i in self.fn.instrs():
            if i.op == "call" and i.callee:
                g = self.prog.resolve(i.callee, self.fn.module)
                if g is not None and _writes_field_named(self.prog, g, field, set()):
                    if d.block in cfg.reachable_from(i.block) and not (i.block is d.block and i.idx > d.idx):
                        return True
        return False

    def _same_value(self, first, second, p):
        """no write to location p can happen between instruction `first` and the later instruction `second`
        (first dominates second), on paths that do not pass through `first` again"""
        fn = self.fn
        field = p.replace("->", ".").split(".")[-1].split("[")[0]
        fb = first.block
        # forward region from just after `first`, not re-entering first's block
        region = set()
        work = list(fb.succs)
        while work:
            b = work.pop()
            if b is fb or b in region:
                continue
            region.add(b)
            work.extend(b.succs)
        # blocks of the region (plus first's block tail) from which `second` is reachable inside the region
        sb = second.block
        can = set()
        if sb is fb:
            cand = [(fb, first.idx + 1, second.idx)]
        else:
            if sb not in region:
                return False
            # backward closure inside the region
            can = {sb}
            work = [sb]
            while work:
                b = work.pop()
                for q in b.preds:
                    if q in region and q not in can:
                        can.add(q)
                        work.append(q)
            cand = [(fb, first.idx + 1, len(fb.instrs))]
            for b in can:
                cand.append((b, 0, second.idx if b is sb else len(b.instrs)))
        for b, lo, hi in cand:
            for i in b.instrs[lo:hi]:
                if i.op == "store" and self.P.path(i.ops[1]) == p:
                    return False
                if i.op in ("atomicrmw", "cmpxchg") and self.P.path(i.ops[0]) == p:
                    return False
                if i.op == "call" and i.callee:
                    g = self.prog.resolve(i.callee, fn.module)
                    if g is not None and _writes_field_named(self.prog, g, field, set()):
                        return False
        return True

    def _stored_paths(self):
        if self._stores is None:
            self._stores = {}
            for i in self.fn.instrs():
                if i.op == "store":
                    self._stores.setdefault(self.P.path(i.ops[1]), []).append(i)
        return self._stores

    def _atom(self, name, t):
        self.atom_type[name] = t
        return atom(name)

    def expr(self, v):
        if v.kind == "int":
            return const(v.v)
        if v.kind == "null":
            return const(0)
        if v.kind != "reg":
            return None
        if v.v in self._memo:
            return self._memo[v.v]
        self._memo[v.v] = None
        r = self._expr_reg(v)
        self._memo[v.v] = r
        return r

    def _expr_reg(self, v):
        fn = self.fn
        d = fn.defs.get(v.v)
        if d is None:
            return self._atom(v.v, v.type)
        op = d.op
        if op in ("add", "sub") and "nsw" in d.x.get("flags", []):
            a, b = self.expr(d.ops[0]), self.expr(d.ops[1])
            if a is not None and b is not None:
                return a + b if op == "add" else a - b
        if op == "mul" and "nsw" in d.x.get("flags", []):
            a, b = self.expr(d.ops[0]), self.expr(d.ops[1])
            if a is not None and b is not None:
                if a.is_const():
                    return b.scale(a.k)
                if b.is_const():
                    return a.scale(b.k)
        if op == "sext":
            return self.expr(d.ops[0])
        if op == "zext":
            inner = self.expr(d.ops[0])
            name = "zext(%s)" % self._nm(d)
            e = self._atom(name, d.type)
            self.nonneg.add(name)
            self.zext_of = getattr(self, "zext_of", {})
            self.zext_of[name] = (inner, d.ops[0].type)
            return e
        if op == "load":
            p = self.P.path(d.ops[0])
            stores = self._stored_paths().get(p, [])
            cfg = cfg_of(fn)
            if not stores and not self._calls_may_write(p):
                return self._atom(p, d.type)
            # a single dominating store whose value is known and which is the only one that can reach the load
            reach = [s for s in stores if d.block in cfg.reachable_from(s.block) and not (s.block is d.block and s.idx > d.idx)]
            if not reach and not self._call_may_write_before(d, p):
                return self._atom(p, d.type)      # the value the location had on entry
            dom = [s for s in reach if cfg.dominates(s, d)]
            if len(reach) == 1 and dom and self._same_value(dom[0], d, p):
                sv = self.expr(reach[0].ops[0])
                if sv is not None:
                    return sv
            # same atom as an earlier load of the location when no write can occur in between
            for (l1, name) in self._load_atoms.get(p, []):
                if (cfg.dominates(l1, d) and self._same_value(l1, d, p)) or \
                        (cfg.dominates(d, l1) and self._same_value(d, l1, p)):
                    self.atom_type[name] = d.type
                    return atom(name)
            name = "%s@%s" % (p, d.res) if (stores or self._calls_may_write(p)) else p
            self._load_atoms.setdefault(p, []).append((d, name))
            return self._atom(name, d.type)
        if op in ("bitcast", "trunc") and op == "bitcast":
            return self.expr(d.ops[0])
        return self._atom(self._nm(d), d.type)

    def _nm(self, d):
        if d.op == "call":
            from .ir import Val
            return self.P.path(Val("reg", d.type, d.res))
        return "%" + d.res

    # ---- facts from comparisons ----------------------------------------------
    def cmp_facts(self, cmp_, truth):
        """list of Lin (<= 0) implied by (cmp == truth); [] if not expressible"""
        if cmp_.op != "icmp":
            return []
        a, b = self.expr(cmp_.ops[0]), self.expr(cmp_.ops[1])
        if a is None or b is None:
            return []
        pred = cmp_.x["pred"]
        if not truth:
            pred = {"eq": "ne", "ne": "eq", "slt": "sge", "sge": "slt", "sgt": "sle", "sle": "sgt",
                    "ult": "uge", "uge": "ult", "ugt": "ule", "ule": "ugt"}[pred]
        if pred[0] == "u":
            # usable only when both sides are known non-negative in the signed view
            if not (self._nonneg(a) and self._nonneg(b)):
                return []
            pred = "s" + pred[1:]
        d = a - b
        if pred == "slt":
            return [d + const(1)]
        if pred == "sle":
            return [d]
        if pred == "sgt":
            return [d.scale(-1) + const(1)]
        if pred == "sge":
            return [d.scale(-1)]
        if pred == "eq":
            return [d, d.scale(-1)]
        if pred == "ne":
            self.last_ne = d      # not convex: offered to the caller as a disjunction (d <= -1 or d >= 1)
        return []

    def _nonneg(self, e):
        if e.is_const():
            return e.k >= 0
        return all(v > 0 and a in self.nonneg for a, v in e.c.items()) and e.k >= 0

    def range_facts(self, atoms):
        out = []
        for a in atoms:
            t = self.atom_type.get(a)
            r = type_range(t) if t else None
            if r is None:
                continue
            lo, hi = r
            inv = getattr(self, "invariants", {}).get(a.split("@")[0])
            if inv:
                lo, hi = max(lo, inv[0]), min(hi, inv[1])
            if a in self.nonneg:
                lo = 0
                z = getattr(self, "zext_of", {}).get(a)
                if z:
                    ur = type_range(z[1], signed=False)
                    hi = ur[1]
            out.append(atom(a).scale(-1) + const(lo))     # lo - a <= 0
            out.append(atom(a) + const(-hi))              # a - hi <= 0
        return out


_wf_cache = {}


def _writes_field_named(prog, g, field, seen):
    key = (id(g), field)
    if key in _wf_cache:
        return _wf_cache[key]
    if id(g) in seen:
        return False
    seen.add(id(g))
    P = Paths(g, prog)
    r = False
    for i in g.instrs():
        if i.op == "store":
            q = P.path(i.ops[1]).replace("->", ".").split(".")[-1].split("[")[0]
            if q == field:
                r = True
                break
        if i.op == "call" and i.callee:
            h = prog.resolve(i.callee, g.module)
            if h is not None and _writes_field_named(prog, h, field, seen):
                r = True
                break
    _wf_cache[key] = r
    return r


# ---------------------------------------------------------------------------
# facts at a block, on a pruned CFG


def _reach(fn, removed):
    entry = fn.entry
    seen = {entry}
    dq = deque([entry])
    while dq:
        n = dq.popleft()
        for s in n.succs:
            if (n.name, s.name) in removed:
                continue
            if s not in seen:
                seen.add(s)
                dq.append(s)
    return seen


def facts_at(sym, block, removed=frozenset()):
    """(reachable?, facts list, provenance) for conditions holding whenever `block` runs"""
    fn = sym.fn
    base = _reach(fn, removed)
    if block not in base:
        return False, [], []
    facts = []
    prov = []
    for b in fn.blocks.values():
        if b not in base:
            continue
        t = b.term
        if t.op == "br" and len(t.x["targets"]) == 2 and t.ops and t.ops[0].kind == "reg":
            tn, en = t.x["targets"]
            if tn == en:
                continue
            for edge, truth in ((tn, True), (en, False)):
                if (b.name, edge) in removed:
                    continue
                r2 = _reach(fn, removed | {(b.name, edge)})
                if block in r2:
                    continue
                # every path to block takes this edge
                for cmp_, tr in _flatten_cond(fn, t.ops[0], truth):
                    sym.last_ne = None
                    fs = sym.cmp_facts(cmp_, tr)
                    if fs:
                        facts += fs
                        prov.append("%s: %s is %s" % (cmp_.locstr(), _cmp_str(sym, cmp_), tr))
                    elif getattr(sym, "last_ne", None) is not None:
                        sym.ne_facts = getattr(sym, "ne_facts", []) + [(block.name, sym.last_ne)]
                        prov.append("%s: %s is %s" % (cmp_.locstr(), _cmp_str(sym, cmp_), tr))
        elif t.op == "switch":
            v = sym.expr(t.ops[0])
            if v is None:
                continue
            for tgt in t.x["targets"]:
                if (b.name, tgt) in removed:
                    continue
                if tgt == t.x["default"]:
                    continue
                r2 = _reach(fn, removed | {(b.name, tgt)})
                if block in r2:
                    continue
                vals = [cv for cv, l in t.x["cases"] if l == tgt]
                if len(vals) == 1:
                    facts += [v - const(vals[0]), const(vals[0]) - v]
                    prov.append("%s: switch value == %d" % (t.locstr(), vals[0]))
    return True, facts, prov


def _cmp_str(sym, cmp_):
    a, b = sym.expr(cmp_.ops[0]), sym.expr(cmp_.ops[1])
    return "(%r %s %r)" % (a, cmp_.x["pred"], b)


def entails(sym, block, facts, goal):
    """facts (plus the disequalities recorded for `block`, split into their two convex halves) entail goal <= 0"""
    nes = [d for (b, d) in getattr(sym, "ne_facts", []) if b == block.name][:3]
    cases = [[]]
    for d in nes:
        cases = [c + [d + const(1)] for c in cases] + [c + [d.scale(-1) + const(1)] for c in cases]
    neg = goal.scale(-1) + const(1)
    return all(fm_infeasible(facts + c + [neg]) for c in cases)


def _decide(facts, goal_facts):
    """do `facts` entail the conjunction goal (each g <= 0)?  entail iff facts AND (g >= 1) infeasible for each g"""
    for g in goal_facts:
        if not fm_infeasible(facts + [g.scale(-1) + const(1)]):
            return False
    return True


def prune_for_case(sym, case_facts):
    """edges whose branch condition is decided false by case_facts"""
    fn = sym.fn
    removed = set()
    for b in fn.blocks.values():
        t = b.term
        if t.op == "br" and len(t.x["targets"]) == 2 and t.ops and t.ops[0].kind == "reg":
            tn, en = t.x["targets"]
            if tn == en:
                continue
            conds = _flatten_cond(fn, t.ops[0], True)
            if len(conds) != 1:
                continue
            cmp_, tr = conds[0]
            ft = sym.cmp_facts(cmp_, tr)
            ff = sym.cmp_facts(cmp_, not tr)
            atoms = set()
            for x in ft + ff:
                atoms |= x.atoms()
            rf = sym.range_facts(atoms)
            # condition certainly true  <=> its negation is infeasible under the case
            if ff and fm_infeasible(case_facts + rf + ff):
                removed.add((b.name, en))
            elif ft and fm_infeasible(case_facts + rf + ft):
                removed.add((b.name, tn))
    return frozenset(removed)


def split_atoms(sym):
    """atoms compared against 0 with a signed predicate somewhere in the function: candidates for a sign split"""
    out = []
    for i in sym.fn.instrs():
        if i.op == "icmp" and i.x["pred"] in ("slt", "sgt", "sle", "sge"):
            a, b = sym.expr(i.ops[0]), sym.expr(i.ops[1])
            if a is None or b is None:
                continue
            for x, y in ((a, b), (b, a)):
                if y.is_const() and y.k == 0 and len(x.c) == 1 and list(x.c.values())[0] == 1 and x.k == 0:
                    at = list(x.c)[0]
                    if at not in out:
                        out.append(at)
    return out


def sign_cases(at):
    a = atom(at)
    return [("%s < 0" % at, [a + const(1)]), ("%s == 0" % at, [a, a.scale(-1)]), ("%s > 0" % at, [a.scale(-1) + const(1)])]


# ---------------------------------------------------------------------------
# obligations


def prove_at(prog, fn, instr, goals, what, sym=None):
    """goals: list of (description, Lin g) each meaning g <= 0 must hold at instr.  Returns Result."""
    sym = sym or Sym(prog, fn)
    block = instr.block
    splits = split_atoms(sym)[:2]
    case_lists = [sign_cases(a) for a in splits] or [[("", [])]]
    undecided = []
    used = []
    ncases = 0
    for combo in product(*case_lists):
        cname = " and ".join(c[0] for c in combo if c[0])
        cfacts = [f for c in combo for f in c[1]]
        removed = prune_for_case(sym, cfacts) if cfacts else frozenset()
        ok, facts, prov = facts_at(sym, block, removed)
        if not ok:
            continue
        ncases += 1
        for desc, g in goals:
            atoms = set(g.atoms())
            allf = cfacts + facts
            for x in allf:
                atoms |= x.atoms()
            rf = sym.range_facts(atoms)
            if entails(sym, block, allf + rf, g):
                used.append({"case": cname or "(no split)", "goal": desc, "facts": prov})
                continue
            # try to refute with a boundary witness
            w = _witness(sym, block, allf + rf, g, atoms, removed)
            if w is not None:
                return Result("REFUTED", "%s can be violated: %s with %s" % (what, desc, _fmt_env(w)),
                              {"case": cname, "witness": {k: str(v) for k, v in w.items()}, "facts": prov, "goal": desc})
            undecided.append((cname, desc))
    if undecided:
        return Result("UNDECIDED", "%s: not derivable from dominating guards in case(s) %s" % (what, undecided[:3]),
                      {"undecided": ["%s: %s" % u for u in undecided]})
    return Result("PROVEN", "%s holds in all %d sign cases (linear facts from dominating guards)" % (what, ncases),
                  {"proofs": used[:6]})


def _fmt_env(w):
    out = []
    for k, v in sorted(w.items()):
        s = str(v)
        for n in (31, 32, 63, 64):
            if v == -(1 << n):
                s = "-2^%d" % n
            elif v == (1 << n) - 1:
                s = "2^%d-1" % n
            elif v == (1 << n):
                s = "2^%d" % n
        out.append("%s = %s" % (k, s))
    return ", ".join(out)


def _witness(sym, block, facts, goal, atoms, removed):
    atoms = sorted(atoms)
    if len(atoms) > 4:
        return None
    cands = {}
    for a in atoms:
        c = {-1, 0, 1}
        t = sym.atom_type.get(a)
        r = type_range(t) if t else None
        inv = getattr(sym, "invariants", {}).get(a.split("@")[0])
        if r and inv:
            r = (max(r[0], inv[0]), min(r[1], inv[1]))
        if r:
            c |= {r[0], r[1], r[0] + 1, r[1] - 1}
        for f in facts + [goal]:
            if a in f.c and len(f.c) == 1:
                # a*coef + k <= 0  -> boundary at -k/coef
                bnd = Fraction(-f.k, f.c[a])
                if bnd.denominator == 1:
                    c |= {int(bnd) - 1, int(bnd), int(bnd) + 1}
        if r:
            c = {x for x in c if r[0] <= x <= r[1]}
        cands[a] = sorted(c)
    for vals in product(*[cands[a] for a in atoms]):
        env = dict(zip(atoms, vals))
        if goal.eval(env) <= 0:
            continue
        if all(f.eval(env) <= 0 for f in facts):
            if _reaches(sym, block, env, removed):
                return env
    return None


def _bits(t):
    return int(t[1:]) if t.startswith("i") and t[1:].isdigit() else (64 if t.endswith("*") else None)


def _signed(v, bits):
    v %= (1 << bits)
    return v - (1 << bits) if v >= (1 << (bits - 1)) else v


def concrete(sym, v, env, depth=0):
    """value of SSA operand v under an assignment of atoms (two's-complement, signed view); None if unknown"""
    if v.kind == "int":
        return v.v
    if v.kind == "null":
        return 0
    if v.kind != "reg" or depth > 30:
        return None
    e = sym.expr(v)
    if e is not None and e.atoms() <= set(env):
        bits = _bits(v.type)
        val = e.eval(env)
        return _signed(val, bits) if bits else val
    d = sym.fn.defs.get(v.v)
    if d is None:
        return None
    bits = _bits(d.type) if d.type else None
    if d.op in ("add", "sub", "mul", "and", "or", "xor", "shl", "lshr", "ashr"):
        a, b = concrete(sym, d.ops[0], env, depth + 1), concrete(sym, d.ops[1], env, depth + 1)
        if a is None or b is None or bits is None:
            return None
        ua, ub = a % (1 << bits), b % (1 << bits)
        r = {"add": ua + ub, "sub": ua - ub, "mul": ua * ub, "and": ua & ub, "or": ua | ub, "xor": ua ^ ub,
             "shl": ua << (ub % bits), "lshr": ua >> (ub % bits), "ashr": a >> (ub % bits)}[d.op]
        return _signed(r, bits)
    if d.op in ("sext", "bitcast"):
        return concrete(sym, d.ops[0], env, depth + 1)
    if d.op == "zext":
        a = concrete(sym, d.ops[0], env, depth + 1)
        sb = _bits(d.ops[0].type)
        return None if a is None or sb is None else a % (1 << sb)
    if d.op == "trunc":
        a = concrete(sym, d.ops[0], env, depth + 1)
        return None if a is None or bits is None else _signed(a, bits)
    return None


def _reaches(sym, block, env, removed):
    """is `block` reachable when every branch whose condition is determined by env follows env?
    (branches on other, independent locations are left free)"""
    from .own import _icmp
    fn = sym.fn
    rem = set(removed)
    for b in fn.blocks.values():
        t = b.term
        if t.op == "br" and len(t.x["targets"]) == 2 and t.ops and t.ops[0].kind == "reg":
            tn, en = t.x["targets"]
            conds = _flatten_cond(fn, t.ops[0], True)
            if len(conds) != 1:
                continue
            cmp_, tr = conds[0]
            if cmp_.op != "icmp":
                continue
            va, vb = concrete(sym, cmp_.ops[0], env), concrete(sym, cmp_.ops[1], env)
            if va is None or vb is None:
                continue
            pred = cmp_.x["pred"]
            if pred[0] == "u":
                bits = _bits(cmp_.ops[0].type) or 64
                va, vb = va % (1 << bits), vb % (1 << bits)
                pred = {"ult": "slt", "ule": "sle", "ugt": "sgt", "uge": "sge"}[pred]
            holds = _icmp(pred, va, vb)
            cond_true = (holds == tr)
            rem.add((b.name, en if cond_true else tn))
        elif t.op == "switch":
            va = concrete(sym, t.ops[0], env)
            if va is None:
                continue
            tgt = t.x["default"]
            for cv, lab in t.x["cases"]:
                if cv == va:
                    tgt = lab
            for lab in t.x["targets"]:
                if lab != tgt:
                    rem.add((b.name, lab))
    return block in _reach(fn, rem)


def check_nsw(prog, fn, instr, invariants=None):
    """invariants: optional {atom name: (lo, hi)} data invariants assumed for the atoms (e.g. a size field is positive)"""
    sym = Sym(prog, fn)
    sym.invariants = dict(invariants or {})
    a, b = sym.expr(instr.ops[0]), sym.expr(instr.ops[1])
    if a is None or b is None:
        return Result("UNDECIDED", "operands not linear")
    lo, hi = type_range(instr.type)
    if instr.op == "add":
        e = a + b
    elif instr.op == "sub":
        e = a - b
    else:
        if a.is_const():
            e = b.scale(a.k)
        elif b.is_const():
            e = a.scale(b.k)
        else:
            return Result("UNDECIDED", "non-linear multiplication")
    goals = [("%r <= %d" % (e, hi), e + const(-hi)), ("%r >= %d" % (e, lo), e.scale(-1) + const(lo))]
    return prove_at(prog, fn, instr, goals, "no signed overflow in %s nsw" % instr.op, sym)


def describe(prog, fn, instr):
    sym = Sym(prog, fn)
    a, b = sym.expr(instr.ops[0]), sym.expr(instr.ops[1])
    return "%r, %r" % (a, b)
