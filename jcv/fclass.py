"""Exact forward analysis of one double-valued location against constant comparisons.

The doubles are partitioned into classes that no comparison in the function can split: NaN, -inf, +inf, -0.0, +0.0, each
finite constant the location is compared with (and its negation), and the open intervals between neighbouring constants.
Every branch condition that is a function of the location alone (fcmp against constants, fabs, sign bit via bitcast,
select / and / or / xor / zext of those) is evaluated on one representative per class, which is exact because the
classes are homogeneous for every such condition.  The result is, per block, the set of classes the location may be in
on entry (union over paths).  Conditions that depend on anything else give no refinement (sound).
"""
import math
import struct

from .flow import Paths

NAN, NINF, PINF = "NaN", "-inf", "+inf"


class Unknown(Exception):
    pass


def _float_consts(f):
    ks = set()
    for i in f.instrs():
        if i.op == "fcmp":
            for o in i.ops:
                if o.kind == "float" and o.v is not None and not math.isnan(o.v) and not math.isinf(o.v):
                    ks.add(abs(float(o.v)))
    return ks


def classes(f):
    """list of (name, representative double)"""
    ks = sorted(k for k in _float_consts(f) if k > 0.0)
    pts = [-k for k in reversed(ks)] + ks
    out = [(NAN, math.nan), (NINF, -math.inf), (PINF, math.inf), ("-0", -0.0), ("+0", 0.0)]
    bounds = sorted(set(pts))
    neg = [b for b in bounds if b < 0]
    pos = [b for b in bounds if b > 0]
    DMAX = 1.7976931348623157e308

    def between(a, b, label):
        # open interval (a, b) of finite doubles; empty when b is the successor of a
        lo = math.nextafter(a, math.inf) if not math.isinf(a) else -DMAX
        hi = math.nextafter(b, -math.inf) if not math.isinf(b) else DMAX
        if a == -math.inf and lo == b:
            return
        if lo > hi or lo >= b or hi <= a:
            return
        rep = lo if lo != 0.0 else hi
        # prefer a representative strictly inside and far from the ends when possible
        mid = a / 2 + b / 2 if not (math.isinf(a) or math.isinf(b)) else (lo if math.isinf(b) is False else hi)
        if a < mid < b and mid != 0.0:
            rep = mid
        out.append((label, rep))

    chain = [-math.inf] + neg + [0.0]
    for a, b in zip(chain, chain[1:]):
        between(a, b, "(%r, %r)" % (a, b))
    chain = [0.0] + pos + [math.inf]
    for a, b in zip(chain, chain[1:]):
        between(a, b, "(%r, %r)" % (a, b))
    for b in bounds:
        out.append(("%r" % b, b))
    return out


def is_finite_class(name):
    return name not in (NAN, NINF, PINF)


def _fcmp(pred, a, b):
    un = math.isnan(a) or math.isnan(b)
    if pred == "uno":
        return un
    if pred == "ord":
        return not un
    if pred == "true":
        return True
    if pred == "false":
        return False
    base = pred[1:]
    if un:
        return pred[0] == "u"
    return {"eq": a == b, "ne": a != b, "gt": a > b, "ge": a >= b, "lt": a < b, "le": a <= b}[base]


def _icmp(pred, a, b, bits):
    m = (1 << bits) - 1
    ua, ub = a & m, b & m
    sa = ua - (1 << bits) if ua >> (bits - 1) else ua
    sb = ub - (1 << bits) if ub >> (bits - 1) else ub
    return {"eq": ua == ub, "ne": ua != ub, "ugt": ua > ub, "uge": ua >= ub, "ult": ua < ub, "ule": ua <= ub,
            "sgt": sa > sb, "sge": sa >= sb, "slt": sa < sb, "sle": sa <= sb}[pred]


class Eval:
    def __init__(self, f, P, vpath):
        self.f, self.P, self.vpath = f, P, vpath

    def ev(self, v, x, depth=0):
        """value of SSA operand v when the location holds x; ('f', float) / ('i', int, bits) / raises Unknown"""
        if depth > 40:
            raise Unknown()
        if v.kind == "float":
            if v.v is None:
                raise Unknown()
            return ("f", float(v.v))
        if v.kind == "int":
            return ("i", int(v.v), int(v.type[1:]) if v.type and v.type[0] == "i" and v.type[1:].isdigit() else 64)
        if v.kind != "reg":
            raise Unknown()
        d = self.f.defs.get(v.v)
        if d is None:
            raise Unknown()
        if d.op == "load":
            if self.P.path(d.ops[0]) == self.vpath and d.type == "double":
                return ("f", x)
            raise Unknown()
        if d.op == "call" and d.callee in ("llvm.fabs.f64", "fabs"):
            a = self.ev(d.ops[0], x, depth + 1)
            return ("f", abs(a[1]))
        if d.op == "fneg":
            a = self.ev(d.ops[0], x, depth + 1)
            return ("f", -a[1])
        if d.op == "bitcast" and d.type == "i64":
            a = self.ev(d.ops[0], x, depth + 1)
            if a[0] != "f":
                raise Unknown()
            return ("signbits", struct.unpack("<q", struct.pack("<d", a[1]))[0], 64)
        if d.op == "fcmp":
            a = self.ev(d.ops[0], x, depth + 1)
            b = self.ev(d.ops[1], x, depth + 1)
            return ("i", 1 if _fcmp(d.x["pred"], a[1], b[1]) else 0, 1)
        if d.op == "icmp":
            a = self.ev(d.ops[0], x, depth + 1)
            b = self.ev(d.ops[1], x, depth + 1)
            if a[0] == "signbits" or b[0] == "signbits":
                # only the sign of the bit pattern is class-homogeneous
                other = b if a[0] == "signbits" else a
                if other[0] != "i" or other[1] != 0 or d.x["pred"] not in ("slt", "sge", "sgt", "sle"):
                    raise Unknown()
            return ("i", 1 if _icmp(d.x["pred"], a[1], b[1], a[2]) else 0, 1)
        if d.op == "select":
            c = self.ev(d.ops[0], x, depth + 1)
            return self.ev(d.ops[1] if c[1] else d.ops[2], x, depth + 1)
        if d.op in ("zext", "sext", "trunc"):
            a = self.ev(d.ops[0], x, depth + 1)
            if a[0] != "i":
                raise Unknown()
            bits = int(d.type[1:])
            val = a[1]
            if d.op == "sext" and a[2] == 1 and val:
                val = -1
            return ("i", val & ((1 << bits) - 1), bits)
        if d.op in ("and", "or", "xor"):
            a = self.ev(d.ops[0], x, depth + 1)
            b = self.ev(d.ops[1], x, depth + 1)
            if a[0] != "i" or b[0] != "i":
                raise Unknown()
            r = {"and": a[1] & b[1], "or": a[1] | b[1], "xor": a[1] ^ b[1]}[d.op]
            return ("i", r & ((1 << a[2]) - 1), a[2])
        if d.op == "phi":
            raise Unknown()
        raise Unknown()


def analyse(f, prog, vpath, written_check=True):
    """block -> frozenset of class names the location may be in on entry; None for unreachable blocks"""
    P = Paths(f, prog)
    cls = classes(f)
    E = Eval(f, P, vpath)
    state = {f.entry: frozenset(n for n, _ in cls)}
    edges = {}
    rep = dict(cls)
    work = [f.entry]
    used = set()
    while work:
        b = work.pop()
        st = state[b]
        t = b.term
        outs = []
        if t.op == "br" and len(t.x["targets"]) == 2 and t.ops and t.x["targets"][0] != t.x["targets"][1]:
            tset, fset = set(), set()
            for n in st:
                try:
                    c = E.ev(t.ops[0], rep[n])
                    (tset if c[1] else fset).add(n)
                    used.add(t.locstr())
                except Unknown:
                    tset.add(n)
                    fset.add(n)
            outs = [(f.blocks[t.x["targets"][0]], frozenset(tset)), (f.blocks[t.x["targets"][1]], frozenset(fset))]
        else:
            outs = [(s_, st) for s_ in b.succs]
        for nb, s2 in outs:
            edges[(b.name, nb.name)] = edges.get((b.name, nb.name), frozenset()) | s2
            if not s2:
                continue
            old = state.get(nb)
            new = s2 if old is None else (old | s2)
            if old is None or new != old:
                state[nb] = new
                work.append(nb)
    analyse.last_edges = edges
    return state, cls, sorted(used)
