"""E2: ownership / pairing typestate over the CFG.

A *resource* is one acquisition site in one function (a call whose result - or out-parameter -
is an owned allocation / reference / handle).  A forward may-analysis tracks, per program point,
the set of states the resource can be in:

   'N'            not acquired yet / nothing to release (also: known NULL)
   'O'            owned by this function: must be released or handed over before returning
   'D'            done: released, returned, stored into a longer-lived structure, consumed
   ('P', c)       handed to consume-on-success call c whose result has not been examined yet
   ('F', s)       stored into a field of local resource s (field-owned): dies with a deep release or a
                  hand-over of s; a shallow free(s) while in this state leaks it

Refinement happens only on the two idioms the code base uses: a branch on the resource's own
null-ness and a branch on the result of the acquiring / consuming call.
"""
from collections import deque

from .cfg import cfg_of
from .flow import Paths, derived_values, identity_param
from .ir import strip_casts

# ---------------------------------------------------------------------------
# contracts (cross-checked by C05.R3, which verifies the consuming functions' bodies)

# success predicates are given as the set of representative return values
EQ0 = {"ok": [0], "fail": [-1]}
GE0 = {"ok": [0, 1], "fail": [-1]}
NONNULL = {"ok": [1], "fail": [0]}
ALWAYS = {"ok": [-1, 0, 1], "fail": []}      # the out slot may hold a new resource whatever the call returns

# function -> {param index: contract}; contract kinds: release | consume(pred) | borrow
RELEASERS = {
    "free": 0, "printbuf_free": 0, "json_object_put": 0, "lh_table_free": 0, "array_list_free": 0,
    "json_tokener_free": 0, "freelocale": 0, "close": 0, "json_object_generic_delete": 0,
}
# shallow releasers free only the block itself, not what its fields own
SHALLOW = {"free"}

CONSUMERS = {
    "json_object_array_add": {1: EQ0},
    "json_object_array_put_idx": {2: EQ0},
    "json_object_array_insert_idx": {2: EQ0},
    "json_object_object_add": {2: EQ0},
    "json_object_object_add_ex": {2: EQ0},
    "array_list_add": {1: EQ0},
    "array_list_put_idx": {2: EQ0},
    "array_list_insert_idx": {2: EQ0},
    "lh_table_insert": {1: EQ0, 2: EQ0},
    "lh_table_insert_w_hash": {1: EQ0, 2: EQ0},
    "json_pointer_set": {2: EQ0},
    "json_pointer_set_with_array_cb": {2: EQ0},
    "json_pointer_set_with_cb": {2: EQ0},
    "json_pointer_setf": {1: EQ0},
    "json_pointer_set_single_path": {2: EQ0},
    "json_pointer_object_set_single_path": {2: EQ0},
    "json_object_array_put_with_idx_increment_cb": {2: EQ0},
    "json_object_array_insert_idx_cb": {2: EQ0},
    "json_patch_apply_add_replace": {},
    "newlocale": {2: NONNULL},
    "realloc": {0: NONNULL},
}

# acquirers: result is an owned resource; failure value of the result
ACQ_RET = {
    "malloc": "null", "calloc": "null", "realloc": "null", "strdup": "null", "strndup": "null",
    "printbuf_new": "null", "json_tokener_new": "null", "json_tokener_new_ex": "null",
    "lh_table_new": "null", "lh_kchar_table_new": "null", "lh_kptr_table_new": "null",
    "array_list_new": "null", "array_list_new2": "null",
    "json_object_new_object": "null", "json_object_new_array": "null", "json_object_new_array_ext": "null",
    "json_object_new_string": "null", "json_object_new_string_len": "null", "json_object_new_int": "null",
    "json_object_new_int64": "null", "json_object_new_uint64": "null", "json_object_new_double": "null",
    "json_object_new_double_s": "null", "json_object_new_boolean": "null", "json_object_new_null": "null",
    "json_object_get": "null",
    "json_tokener_parse": "null", "json_tokener_parse_verbose": "null",
    "json_object_from_fd": "null", "json_object_from_fd_ex": "null", "json_object_from_file": "null",
    "duplocale": "null", "newlocale": "null",
    "open": "neg",
    "json_object_new": "null", "_json_object_new_string": "null",
}
# out-parameter acquirers: (param index of the out pointer, success predicate on the result)
ACQ_OUT = {
    "vasprintf": (0, GE0),
    "json_object_deep_copy": (1, EQ0),
    # the shallow-copy callback stores the new node through dst before the children are copied, so a failed recursive copy
    # leaves a partially built node in the caller's slot (json_object_deep_copy itself releases *dst on failure)
    "json_object_deep_copy_recursive": (4, ALWAYS),
}

# functions that never retain or release their pointer arguments (besides libc string/memory functions)
NOCAPTURE_PREFIX = ("llvm.", "str", "mem", "snprintf", "vsnprintf", "printf", "fprintf", "sprintf", "__errno",
                    "strerror", "isnan", "isinf", "read", "write", "fstat", "uselocale", "setlocale")


class Problem:
    def __init__(self, kind, instr, msg, path=None):
        self.kind = kind
        self.instr = instr
        self.msg = msg
        self.path = path or []


class Resource:
    def __init__(self, fn, acq, kind, label):
        self.fn = fn
        self.acq = acq          # acquiring instr (None for parameters)
        self.kind = kind        # 'ret' | 'out' | 'param'
        self.label = label
        self.regs = set()
        self.paths = set()
        self.fail = "null"
        self.out_pred = None
        self.path_stores = {}


def _close_identity(fn, P, res):
    """flow-insensitive closure of the registers / memory paths that carry the resource"""
    changed = True
    instrs = list(fn.instrs())
    while changed:
        changed = False
        for r in list(res.regs):
            regs, _ = derived_values(fn, r)
            if not regs <= res.regs:
                res.regs |= regs
                changed = True
        for i in instrs:
            if i.op == "getelementptr" and i.res not in res.regs and i.ops[0].kind == "reg" \
                    and i.ops[0].v in res.regs and all(o.kind == "int" and o.v == 0 for o in i.ops[1:]):
                res.regs.add(i.res)      # address of the first member == the object itself
                changed = True
            if i.op == "call" and i.res is not None and i.res not in res.regs and i.callee:
                g = P.prog.resolve(i.callee, fn.module) if P.prog is not None else None
                k = identity_param(g) if g is not None else None
                if k is not None and k < len(i.ops) and i.ops[k].kind == "reg" and i.ops[k].v in res.regs:
                    res.regs.add(i.res)
                    changed = True
            if i.op == "store" and i.ops[0].kind == "reg" and i.ops[0].v in res.regs:
                p = P.path(i.ops[1])
                if p not in res.paths:
                    res.paths.add(p)
                    changed = True
                res.path_stores.setdefault(p, []).append(i)
            elif i.op == "load" and i.res not in res.regs:
                p = P.path(i.ops[0])
                if p in res.paths and _loadable_alias(fn, i, res, p):
                    res.regs.add(i.res)
                    changed = True


def _loadable_alias(fn, load, res, p):
    """a load of location p carries the resource only if a store of the resource to p can reach it (paths named by the
    acquisition itself, e.g. an out-parameter slot, always qualify)"""
    stores = res.path_stores.get(p)
    if not stores:
        return True
    cfg = cfg_of(fn)
    for s in stores:
        if s.block is load.block:
            if s.idx < load.idx:
                return True
            # same block, store later: reachable only around a loop
            if load.block in cfg.reachable_from(s.block) and any(load.block in cfg.reachable_from(x) for x in s.block.succs):
                return True
        elif load.block in cfg.reachable_from(s.block):
            return True
    return False


def is_res(res, v):
    v = strip_casts(v) if v.kind == "cexpr" else v
    return v.kind == "reg" and v.v in res.regs


class Engine:
    def __init__(self, prog, fn, resources_all=None):
        self.prog = prog
        self.fn = fn
        self.cfg = cfg_of(fn)
        self.P = Paths(fn, prog)

    # ---- identification of acquisition sites ------------------------------
    def acquisitions(self, acq_ret=ACQ_RET, acq_out=ACQ_OUT):
        out = []
        for i in self.fn.instrs():
            if i.op != "call" or i.callee is None:
                continue
            nm = i.callee
            if nm in acq_ret and i.res is not None:
                r = Resource(self.fn, i, "ret", "%s result" % nm)
                r.regs.add(i.res)
                r.fail = acq_ret[nm]
                if nm == "json_object_get" and i.ops:
                    a = i.ops[0]
                    if a.kind == "reg":
                        # the reference is on the node the argument names: same pointer
                        d = self.fn.defs.get(a.v)
                        if d is not None and d.op == "load":
                            r.paths.add(self.P.path(d.ops[0]))
                        else:
                            r.regs.add(a.v)
                _close_identity(self.fn, self.P, r)
                out.append(r)
            if nm in acq_out:
                k, pred = acq_out[nm]
                if k < len(i.ops) and self._is_local_slot(i.ops[k]):
                    r = Resource(self.fn, i, "out", "%s out-parameter %d" % (nm, k))
                    r.paths.add(self.P.path(i.ops[k]))
                    r.out_pred = pred
                    _close_identity(self.fn, self.P, r)
                    out.append(r)
        return out

    def param_resource(self, k):
        t, nm = self.fn.params[k]
        r = Resource(self.fn, None, "param", "parameter %s" % nm)
        r.regs.add(nm)
        _close_identity(self.fn, self.P, r)
        return r

    # ---- the dataflow --------------------------------------------------------
    def run(self, res, others=(), init=None, assume_owned_at=None):
        """returns (problems, exit_states) ; exit_states: list of (ret instr, pred block or None, state)"""
        fn = self.fn
        problems = []
        instate = {}
        entry = fn.entry
        init = frozenset(init if init is not None else (["O"] if res.kind == "param" else ["N"]))
        instate[entry] = init
        work = deque([entry])
        outedge = {}
        seen_problem = set()
        self._assume_owned_at = assume_owned_at

        def report(kind, instr, msg):
            k = (kind, id(instr))
            if k not in seen_problem:
                seen_problem.add(k)
                problems.append(Problem(kind, instr, msg))

        while work:
            b = work.popleft()
            st = instate[b]
            for i in b.instrs[:-1]:
                st = self.transfer(res, others, i, st, report)
            term = b.term
            if term.op == "ret":
                st2 = st
                if term.ops and is_res(res, term.ops[0]):
                    st2 = frozenset(self._map(st, {"O": "D", "F": "D", "P": "D"}))
                outedge[(b, None)] = st2
                continue
            for s in b.succs:
                es = self.refine(res, term, b, s, st)
                if es is None or not es:
                    continue
                outedge[(b, s)] = es
                old = instate.get(s)
                new = es if old is None else (old | es)
                if new != old:
                    instate[s] = new
                    if s not in work:
                        work.append(s)
        exits = []
        for (b, s), st in outedge.items():
            if s is None:
                exits.append((b.term, st))
        self.instate = instate
        self.outedge = outedge
        return problems, exits

    def run_by_return_value(self, res):
        """[(return operand for that edge, state, ret instr)]: the state with which each value reaches the function's return"""
        self.run(res, (), init=["O"])
        fn = self.fn
        out = []
        for b in fn.blocks.values():
            t = b.term
            if t.op != "ret":
                continue
            v = t.ops[0] if t.ops else None
            d = fn.defs.get(v.v) if v is not None and v.kind == "reg" else None
            if d is not None and d.op == "phi" and d.block is b and all(i.op in ("phi", "ret") for i in b.instrs):
                for val, lab in d.x["incoming"]:
                    st = self.outedge.get((fn.blocks[lab], b))
                    if st:
                        out.append((val, st, t))
            else:
                st = self.outedge.get((b, None))
                if st:
                    out.append((v, st, t))
        return out

    @staticmethod
    def _map(st, m):
        out = set()
        for t in st:
            k = t if isinstance(t, str) else t[0]
            if k in m:
                out.add(m[k])
            else:
                out.add(t)
        return out

    # ---- transfer ------------------------------------------------------------
    def transfer(self, res, others, i, st, report):
        fn = self.fn
        if i is res.acq and getattr(self, "_assume_owned_at", None) is not None:
            return frozenset(["N"])
        if i is getattr(self, "_assume_owned_at", None):
            st = frozenset(["O"])
        if i is res.acq:
            if "O" in st:
                report("overwrite", i, "resource acquired again while the previous instance is still owned")
            if res.kind == "ret":
                return frozenset(["O"])
            if res.out_pred is ALWAYS:
                return frozenset(["O"])
            return frozenset([("A", i.res)])  # out-param: acquired iff call result says success
        if i.op == "store":
            if is_res(res, i.ops[0]):
                dst = i.ops[1]
                owner = self._owner_of_address(dst, others, res)
                live = any((t == "O") for t in st)
                if owner is not None:
                    return frozenset(self._map(st, {"O": ("F", id(owner))}))
                if self._is_local_slot(dst):
                    return st   # stays owned; the slot is an alias (already in res.paths)
                return frozenset(self._map(st, {"O": "D", "P": "D"}))
            # overwriting a slot/field that holds the resource while owned? only for out-param slots
            return st
        if i.op != "call":
            return st
        nm = i.callee
        argidx = [k for k, a in enumerate(i.ops) if is_res(res, a)]
        # events on a field-owner
        fowners = [t for t in st if isinstance(t, tuple) and t[0] == "F"]
        if fowners:
            for o in others:
                if ("F", id(o)) in st:
                    oidx = [k for k, a in enumerate(i.ops) if is_res(o, a)]
                    if oidx and nm in RELEASERS and RELEASERS[nm] in oidx:
                        if nm in SHALLOW:
                            # the owner's block is gone; the resource is now reachable only through local copies of
                            # the pointer (if any): owned by this function again, a leak unless released before return
                            st = frozenset(("O" if t == ("F", id(o)) else t) for t in st)
                            self.orphaned_at = i
                        else:
                            st = frozenset(t for t in st if t != ("F", id(o))) | frozenset(["D"])
        if not argidx:
            return st
        if nm in RELEASERS and RELEASERS[nm] in argidx:
            if "D" in st and res.kind != "param" and nm != "json_object_put":
                pass  # possible double release: only reported by the dedicated rule (needs must-analysis)
            return frozenset(self._map(st, {"O": "D", "F": "D", "P": "D", "N": "N"}))
        if nm in CONSUMERS:
            for k in argidx:
                pred = CONSUMERS[nm].get(k)
                if pred is not None:
                    if i.res is None:
                        return frozenset(self._map(st, {"O": "D"}))
                    return frozenset((("P", i.res) if t == "O" else t) for t in st)
            return st
        if nm is None:
            # indirect call: callbacks (free_fn etc.) take ownership of what they are given
            c = i.x.get("callee")
            cp = self.P.path(c) if c is not None else ""
            consumed = None
            if cp.endswith("free_fn"):
                consumed = 0
            elif cp.endswith("_user_delete"):
                consumed = 1
            if consumed is not None and consumed in argidx:
                return frozenset(self._map(st, {"O": "D", "F": "D"}))
            return st
        g = self.prog.resolve(nm, fn.module)
        if g is None:
            return st  # external: libc table says non-capturing unless listed above
        # library function not in the tables: use its derived summary
        summ = capture_summary(self.prog, g)
        for k in argidx:
            s = summ.get(k, "borrow")
            if s == "capture":
                return frozenset(self._map(st, {"O": "D", "F": "D"}))
            if s == "maybe":
                return frozenset(self._map(st, {"O": ("M", nm)}))
        return st

    def _is_local_slot(self, dst):
        dst = strip_casts(dst) if dst.kind == "cexpr" else dst
        if dst.kind != "reg":
            return False
        d = self.fn.defs.get(dst.v)
        while d is not None and d.op == "bitcast" and d.ops[0].kind == "reg":
            d = self.fn.defs.get(d.ops[0].v)
        return d is not None and d.op == "alloca"

    def _owner_of_address(self, dst, others, res):
        """if dst is the address of a field of another local resource, return that resource"""
        dst = strip_casts(dst) if dst.kind == "cexpr" else dst
        if dst.kind != "reg":
            return None
        d = self.fn.defs.get(dst.v)
        hops = 0
        while d is not None and hops < 8:
            hops += 1
            if d.op in ("getelementptr", "bitcast"):
                b = d.ops[0]
                if b.kind != "reg":
                    return None
                for o in others:
                    if o is not res and b.v in o.regs:
                        return o
                d = self.fn.defs.get(b.v)
            elif d.op == "call" and d.callee:
                # identity helper
                from .flow import identity_param
                g = self.prog.resolve(d.callee, self.fn.module)
                k = identity_param(g) if g is not None else None
                if k is None:
                    return None
                b = d.ops[k]
                if b.kind != "reg":
                    return None
                for o in others:
                    if o is not res and b.v in o.regs:
                        return o
                d = self.fn.defs.get(b.v)
            else:
                return None
        return None

    # ---- edge refinement ---------------------------------------------------------
    def refine(self, res, term, b, succ, st):
        if term.op == "br" and len(term.x["targets"]) == 2 and term.ops:
            c = term.ops[0]
            tname, fname = term.x["targets"]
            if tname == fname:
                return st
            taken = (succ.name == tname)
            return self._refine_cond(res, c, taken, st, 0)
        if term.op == "switch":
            v = term.ops[0]
            if v.kind == "reg":
                vals = None
                if succ.name != term.x["default"] or True:
                    cases = [cv for cv, lab in term.x["cases"] if lab == succ.name]
                    is_default = succ.name == term.x["default"]
                    allcases = [cv for cv, _ in term.x["cases"]]

                    def sat(x):
                        return (x in cases) or (is_default and x not in allcases)
                    return self._refine_callres(res, v.v, sat, st)
        return st

    def _is_static_address(self, v, depth=0):
        """v is the address of (part of) a local variable or a global object"""
        v = strip_casts(v) if v.kind == "cexpr" else v
        if v.kind == "global":
            return True
        if v.kind == "cexpr" and v.v == "getelementptr" and v.args:
            return self._is_static_address(v.args[0], depth + 1)
        if v.kind != "reg" or depth > 6:
            return False
        d = self.fn.defs.get(v.v)
        if d is None:
            return False
        if d.op == "alloca":
            return True
        if d.op in ("bitcast", "getelementptr") and d.ops:
            return self._is_static_address(d.ops[0], depth + 1)
        return False

    def _same_pure(self, a, b, depth=0):
        """two values are the same pure expression (same register / constant, or the same operation on same operands)"""
        if a.kind != b.kind:
            return False
        if a.kind == "int":
            return a.v == b.v
        if a.kind == "null":
            return True
        if a.kind != "reg":
            return False
        if a.v == b.v:
            return True
        if depth > 4:
            return False
        da, db = self.fn.defs.get(a.v), self.fn.defs.get(b.v)
        if da is None or db is None or da.op != db.op or da.op not in ("and", "or", "xor", "icmp", "zext", "sext", "trunc", "add", "sub"):
            return False
        if da.op == "icmp" and da.x["pred"] != db.x["pred"]:
            return False
        return len(da.ops) == len(db.ops) and all(self._same_pure(x, y, depth + 1) for x, y in zip(da.ops, db.ops))

    def _contradicts_acquisition(self, res, c, taken):
        """the edge (condition c, direction taken) cannot be followed by a run that performed the acquisition: a condition that
        dominates the acquiring instruction is the same pure comparison with the opposite outcome"""
        if res.acq is None:
            return False
        dom = getattr(res, "_dom_conds", None)
        if dom is None:
            from .flow import dominating_conditions
            dom = [(cm, tr) for cm, tr in dominating_conditions(self.fn, res.acq.block) if getattr(cm, "op", None) == "icmp" and isinstance(tr, bool)]
            res._dom_conds = dom
        if not dom:
            return False
        from .flow import _flatten_cond
        for cm, tr in _flatten_cond(self.fn, c, taken):
            if getattr(cm, "op", None) != "icmp":
                continue
            for dm, dt in dom:
                if dm.x["pred"] == cm.x["pred"] and all(self._same_pure(x, y) for x, y in zip(dm.ops, cm.ops)) and dt != tr:
                    return True
        return False

    def _refine_cond(self, res, c, taken, st, depth):
        fn = self.fn
        if depth == 0 and c.kind == "reg" and self._contradicts_acquisition(res, c, taken):
            # the resource exists only on runs where this very test had the other outcome
            return frozenset(t for t in st if (t if isinstance(t, str) else t[0]) not in ("O", "F", "P", "M"))
        if c.kind == "int":
            return st if bool(c.v) == taken else frozenset()
        if c.kind != "reg" or depth > 4:
            return st
        d = fn.defs.get(c.v)
        if d is None:
            return st
        if d.op == "xor" and d.ops[1].kind == "int" and d.ops[1].v in (1, -1, True):
            return self._refine_cond(res, d.ops[0], not taken, st, depth + 1)
        if d.op in ("zext", "sext", "trunc") and d.ops[0].kind == "reg":
            return self._refine_cond(res, d.ops[0], taken, st, depth + 1)
        if d.op == "phi":
            # a flag with a single source on this (jump-threaded) path is that source; otherwise refine nothing
            inc = [v for v, lab in d.x["incoming"]]
            if len(inc) == 1:
                return self._refine_cond(res, inc[0], taken, st, depth + 1)
            return st
        if d.op != "icmp":
            return st
        a, bb = d.ops
        pred = d.x["pred"]
        # a materialised boolean tested against 0 / 1: `(x < 0) != 0`
        if pred in ("eq", "ne"):
            for x, y in ((a, bb), (bb, a)):
                if y.kind == "int" and y.v in (0, 1) and x.kind == "reg":
                    xd = fn.defs.get(x.v)
                    hops = 0
                    while xd is not None and xd.op in ("zext", "sext", "trunc") and xd.ops[0].kind == "reg" and hops < 4:
                        x = xd.ops[0]
                        xd = fn.defs.get(x.v)
                        hops += 1
                    if xd is not None and (xd.op == "icmp" or (xd.op == "phi" and len(xd.x["incoming"]) == 1)) and hops > 0 or \
                            (xd is not None and xd.op == "phi" and len(xd.x["incoming"]) == 1 and xd.type == "i32"):
                        same = (pred == "ne") == (y.v == 0)
                        return self._refine_cond(res, x, taken if same else not taken, st, depth + 1)
        # a block from the allocator is never the address of a local or of a global: `if (p != stackbuf) free(p)`
        if pred in ("eq", "ne") and res.fail != "neg":
            for x, y in ((a, bb), (bb, a)):
                if is_res(res, x) and self._is_static_address(y):
                    equal_edge = (pred == "eq") == taken
                    if equal_edge:
                        return frozenset(t for t in st if (t if isinstance(t, str) else t[0]) not in ("O", "F", "P", "M"))
                    return st
        # null-ness of the resource itself
        for x, y in ((a, bb), (bb, a)):
            if is_res(res, x) and (y.kind == "null" or (y.kind == "int")):
                if y.kind == "int" and res.fail != "neg" and y.v != 0:
                    continue
                if res.fail == "neg":
                    # descriptor: failure is < 0
                    def sat_fail(v):
                        return _icmp(pred, v, y.v) if x is a else _icmp(pred, y.v, v)
                    fail_sat = sat_fail(-1)
                    ok_sat = sat_fail(3)
                else:
                    is_null_on_true = (pred == "eq")
                    if pred not in ("eq", "ne"):
                        # 'ugt p, null' etc.
                        if pred in ("ugt",) and x is a:
                            is_null_on_true = False
                        else:
                            continue
                    fail_sat = is_null_on_true
                    ok_sat = not is_null_on_true
                # on this edge (taken), which of {null, non-null} are possible?
                can_fail = fail_sat if taken else not fail_sat
                can_ok = ok_sat if taken else not ok_sat
                out = set()
                for t in st:
                    k = t if isinstance(t, str) else t[0]
                    if k in ("O", "F", "P", "M"):
                        if can_ok:
                            out.add(t)
                        if can_fail and not can_ok:
                            out.add("N")
                    else:
                        out.add(t)
                return frozenset(out)
        # result of the acquiring (out-param) or consuming call
        for x, y in ((a, bb), (bb, a)):
            if x.kind == "reg" and y.kind in ("int", "null"):
                yv = 0 if y.kind == "null" else y.v
                regs, _ = derived_values(fn, x.v)
                # find a call reg that x derives from
                src = self._origin_call(x.v)
                if src is None:
                    continue

                def sat(v, x=x, yv=yv):
                    r = _icmp(pred, v, yv) if x is a else _icmp(pred, yv, v)
                    return r if taken else not r
                return self._refine_callres(res, src, sat, st)
        return st

    def _origin_call(self, reg):
        seen = set()
        while reg not in seen:
            seen.add(reg)
            d = self.fn.defs.get(reg)
            if d is None:
                return None
            if d.op == "call":
                return reg
            if d.op in ("sext", "zext", "trunc", "bitcast") and d.ops[0].kind == "reg":
                reg = d.ops[0].v
                continue
            if d.op == "load":
                # the call's result kept in a local slot / field of a local struct and read back (single source)
                path = self.P.path(d.ops[0])
                srcs = set()
                for s_ in self.fn.instrs():
                    if s_.op == "store" and self.P.path(s_.ops[1]) == path:
                        v = s_.ops[0]
                        hops = 0
                        while v.kind == "reg" and v.v in self.fn.defs and self.fn.defs[v.v].op == "bitcast" and hops < 4:
                            v = self.fn.defs[v.v].ops[0]
                            hops += 1
                        srcs.add(v.v if v.kind == "reg" else None)
                if len(srcs) == 1 and None not in srcs:
                    nxt = next(iter(srcs))
                    if self._is_local_slot(d.ops[0]) or path.split("->")[0].split(".")[0].split("[")[0] in {i.res for i in self.fn.instrs() if i.op == "alloca"}:
                        reg = nxt
                        continue
            return None
        return None

    def _refine_callres(self, res, callreg, sat, st):
        out = set()
        for t in st:
            if isinstance(t, tuple) and t[0] in ("P", "A") and t[1] == callreg:
                d = self.fn.defs.get(callreg)
                if t[0] == "P":
                    pred = None
                    for k, p in CONSUMERS.get(d.callee, {}).items():
                        pred = p
                    ok = any(sat(v) for v in pred["ok"])
                    fail = any(sat(v) for v in pred["fail"])
                    if ok and fail:
                        out.add(t)
                    elif ok:
                        out.add("D")
                    elif fail:
                        out.add("O")
                else:
                    pred = res.out_pred
                    ok = any(sat(v) for v in pred["ok"])
                    fail = any(sat(v) for v in pred["fail"])
                    if ok and fail:
                        out.add(t)
                    elif ok:
                        out.add("O")
                    elif fail:
                        out.add("N")
            else:
                out.add(t)
        return frozenset(out)


def _icmp(pred, a, b):
    if pred == "eq":
        return a == b
    if pred == "ne":
        return a != b
    if pred in ("slt", "ult"):
        if pred == "ult":
            a, b = a % (1 << 64), b % (1 << 64)
        return a < b
    if pred in ("sle", "ule"):
        if pred == "ule":
            a, b = a % (1 << 64), b % (1 << 64)
        return a <= b
    if pred in ("sgt", "ugt"):
        if pred == "ugt":
            a, b = a % (1 << 64), b % (1 << 64)
        return a > b
    if pred in ("sge", "uge"):
        if pred == "uge":
            a, b = a % (1 << 64), b % (1 << 64)
        return a >= b
    raise ValueError(pred)


# ---------------------------------------------------------------------------
# derived summaries: does a library function retain / release a pointer parameter?

_capture_cache = {}


def capture_summary(prog, g, _stack=None):
    """param index -> 'borrow' | 'capture' (on every path to a return) | 'maybe'"""
    key = id(g)
    if key in _capture_cache:
        return _capture_cache[key]
    _stack = _stack or set()
    if key in _stack:
        return {}
    _stack.add(key)
    out = {}
    for k, (t, nm) in enumerate(g.params):
        if not t.endswith("*") or nm is None:
            continue
        eng = Engine(prog, g)
        res = eng.param_resource(k)
        try:
            problems, exits = eng.run(res, (), init=["O"])
        except RecursionError:
            out[k] = "maybe"
            continue
        states = set()
        for _, st in exits:
            for tkn in st:
                states.add(tkn if isinstance(tkn, str) else tkn[0])
        if states <= {"O", "N"}:
            out[k] = "borrow"
        elif states <= {"D"}:
            out[k] = "capture"
        else:
            out[k] = "maybe"
    _stack.discard(key)
    _capture_cache[key] = out
    return out


# ---------------------------------------------------------------------------
# rule: leaks of locally owned resources (C08.R2 and friends)


def _loop_carried(eng, r):
    cfg = eng.cfg
    headers = {b for _, b in cfg.back_edges()}
    for reg in r.regs:
        d = eng.fn.defs.get(reg)
        if d is not None and d.op == "phi" and d.block in headers:
            # acquisition inside the loop?
            if r.acq.block in cfg.reachable_from(d.block) and d.block in cfg.reachable_from(r.acq.block):
                return True
    return False


NODE_ACQUIRERS = frozenset(k for k in ACQ_RET if k.startswith("json_object_") or k.startswith("json_tokener_parse")
                           or k == "_json_object_new_string") | {"json_object_deep_copy", "json_object_deep_copy_recursive"}


def rule_leaks(chk, prog, rid, only_functions=None, floor=40, acquirers=None, text=None):
    chk.rule(rid, text or "a local that owns an allocation/reference is released, returned or handed over on every path to a "
                  "return, including the branches where a later allocation or a consuming call fails")
    n = 0
    for f in prog.all_functions():
        if only_functions is not None and f.name not in only_functions:
            continue
        eng = Engine(prog, f)
        ress = eng.acquisitions()
        if not ress:
            continue
        chk.touched(f)
        for r in ress:
            if acquirers is not None and r.acq.callee not in acquirers:
                continue
            n += 1
            sig = "%s(%s)" % (r.acq.callee, ", ".join(eng.P.path(a) for a in r.acq.ops))
            if _loop_carried(eng, r):
                # the value travels around a state-machine loop before it is consumed: which dispatch case runs
                # next is a fact about the automaton (E3), not about the CFG.  E2 decides the consume sites only.
                sites = [i for i in f.instrs() if i.op == "call" and i.callee in CONSUMERS
                         and any(is_res(r, a) and k in CONSUMERS[i.callee] for k, a in enumerate(i.ops))]
                for c in sites:
                    problems, exits = eng.run(r, ress, assume_owned_at=c)
                    bad = [(ret, t) for ret, st in exits for t in st
                           if (t if isinstance(t, str) else t[0]) in ("O", "P")]
                    csig = "%s(%s) <- %s" % (c.callee, ", ".join(eng.P.path(a) for a in c.ops), sig)
                    if bad:
                        chk.refuted(rid, f.name, csig, c.locstr(),
                                    "%s (acquired at %s) is handed to %s; when that call fails the function returns "
                                    "without releasing it (%s)" % (r.label, r.acq.locstr(), c.callee, bad[0][0].locstr()),
                                    {"acquire": r.acq.raw, "consume": c.raw})
                    else:
                        chk.proven(rid, f.name, csig, c.locstr(), "failure branch of the consuming call releases the value")
                chk.note("%s %s: carried around the dispatch loop; acquisition-to-consumption completeness is decided by "
                         "the automaton rules, E2 decided %d consume sites" % (f.name, sig, len(sites)))
                continue
            eng.orphaned_at = None
            problems, exits = eng.run(r, ress)
            leaks = []
            for ret, st in exits:
                for t in st:
                    k = t if isinstance(t, str) else t[0]
                    if k == "O":
                        oa = getattr(eng, "orphaned_at", None)
                        leaks.append((ret, "still owned at this return" + (
                            " (the block that held it in a field was released with free() at %s)" % oa.locstr() if oa is not None else "")))
                    elif k == "P":
                        leaks.append((ret, "handed to a consume-on-success call whose failure is not handled"))
                    elif k == "A":
                        leaks.append((ret, "out-parameter acquisition whose success is not examined"))
                    elif k == "M":
                        leaks.append((ret, "passed to %s which retains it only on some paths" % t[1]))
                    elif k == "F":
                        pass  # owner escaped or still holds it: owner's own obligation
            for p in problems:
                leaks.append((p.instr, p.msg))
            if leaks:
                where, why = leaks[0]
                chk.refuted(rid, f.name, sig, r.acq.locstr(),
                            "%s acquired here can leak: %s (%s)" % (r.label, why, where.locstr()),
                            {"acquire": r.acq.raw, "exits": sorted({"%s: %s" % (w.locstr(), y) for w, y in leaks})})
            else:
                chk.proven(rid, f.name, sig, r.acq.locstr(),
                           "released, returned or handed over on all %d return paths" % len(exits))
    chk.floor(rid, n, floor, "acquisition sites (allocators, constructors, reference increments, handles)")
