"""E5 with path partitioning: a path-sensitive walk of a small, loop-free (or loop-cut) function that keeps, per path,
linear forms for integer registers and for the integer fields of the data structure, the capacity of the buffer
fields (coupling rule), and the branch facts met on the path.  Obligations (write bounds, no wrap-around, return
contracts, invariant preservation) are discharged per path by Fourier-Motzkin elimination (jcv.lin).

Calls to the growth helpers are handled assume/guarantee: a contract is *verified* on the callee's own paths and only
then *used* at call sites (the path forks into the contract's outcomes).

Nothing is executed; integer views are chosen per function: 'signed' (int fields of printbuf) or 'unsigned' (size_t
fields of array_list / lh_table), in which a non-nuw add/mul is exact only when the facts of the path exclude wrap.
"""
from .cfg import cfg_of
from .flow import Paths, identity_param
from .lin import Lin, const, atom, fm_infeasible, type_range
from .frontend import AnalysisBroken

MAXPATHS = 4000


class Ptr:
    """pointer into a buffer: base names the buffer (its capacity is state.cap[base]), off is the element offset"""
    __slots__ = ("base", "off", "elem")

    def __init__(self, base, off, elem=1):
        self.base = base
        self.off = off
        self.elem = elem

    def __repr__(self):
        return "&%s[%r]" % (self.base, self.off)


class PState:
    def __init__(self):
        self.env = {}       # reg -> Lin | Ptr | ('obj', name) | None
        self.mem = {}       # field path -> Lin | Ptr | None
        self.cap = {}       # buffer name -> Lin (capacity in elements)
        self.facts = []     # Lin <= 0
        self.prov = []
        self.nfresh = 0
        self.trail = []
        self.events = []    # ('store', path), ('call', name, ...)
        self.types = {}     # atom -> (lo, hi)
        self.neq = []       # Lin d with d != 0 known (disjunction d <= -1 or d >= 1)
        self._ret = None

    def copy(self):
        s = PState()
        s.env = dict(self.env)
        s.mem = dict(self.mem)
        s.cap = dict(self.cap)
        s.facts = list(self.facts)
        s.prov = list(self.prov)
        s.nfresh = self.nfresh
        s.trail = list(self.trail)
        s.events = list(self.events)
        s.types = dict(self.types)
        s.neq = list(self.neq)
        s._ret = None
        return s


class Contract:
    """post-condition of a helper: list of outcomes; each outcome = (return value int, effect(state, args, walker))"""

    def __init__(self, name, outcomes):
        self.name = name
        self.outcomes = outcomes


class Walker:
    def __init__(self, prog, fn, view="signed", contracts=None, self_name="p", int_fields=(), buf_fields=None):
        """int_fields: names of integer fields tracked (e.g. bpos, size); buf_fields: {buffer field: capacity field}"""
        self.prog = prog
        self.fn = fn
        self.view = view
        self.contracts = contracts or {}
        self.P = Paths(fn, prog)
        self.int_fields = set(int_fields)
        self.buf_fields = dict(buf_fields or {})
        self.paths = 0
        self.on_instr = None     # callback(walker, state, instr) -> None ; may record obligations
        self.on_ret = None
        self.results = []        # (kind, instr, description, verdict, detail)

    # ---- ranges ---------------------------------------------------------------------------------
    def range_of(self, t):
        if t.startswith("i") and t[1:].isdigit():
            n = int(t[1:])
            if self.view == "unsigned":
                return 0, (1 << n) - 1
            return -(1 << (n - 1)), (1 << (n - 1)) - 1
        return None

    def fresh(self, st, hint, t):
        st.nfresh += 1
        nm = "%s#%d" % (hint, st.nfresh)
        r = self.range_of(t) if t else None
        if r:
            st.types[nm] = r
        return atom(nm)

    def atom_for(self, st, name, t):
        r = self.range_of(t) if t else None
        if r and name not in st.types:
            st.types[name] = r
        return atom(name)

    def range_facts(self, st, forms):
        out = []
        atoms = set()
        for f in forms:
            atoms |= f.atoms()
        for a in atoms:
            r = st.types.get(a)
            if r:
                out.append(atom(a).scale(-1) + const(r[0]))
                out.append(atom(a) + const(-r[1]))
        return out

    def _cases(self, st):
        cases = [[]]
        for d in st.neq[-4:]:
            cases = [c + [d + const(1)] for c in cases] + [c + [d.scale(-1) + const(1)] for c in cases]
        return cases

    def entails(self, st, goal, extra=()):
        """facts of the path (disequalities split into their two halves) entail goal <= 0"""
        allf = st.facts + list(extra)
        neg = goal.scale(-1) + const(1)
        for c in self._cases(st):
            rf = self.range_facts(st, allf + c + [goal])
            if not fm_infeasible(allf + c + rf + [neg]):
                return False
        return True

    def feasible(self, st):
        for c in self._cases(st):
            rf = self.range_facts(st, st.facts + c)
            if not fm_infeasible(st.facts + c + rf):
                return True
        return False

    # ---- values ---------------------------------------------------------------------------------
    def val(self, st, v):
        if v.kind == "int":
            if self.view == "unsigned" and v.v < 0 and v.type.startswith("i"):
                return const(v.v % (1 << int(v.type[1:])))
            return const(v.v)
        if v.kind == "null":
            return const(0)
        if v.kind == "reg":
            if v.v in st.env:
                return st.env[v.v]
            # parameter
            k = self.fn.param_index(v.v)
            if k is not None:
                t = self.fn.params[k][0]
                if t.endswith("*"):
                    return ("obj", v.v)
                return self.atom_for(st, v.v, t)
            return None
        return None

    def field_of(self, st, addr_val):
        """memory path of an address operand, via jcv.flow.Paths (struct fields), or a Ptr for buffer elements"""
        return None

    # ---- walk -------------------------------------------------------------------------------------
    def _loops(self):
        if getattr(self, "_loopinfo", None) is None:
            cfg = cfg_of(self.fn)
            info = {}
            for a, h in cfg.back_edges():
                body = info.setdefault(h, {h})
                work = [a]
                while work:
                    b = work.pop()
                    if b in body:
                        continue
                    body.add(b)
                    work.extend(b.preds)
            self._loopinfo = info
        return self._loopinfo

    def run(self, init):
        st = PState()
        init(self, st)
        self._walk(self.fn.entry, None, st, frozenset())
        return self.results

    def _walk(self, block, prev, st, onpath):
        stack = [(block, prev, st, onpath)]
        while stack:
            block, prev, st, onpath = stack.pop()
            self.paths += 1
            if self.paths > MAXPATHS:
                raise AnalysisBroken("path budget exceeded in %s" % self.fn.name)
            if block in onpath:
                st.trail.append("loop@" + block.name)
                self._loop_cut(block, st)
                continue
            onpath = onpath | {block}
            st.trail.append(block.name)
            # phis
            newv = {}
            loops = self._loops()
            for i in block.instrs:
                if i.op != "phi":
                    break
                v = None
                if block in loops:
                    # loop header: an arbitrary iteration (the loop condition is assumed by the branch that follows)
                    v = self.fresh(st, "%" + i.res, i.type) if i.type.startswith("i") else None
                    if v is not None and prev is not None and prev not in loops[block]:
                        self._induction_facts(st, block, loops[block], i, v, prev)
                elif prev is not None:
                    for val, lab in i.x["incoming"]:
                        if lab == prev.name:
                            v = self.val(st, val)
                newv[i.res] = v
            st.env.update(newv)
            if block in loops:
                if any(i.op == "store" or (i.op == "call" and (i.callee or "").startswith("llvm.mem")) for b in loops[block] for i in b.instrs):
                    st.events.append(("loop-writes", block.name))      # memory written inside the loop is not itemised on this path
                # fields stored inside the loop are unknown at an arbitrary iteration
                for b in loops[block]:
                    for i in b.instrs:
                        if i.op == "store":
                            p = self.P.path(i.ops[1])
                            if p in st.mem and isinstance(st.mem[p], Lin):
                                st.mem[p] = self.fresh(st, p, i.ops[0].type)
            forks = None
            for i in block.instrs:
                if i.op == "phi":
                    continue
                if self.on_instr:
                    self.on_instr(self, st, i)
                r = self._exec(st, i, block)
                if r is not None:
                    forks = r
                    break
            if forks is None:
                continue
            for nb, nst in forks:
                if nb is None:
                    continue
                stack.append((nb, block, nst, onpath))

    def _loop_cut(self, block, st):
        pass

    def _induction_facts(self, st, header, body, phi, v, prev):
        """phi = [init from outside, phi + c from inside] with a positive constant step: the value never falls below init; when
        the loop is left on phi == b (stays while phi != b), the step is 1 and init <= b holds on entry, it never exceeds b"""
        init = None
        step = None
        for val, lab in phi.x["incoming"]:
            pb = self.fn.blocks[lab]
            if pb in body:
                d = self.fn.defs.get(val.v) if val.kind == "reg" else None
                if d is not None and d.op == "add" and d.ops[1].kind == "int" and d.ops[0].kind == "reg" and d.ops[0].v == phi.res:
                    step = d.ops[1].v if step in (None, d.ops[1].v) else 0
                else:
                    step = 0
            else:
                iv = self.val(st, val)
                init = iv if (init is None and isinstance(iv, Lin)) else (init if init == iv else False)
        if not step or not isinstance(init, Lin):
            return
        if step < 0:
            st.facts.append(v - init)                # counting down: phi <= init
            return
        st.facts.append(init - v)                    # counting up: init <= phi
        if step != 1:
            return
        from .cfg import cfg_of
        for u in cfg_of(self.fn).users(phi.res):
            if u.op != "icmp" or u.x["pred"] not in ("eq", "ne") or u.block not in body:
                continue
            other = u.ops[1] if (u.ops[0].kind == "reg" and u.ops[0].v == phi.res) else u.ops[0]
            if other.kind == "reg":
                od = self.fn.defs.get(other.v)
                if od is not None and od.block in body:
                    continue          # not loop-invariant
            b = self.val(st, other)
            if not isinstance(b, Lin):
                continue
            # the comparison must decide whether the loop goes on
            brs = [x for x in cfg_of(self.fn).users(u.res) if x.op == "br" and len(x.x["targets"]) == 2]
            leaves = any(self.fn.blocks[t] not in body for x in brs for t in x.x["targets"])
            if leaves and self.entails(st, init - b):
                st.facts.append(v - b)               # phi <= b

    def _exec(self, st, i, block):
        op = i.op
        fn = self.fn
        if op in ("add", "sub", "mul", "shl"):
            a, b = self.val(st, i.ops[0]), self.val(st, i.ops[1])
            r = None
            if isinstance(a, Lin) and isinstance(b, Lin):
                if op == "add":
                    r = a + b
                elif op == "sub":
                    r = a - b
                elif op == "mul":
                    r = b.scale(a.k) if a.is_const() else (a.scale(b.k) if b.is_const() else None)
                elif op == "shl" and b.is_const():
                    r = a.scale(1 << b.k)
                if r is not None and not self._exact(st, i, r):
                    r = None
            if r is None:
                r = self.fresh(st, "%" + i.res, i.type)
            st.env[i.res] = r
        elif op in ("sext", "zext", "trunc", "bitcast", "ptrtoint", "inttoptr"):
            a = self.val(st, i.ops[0])
            if op == "trunc" and isinstance(a, Lin):
                r = self.range_of(i.type)
                if not (r and self.entails(st, a + const(-r[1])) and self.entails(st, a.scale(-1) + const(r[0]))):
                    a = self.fresh(st, "%" + i.res, i.type)
            if op == "zext" and isinstance(a, Lin) and self.view == "signed":
                if not self.entails(st, a.scale(-1)):
                    a = self.fresh(st, "%" + i.res, i.type)
            if op == "sext" and isinstance(a, Lin) and self.view == "unsigned":
                # sign extension of a value viewed as unsigned: exact only when it is below 2^(n-1)
                sb = int(i.ops[0].type[1:])
                if not self.entails(st, a + const(-((1 << (sb - 1)) - 1))):
                    a = self.fresh(st, "%" + i.res, i.type)
            st.env[i.res] = a
        elif op == "icmp":
            st.env[i.res] = ("cmp", i)
        elif op == "getelementptr":
            st.env[i.res] = self._gep(st, i)
        elif op == "load":
            st.env[i.res] = self._load(st, i)
        elif op == "store":
            self._store(st, i)
        elif op == "select":
            c = self.val(st, i.ops[0])
            if isinstance(c, tuple) and c[0] == "cmp":
                # a value chosen by a comparison: follow both choices as separate paths, each with the comparison's outcome assumed
                outs = []
                for truth, arm in ((True, i.ops[1]), (False, i.ops[2])):
                    s2 = st.copy()
                    if not (self._assume(s2, c[1], truth) and self.feasible(s2)):
                        continue
                    v = self.val(s2, arm)
                    if i.type.startswith("i") and not isinstance(v, Lin) and not (isinstance(v, tuple) and v and v[0] == "cmp"):
                        v = self.fresh(s2, "%" + i.res, i.type)
                    s2.env[i.res] = v
                    outs += self._continue_after(s2, i, block)
                return outs
            st.env[i.res] = self.fresh(st, "%" + i.res, i.type) if i.type.startswith("i") else None
        elif op == "alloca":
            st.env[i.res] = ("obj", i.res)
        elif op == "call":
            return self._call(st, i, block)
        elif op == "br":
            return self._br(st, i, block)
        elif op == "switch":
            out = []
            for tgt in i.x["targets"]:
                out.append((fn.blocks[tgt], st.copy()))
            return out
        elif op == "ret":
            if self.on_ret:
                self.on_ret(self, st, i)
            return []
        elif op == "unreachable":
            return []
        else:
            if i.res is not None:
                st.env[i.res] = self.fresh(st, "%" + i.res, i.type) if i.type and i.type.startswith("i") else None
        return None

    def _exact(self, st, i, r):
        """is the arithmetic instruction exact (no wrap) on this path?"""
        flags = i.x.get("flags", [])
        rng = self.range_of(i.type)
        if rng is None:
            return False
        if self.view == "signed" and "nsw" in flags:
            return True     # overflow is its own obligation (recorded by the rule), the result is then exact
        if self.view == "unsigned" and "nuw" in flags:
            return True
        lo, hi = rng
        return self.entails(st, r + const(-hi)) and self.entails(st, r.scale(-1) + const(lo))

    def _gep(self, st, i):
        base = self.val(st, i.ops[0])
        srcty = i.x["srcty"]
        idx = [self.val(st, o) for o in i.ops[1:]]
        if isinstance(base, Ptr):
            if len(idx) == 1 and isinstance(idx[0], Lin):
                return Ptr(base.base, base.off + idx[0], base.elem)
            if len(idx) == 2 and isinstance(idx[0], Lin) and idx[0].is_const() and idx[0].k == 0 and isinstance(idx[1], Lin):
                return Ptr(base.base, base.off + idx[1], base.elem)
            return None
        if isinstance(base, tuple) and base[0] == "obj":
            # field address: use the access-path string
            from .ir import Val
            p = self.P.path(Val("reg", i.type, i.res))
            return ("field", p)
        if isinstance(base, tuple) and base[0] == "field":
            from .ir import Val
            return ("field", self.P.path(Val("reg", i.type, i.res)))
        return None

    def _field_name(self, p):
        return p.replace("->", ".").split(".")[-1].split("[")[0]

    def _load(self, st, i):
        a = self.val(st, i.ops[0])
        if isinstance(a, tuple) and a[0] == "field":
            p = a[1]
            if p in st.mem:
                return st.mem[p]
            fname = self._field_name(p)
            if fname in self.buf_fields:
                v = Ptr(p, const(0))
                st.mem[p] = v
                return v
            if i.type.startswith("i"):
                v = self.atom_for(st, p, i.type)
                st.mem[p] = v
                return v
            if i.type.endswith("*"):
                v = ("obj", p)
                st.mem[p] = v
                return v
            return None
        if isinstance(a, Ptr):
            st.events.append(("load", a, i))
            if i.type.startswith("i"):
                return self.fresh(st, "%" + i.res, i.type)
            return ("obj", "elem")
        if i.type and i.type.startswith("i"):
            return self.fresh(st, "%" + i.res, i.type)
        return None

    def _store(self, st, i):
        a = self.val(st, i.ops[1])
        v = self.val(st, i.ops[0])
        if isinstance(a, tuple) and a[0] == "field":
            st.mem[a[1]] = v
            st.events.append(("store", a[1], v, i))
        elif isinstance(a, Ptr):
            st.events.append(("bufstore", a, i))

    def _br(self, st, i, block):
        fn = self.fn
        tg = i.x["targets"]
        if len(tg) == 1 or tg[0] == tg[1]:
            return [(fn.blocks[tg[0]], st)]
        c = self.val(st, i.ops[0]) if i.ops else None
        out = []
        for truth, tname in ((True, tg[0]), (False, tg[1])):
            s2 = st.copy()
            ok = True
            if isinstance(c, tuple) and c[0] == "cmp":
                ok = self._assume(s2, c[1], truth)
            if ok and self.feasible(s2):
                out.append((fn.blocks[tname], s2))
        return out

    def _assume(self, st, cmp_, truth):
        a, b = self.val(st, cmp_.ops[0]), self.val(st, cmp_.ops[1])
        pred = cmp_.x["pred"]
        # a materialised boolean (a comparison kept in a flag) tested against 0 / 1
        for x, y in ((a, b), (b, a)):
            if isinstance(x, tuple) and x and x[0] == "cmp" and isinstance(y, Lin) and y.is_const() and y.k in (0, 1) and pred in ("eq", "ne"):
                same = (pred == "ne") == (y.k == 0)
                return self._assume(st, x[1], truth if same else not truth)
        if not truth:
            pred = {"eq": "ne", "ne": "eq", "slt": "sge", "sge": "slt", "sgt": "sle", "sle": "sgt",
                    "ult": "uge", "uge": "ult", "ugt": "ule", "ule": "ugt"}[pred]
        # pointer null tests
        if isinstance(a, (Ptr, tuple)) or isinstance(b, (Ptr, tuple)):
            pa = a if not isinstance(a, Lin) else b
            other = b if pa is a else a
            key = repr(pa)
            if isinstance(other, Lin) and other.is_const() and other.k == 0 and pred in ("eq", "ne"):
                st.facts_null = getattr(st, "facts_null", {})
                st.prov.append("%s: %s %s null" % (cmp_.locstr(), key, "==" if pred == "eq" else "!="))
                st.events.append(("nulltest", key, pred == "eq"))
            return True
        if not isinstance(a, Lin) or not isinstance(b, Lin):
            return True
        d = a - b
        signed_pred = pred
        if pred[0] == "u":
            if self.view != "unsigned":
                if pred in ("ult", "ule") and b.is_const() and b.k >= 0:
                    # x <u C with 0 <= C < 2^(n-1)  =>  0 <= x (signed view) and x < C
                    st.facts.append(a.scale(-1))
                elif pred in ("ugt", "uge") and a.is_const() and a.k >= 0:
                    st.facts.append(b.scale(-1))
                elif not (self.entails(st, a.scale(-1)) and self.entails(st, b.scale(-1))):
                    return True
            signed_pred = "s" + pred[1:]
        elif pred[0] == "s" and self.view == "unsigned":
            hi = None
            r = self.range_of(cmp_.ops[0].type)
            if r:
                half = (r[1] + 1) // 2 - 1
                if not (self.entails(st, a + const(-half)) and self.entails(st, b + const(-half))):
                    return True
        fs = []
        if signed_pred == "slt":
            fs = [d + const(1)]
        elif signed_pred == "sle":
            fs = [d]
        elif signed_pred == "sgt":
            fs = [d.scale(-1) + const(1)]
        elif signed_pred == "sge":
            fs = [d.scale(-1)]
        elif signed_pred == "eq":
            fs = [d, d.scale(-1)]
        elif signed_pred == "ne":
            # split is left to the caller: keep as a disjunction only when one side is already excluded
            if self.entails(st, d):            # d <= 0 known -> d <= -1
                fs = [d + const(1)]
            elif self.entails(st, d.scale(-1)):
                fs = [d.scale(-1) + const(1)]
            else:
                st.neq.append(d)
                st.prov.append("%s: (%r != %r)" % (cmp_.locstr(), a, b))
        st.facts += fs
        if fs:
            st.prov.append("%s: (%r %s %r)" % (cmp_.locstr(), a, pred, b))
        return True

    def _call(self, st, i, block):
        nm = i.callee
        args = [self.val(st, o) for o in i.ops]
        st.events.append(("call", nm, args, i))
        if nm in self.contracts:
            outs = []
            for retval, effect in self.contracts[nm].outcomes:
                s2 = st.copy()
                if effect(self, s2, args, i) is False:
                    continue
                if i.res is not None:
                    if getattr(s2, "_ret", None) is not None:
                        s2.env[i.res] = s2._ret
                        s2._ret = None
                    else:
                        s2.env[i.res] = const(retval) if retval is not None else self.fresh(s2, "%" + i.res, i.type)
                if self.feasible(s2):
                    outs.append(("cont", s2))
            # continue the block after the call in each outcome: emulate by re-entering the block tail
            res = []
            for _, s2 in outs:
                res.append(self._continue_after(s2, i, block))
            flat = []
            for r in res:
                flat += r
            return flat
        if nm in ("malloc", "calloc", "realloc") and i.res is not None:
            # outcome 1: NULL ; outcome 2: fresh buffer with the requested capacity (in elements when the size is k*elemsize)
            size = args[0] if nm == "malloc" else (args[1] if nm == "realloc" else None)
            if nm == "calloc" and isinstance(args[0], Lin) and isinstance(args[1], Lin):
                size = args[0].scale(args[1].k) if args[1].is_const() else (args[1].scale(args[0].k) if args[0].is_const() else None)
            st.nfresh += 1
            bname = "%s#%d" % (nm, st.nfresh)
            st.env[i.res] = ("alloc", bname, size)
            return None
        if i.res is not None:
            g = self.prog.resolve(nm, self.fn.module) if nm else None
            k = identity_param(g) if g is not None else None
            if k is not None:
                st.env[i.res] = args[k]
            elif i.type and i.type.startswith("i"):
                st.env[i.res] = self.fresh(st, "%" + i.res, i.type)
            else:
                st.env[i.res] = ("obj", "call:%s" % nm)
        # unknown callee: havoc the fields it may write (same-named fields), conservatively all tracked fields if it gets the object
        if nm and not nm.startswith("llvm.") and nm not in ("free", "__errno_location", "memcpy", "memmove", "memset", "strlen", "abort"):
            g = self.prog.resolve(nm, self.fn.module)
            if g is not None and any(isinstance(a, tuple) and a and a[0] == "obj" for a in args):
                from .lin import _writes_field_named
                for p in list(st.mem):
                    if _writes_field_named(self.prog, g, self._field_name(p), set()):
                        del st.mem[p]
        return None

    def _continue_after(self, st, call, block):
        """execute the remainder of `block` after `call` on state st; returns forks like _exec"""
        fn = self.fn
        started = False
        for i in block.instrs:
            if i is call:
                started = True
                continue
            if not started or i.op == "phi":
                continue
            if self.on_instr:
                self.on_instr(self, st, i)
            r = self._exec(st, i, block)
            if r is not None:
                return r
        return []
