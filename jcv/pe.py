"""E3: finite-domain partial evaluator.

Walks the CFG of a function with *declared abstract inputs* ranging over finite domains.  Values are expression
trees over named roots; a root's domain is an explicit finite set.  At a conditional branch the condition is
evaluated for every member of the domain of the roots it mentions, the domain is split into its true and false
parts and the walk continues with each non-empty part (lazy splitting).  Expressions that mention an unknown
(TOP) make both successors feasible with no refinement.  Nothing but branch conditions is ever evaluated; data
arithmetic only builds expression trees.

The result of a walk is the list of leaves (return / stop points) with the refined root domains, the memory
effects and the call trace of the path that led there.
"""
from itertools import product

from .frontend import AnalysisBroken
from .ir import array_elem, split_top, strip_casts

TOP = ("top",)
MAXSET = 70000


def C(n):
    return ("c", n)


def R(name):
    return ("r", name)


def is_const(e):
    return e[0] == "c"


def roots_of(e, acc=None):
    if acc is None:
        acc = set()
    k = e[0]
    if k == "r":
        acc.add(e[1])
    elif k == "op":
        for a in e[3:]:
            if isinstance(a, tuple):
                roots_of(a, acc)
    elif k == "ptr":
        for p in e[2]:
            if isinstance(p, tuple) and p[0] == "i" and isinstance(p[1], tuple):
                roots_of(p[1], acc)
    return acc


def has_top(e):
    k = e[0]
    if k == "top" or k == "sym":
        return True
    if k == "op":
        return any(has_top(a) for a in e[3:] if isinstance(a, tuple))
    if k == "ptr":
        return any(isinstance(p, tuple) and p[0] == "i" and isinstance(p[1], tuple) and has_top(p[1]) for p in e[2])
    return False


def _bits(t):
    if t and t.startswith("i") and t[1:].isdigit():
        return int(t[1:])
    if t and t.endswith("*"):
        return 64
    return 64


def _s(v, bits):
    v &= (1 << bits) - 1
    return v - (1 << bits) if v >> (bits - 1) else v


def _u(v, bits):
    return v & ((1 << bits) - 1)


def ev(e, env):
    """concrete value of expression e under root assignment env (ints, signed view); pointers evaluate to
    ('ptr', base, path) tuples with concrete indices"""
    k = e[0]
    if k == "c":
        return e[1]
    if k == "r":
        return env[e[1]]
    if k == "ptr":
        return ("ptr", e[1], tuple((("i", ev(p[1], env)) if (isinstance(p, tuple) and isinstance(p[1], tuple)) else p) for p in e[2]))
    if k == "op":
        op, t = e[1], e[2]
        bits = _bits(t)
        if op == "select":
            return ev(e[4], env) if ev(e[3], env) else ev(e[5], env)
        a = ev(e[3], env)
        if op in ("sext", "bitcast", "ptrtoint", "inttoptr"):
            return a
        if op == "zext":
            return _u(a, e[4])
        if op == "trunc":
            return _s(a, bits)
        b = ev(e[4], env)
        if op.startswith("icmp."):
            p = op[5:]
            if isinstance(a, tuple) or isinstance(b, tuple):
                a, b = _norm_ptr(a), _norm_ptr(b)
                if p == "eq":
                    return int(a == b)
                if p == "ne":
                    return int(a != b)
                # ordering of two pointers into the same object that differ only in their last element index
                if isinstance(a, tuple) and isinstance(b, tuple) and a[0] == "ptr" and b[0] == "ptr" and a[1] == b[1]:
                    def split(q):
                        path = list(q[2])
                        if path and isinstance(path[-1], tuple) and path[-1][0] == "i" and isinstance(path[-1][1], int):
                            return tuple(path[:-1]), path[-1][1]
                        return tuple(path), 0
                    (ha, ia), (hb, ib) = split(a), split(b)
                    if ha == hb:
                        return int({"ult": ia < ib, "ule": ia <= ib, "ugt": ia > ib, "uge": ia >= ib,
                                    "slt": ia < ib, "sle": ia <= ib, "sgt": ia > ib, "sge": ia >= ib}[p])
                raise Unknown()
            if p[0] == "u":
                ob = e[5]
                a, b = _u(a, ob), _u(b, ob)
            return int({"eq": a == b, "ne": a != b, "slt": a < b, "sle": a <= b, "sgt": a > b, "sge": a >= b,
                        "ult": a < b, "ule": a <= b, "ugt": a > b, "uge": a >= b}[p])
        if isinstance(a, tuple) or isinstance(b, tuple):
            raise Unknown()
        if op == "add":
            return _s(a + b, bits)
        if op == "sub":
            return _s(a - b, bits)
        if op == "mul":
            return _s(a * b, bits)
        if op == "and":
            return _s(_u(a, bits) & _u(b, bits), bits)
        if op == "or":
            return _s(_u(a, bits) | _u(b, bits), bits)
        if op == "xor":
            return _s(_u(a, bits) ^ _u(b, bits), bits)
        if op == "shl":
            return _s(_u(a, bits) << (_u(b, bits) % bits), bits)
        if op == "lshr":
            return _s(_u(a, bits) >> (_u(b, bits) % bits), bits)
        if op == "ashr":
            return _s(a >> (_u(b, bits) % bits), bits)
        if op in ("sdiv", "udiv", "srem", "urem"):
            if b == 0:
                raise Unknown()
            if op == "sdiv":
                q = abs(a) // abs(b)
                return _s(q if (a < 0) == (b < 0) else -q, bits)
            if op == "srem":
                q = abs(a) % abs(b)
                return _s(-q if a < 0 else q, bits)
            if op == "udiv":
                return _s(_u(a, bits) // _u(b, bits), bits)
            return _s(_u(a, bits) % _u(b, bits), bits)
    raise Unknown()


class Unknown(Exception):
    pass


def _norm_ptr(a):
    """pointer values that denote the same address compare equal: trailing zero element / first-member steps and the
    array-to-pointer decay step are dropped"""
    if not (isinstance(a, tuple) and a and a[0] == "ptr"):
        return a
    path = list(a[2])
    norm = []
    for k, q in enumerate(path):
        if q == ("i", 0) and k + 1 < len(path) and isinstance(path[k + 1], tuple) and path[k + 1][0] == "i":
            continue
        norm.append(q)
    while norm and (norm[-1] == 0 or norm[-1] == ("i", 0) or (isinstance(norm[-1], tuple) and norm[-1][0] == "f" and norm[-1][2] == 0)):
        norm.pop()
    return ("ptr", a[1], tuple(norm))


def fields_of(path):
    """(element index, field tuple) of a canonical location path: (('i', d), f1, f2) -> (d, (f1, f2));
    a missing leading index means element 0"""
    if path and isinstance(path[0], tuple) and path[0][0] == "i":
        return path[0][1], tuple(path[1:])
    return 0, tuple(path)


def mk(op, t, *args):
    """build (and constant-fold) an operation"""
    if any(isinstance(a, tuple) and a and a[0] in ("top", "sym") for a in args):
        return TOP
    e = ("op", op, t) + tuple(args)
    if not roots_of(e):
        try:
            r = ev(e, {})
            return C(r) if not isinstance(r, tuple) else TOP
        except Unknown:
            return TOP
    if _depth(e) > 24:
        return TOP
    return e


def _depth(e):
    if e[0] != "op":
        return 0
    return 1 + max((_depth(a) for a in e[3:] if isinstance(a, tuple)), default=0)


class State:
    __slots__ = ("roots", "mem", "trace", "nfresh")

    def __init__(self):
        self.roots = {}     # root name -> frozenset of ints
        self.mem = {}       # (base, path) -> Expr
        self.trace = []     # events
        self.nfresh = 0

    def copy(self):
        s = State()
        s.roots = dict(self.roots)
        s.mem = dict(self.mem)
        s.trace = list(self.trace)
        s.nfresh = self.nfresh
        return s

    def key(self):
        return (frozenset(self.roots.items()), frozenset(self.mem.items()))

    def values(self, e, cap=MAXSET):
        """finite set of concrete values expression e can take, or None if unknown / too many"""
        if has_top(e):
            return None
        rs = sorted(roots_of(e))
        for r in rs:
            if r not in self.roots:
                return None
        n = 1
        for r in rs:
            n *= len(self.roots[r])
            if n > cap:
                return None
        out = set()
        for vals in product(*[sorted(self.roots[r]) for r in rs]):
            try:
                out.add(ev(e, dict(zip(rs, vals))))
            except Unknown:
                return None
        return out


class Leaf:
    def __init__(self, kind, state, value=None, at=None, info=None):
        self.kind = kind      # 'ret' | 'stop' | 'unreachable' | 'limit'
        self.state = state
        self.value = value
        self.at = at
        self.info = info


class Frame:
    __slots__ = ("fn", "regs", "visits", "ret_to")

    def __init__(self, fn):
        self.fn = fn
        self.regs = {}
        self.visits = {}


class PE:
    """One walk configuration.  Subclass / parametrise through the hook methods."""

    def __init__(self, prog, max_leaves=20000, max_steps=400000, loop_widen=3, inline_depth=6):
        self.prog = prog
        self.max_leaves = max_leaves
        self.max_steps = max_steps
        self.loop_widen = loop_widen
        self.inline_depth = inline_depth
        self.steps = 0
        self.leaves = []
        self.seen = set()
        self.stats = {"splits": 0, "blocks": 0, "inlined": 0}
        self.max_visits = 0
        self.memo_joins = False
        self.deadline = None
        self.abort = None
        self._primary = {}

    # ---- hooks ---------------------------------------------------------------------------------
    def init_mem(self, state, base, path, type_):
        """initial content of a never-written location"""
        return TOP

    def call_model(self, state, frame, instr, args):
        """model of an external / summarised call: return Expr, or None to inline (if defined) / TOP"""
        return None

    def should_inline(self, callee_fn, instr):
        return callee_fn.internal

    def on_store(self, state, frame, instr, addr, val):
        pass

    def stop_before(self, state, frame, instr):
        """return a string to end the walk at this instruction (step boundary)"""
        return None

    def stop_at_block(self, state, frame, block, prev):
        return None

    def trace_digest(self, state):
        """part of the path history that distinguishes abstract states at a join (memo_joins)"""
        return ()

    # ---- evaluation of operands -------------------------------------------------------------------
    def val(self, frame, v, state):
        k = v.kind
        if k == "int":
            return C(v.v)
        if k == "null":
            return C(0)
        if k == "reg":
            return frame.regs.get(v.v, TOP)
        if k == "global":
            # a module-private global (string literal, static table) named inside an inlined function of another module is
            # that module's object, not the same-named one of the analysed function's module
            mod = frame.fn.module if frame is not None else None
            home = getattr(self, "home_module", None)
            if mod is not None and home is not None and mod is not home:
                gg = mod.globals.get(v.v)
                if gg is not None and (gg.internal or v.v.startswith(".")):
                    return ("ptr", "@" + v.v + "\0" + mod.srcname, ())
            return ("ptr", "@" + v.v, ())
        if k == "cexpr":
            if v.v in ("bitcast", "addrspacecast", "inttoptr", "ptrtoint"):
                return self.val(frame, v.args[0], state)
            if v.v == "getelementptr":
                base = self.val(frame, v.args[0], state)
                if base[0] != "ptr":
                    return TOP
                idx = [self.val(frame, a, state) for a in v.args[1:]]
                from .ir import elem_type
                try:
                    sty = elem_type(v.args[0].type)
                except Exception:
                    sty = None
                return self._gep(base, idx, sty)
            return TOP
        if k == "undef" or k == "zero":
            return C(0) if k == "zero" else TOP
        if k == "float":
            return TOP
        return TOP

    def _gep(self, base, idx, srcty):
        """path elements: ('i', n|expr) = element index (pointer arithmetic / array subscript), plain int = struct field"""
        path = list(base[2])
        first = idx[0]
        rest = idx[1:]
        fv = first[1] if is_const(first) else first
        if path and isinstance(path[-1], tuple) and path[-1][0] == "i":
            last = path[-1][1]
            if isinstance(last, int) and isinstance(fv, int):
                path[-1] = ("i", last + fv)
            else:
                a = C(last) if isinstance(last, int) else last
                bb = C(fv) if isinstance(fv, int) else fv
                path[-1] = ("i", mk("add", "i64", a, bb))
        else:
            path.append(("i", fv))
        t = srcty
        for r in rest:
            rv = r[1] if is_const(r) else r
            ae = array_elem(t) if t else None
            if ae:
                path.append(("i", rv))
                t = ae[1]
            elif t and t.startswith("%") and isinstance(rv, int):
                # the same object may be viewed through several struct types (a node and its typed extension): fields of the
                # type first used for the object are plain indices, fields seen through another type carry that type
                prim = self._primary.setdefault(base[1], t) if not base[2] or base[2] == (("i", 0),) else t
                path.append(rv if (prim == t or len(path) > 1) else ("f", t, rv))
                fields = self.prog_structs(t)
                t = fields[rv] if fields and rv < len(fields) else None
            elif t and t.startswith("{") and isinstance(rv, int):
                path.append(rv)
                parts = split_top(t.strip()[1:-1])
                t = parts[rv].strip() if rv < len(parts) else None
            else:
                path.append(("i", rv) if not isinstance(rv, int) else rv)
                t = None
        return ("ptr", base[1], tuple(path))

    @staticmethod
    def _ptrdiff(a, b):
        """difference in elements of two pointers into the same object that differ only in their last element index"""
        pa, pb = list(a[2]), list(b[2])
        def last(p):
            if p and isinstance(p[-1], tuple) and p[-1][0] == "i":
                return p[:-1], p[-1][1]
            return p, 0
        ha, la = last(pa)
        hb, lb = last(pb)
        if ha != hb:
            return TOP
        if isinstance(la, int) and isinstance(lb, int):
            return C(la - lb)
        ea = C(la) if isinstance(la, int) else la
        eb = C(lb) if isinstance(lb, int) else lb
        return mk("sub", "i64", ea, eb)

    def prog_structs(self, t):
        for m in self.prog.modules:
            f = m.structs.get(t)
            if f:
                return f
        return None

    # ---- memory -------------------------------------------------------------------------------------
    def _loc(self, state, addr):
        """canonical concrete location key for a pointer expression, or None"""
        if addr[0] != "ptr":
            return None
        path = []
        for p in addr[2]:
            if isinstance(p, tuple) and p[0] == "i":
                v = p[1]
                if not isinstance(v, int):
                    vs = state.values(v, cap=1)
                    if vs is None or len(vs) != 1:
                        return None
                    v = next(iter(vs))
                path.append(("i", v))
            elif isinstance(p, tuple) and p[0] == "f":
                path.append(p)
            elif isinstance(p, tuple):
                return None
            else:
                path.append(p)
        # an element-0 step directly followed by another element step is the array-to-pointer decay: same address
        norm = []
        for k, p in enumerate(path):
            if p == ("i", 0) and k + 1 < len(path) and isinstance(path[k + 1], tuple) and path[k + 1][0] == "i":
                continue
            norm.append(p)
        path = norm
        # trailing zero steps denote the same address as the shorter path (first element / first member)
        while path and (path[-1] == 0 or path[-1] == ("i", 0) or (isinstance(path[-1], tuple) and path[-1][0] == "f" and path[-1][2] == 0)):
            path.pop()
        return (addr[1], tuple(path))

    def load(self, state, addr, type_):
        loc = self._loc(state, addr)
        if loc is None:
            return TOP
        if loc in state.mem:
            return state.mem[loc]
        if loc[0].startswith("@") and not loc[1]:
            gname, gmods = self._gmods(loc[0][1:])
            for m in gmods:
                gg = m.globals.get(gname)
                if gg is not None:
                    if gg.constant and gg.init is not None and gg.init.kind == "int":
                        return C(gg.init.v)
                    break
        if loc[0].startswith("@"):
            cv = self._const_aggregate(loc[0][1:], loc[1])
            if cv is not None:
                state.trace.append(("gload", loc[0][1:]))
                return cv
        if loc[0].startswith("@"):
            g = self.global_bytes(loc[0][1:])
            if g is not None:
                state.trace.append(("gload", loc[0][1:]))
                el, fl = fields_of(loc[1])
                if isinstance(el, int) and not fl and 0 <= el < len(g) and type_ == "i8":
                    return C(_s(g[el], 8))
        v = self.init_mem(state, loc[0], loc[1], type_)
        if v != TOP:
            state.mem[loc] = v
        return v

    def store(self, state, addr, val):
        loc = self._loc(state, addr)
        if loc is None:
            # unknown location: forget everything with the same base
            if addr[0] == "ptr":
                for k in [k for k in state.mem if k[0] == addr[1]]:
                    state.mem[k] = TOP
            return
        state.mem[loc] = val

    def _gmods(self, name):
        """(plain name, modules to search in order) for a possibly module-qualified global name"""
        if "\0" in name:
            name, mn = name.split("\0", 1)
            return name, [m for m in self.prog.modules if m.srcname == mn]
        home = getattr(self, "home_module", None)
        return name, ([home] if home is not None else []) + [x for x in self.prog.modules if x is not home]

    def _const_aggregate(self, name, path):
        """element of a constant global array / struct initialiser addressed by a concrete path, as a constant expression"""
        qual = name.split("\0", 1)[1] if "\0" in name else None
        name, mods = self._gmods(name)
        g = None
        for m in mods:
            g = m.globals.get(name)
            if g is not None:
                break
        if g is None or not g.constant or g.init is None or g.init.kind not in ("array", "struct"):
            return None
        v = g.init
        for q in path:
            if isinstance(q, tuple) and q[0] == "i":
                k = q[1]
            elif isinstance(q, tuple) and q[0] == "f":
                k = q[2]
            else:
                k = q
            if v.kind == "zero":
                return C(0)           # inside a zeroinitializer: every scalar member is zero / null
            if not isinstance(k, int) or v.kind not in ("array", "struct") or v.args is None or not (0 <= k < len(v.args)):
                return None
            v = v.args[k]
        # trailing first-member steps were normalised away: descend to the first scalar
        while v.kind in ("array", "struct") and v.args:
            v = v.args[0]
        if v.kind == "int":
            return C(v.v)
        if v.kind in ("null", "zero"):
            return C(0)
        # a pointer to another global (a table of string literals / function pointers)
        w = v
        hops = 0
        while w.kind == "cexpr" and w.args and hops < 4:
            if w.v == "getelementptr" and not all(a.kind == "int" and a.v == 0 for a in w.args[1:]):
                return None
            w = w.args[0]
            hops += 1
        if w.kind == "global":
            return ("ptr", "@" + w.v + (("\0" + qual) if qual and (w.v.startswith(".") or (g.module is not None and w.v in g.module.globals and g.module.globals[w.v].internal)) else ""), ())
        return None

    def global_bytes(self, name):
        """bytes of a constant global (string literal / constant char array), or None"""
        cache = self.__dict__.setdefault("_gb", {})
        if name in cache:
            return cache[name]
        r = None
        full = name
        name, mods = self._gmods(name)
        for m in mods:
            g = m.globals.get(name)
            if g is not None and g.constant:
                if g.bytes is not None:
                    r = g.bytes
                elif g.init is not None and g.init.kind == "array" and all(a.kind == "int" for a in g.init.args):
                    r = bytes(a.v % 256 for a in g.init.args)
                break
        cache[full] = r
        return r

    def fresh_root(self, state, hint, domain):
        state.nfresh += 1
        name = "%s#%d" % (hint, state.nfresh)
        state.roots[name] = frozenset(domain)
        return R(name)

    # ---- the walk ---------------------------------------------------------------------------------------
    def run(self, fn, args, state):
        self.home_module = fn.module      # private globals (string literals) are resolved in the analysed function's module first
        frame = Frame(fn)
        for (t, nm), a in zip(fn.params, args):
            if nm is not None:
                frame.regs[nm] = a
        self._walk([frame], fn.entry, None, state, 0)
        return self.leaves

    def _walk(self, stack, block, prev, state, idx):
        """iterative DFS over (stack, block, state)"""
        work = [(stack, block, prev, state, idx)]
        while work:
            stack, block, prev, state, idx = work.pop()
            if self.abort:
                self.leaves.append(Leaf("abort", state, None, block.instrs[0], self.abort))
                return
            if self.deadline is not None and (self.steps & 0x3ff) < 8:
                import time
                if time.time() > self.deadline:
                    raise AnalysisBroken("partial evaluation exceeded its time budget")
            if len(self.leaves) >= self.max_leaves or self.steps > self.max_steps:
                self.leaves.append(Leaf("limit", state))
                raise AnalysisBroken("partial evaluation exceeded its budget (%d leaves, %d steps)" % (len(self.leaves), self.steps))
            res = self._exec_block(stack, block, prev, state, idx)
            for item in res:
                work.append(item)

    def _exec_block(self, stack, block, prev, state, idx):
        frame = stack[-1]
        fn = frame.fn
        self.stats["blocks"] += 1
        if idx == 0:
            stop = self.stop_at_block(state, frame, block, prev)
            if stop:
                self.leaves.append(Leaf("stop", state, None, block.instrs[0], stop))
                return []
            n = frame.visits.get(block.name, 0) + 1
            frame.visits = dict(frame.visits)
            frame.visits[block.name] = n
            if self.max_visits and n > self.max_visits:
                self.leaves.append(Leaf("loopcut", state, None, block.instrs[0], block.name))
                return []
            # phis (parallel)
            newv = {}
            for i in block.instrs:
                if i.op != "phi":
                    break
                v = TOP
                if prev is not None:
                    for val, lab in i.x["incoming"]:
                        if lab == prev.name:
                            v = self.val(frame, val, state)
                            break
                if n > self.loop_widen and frame.regs.get(i.res) is not None and frame.regs.get(i.res) != v:
                    v = TOP
                newv[i.res] = v
            if newv:
                frame.regs = dict(frame.regs)
                frame.regs.update(newv)
            if self.memo_joins and len(block.preds) >= 2 and len(stack) == 1:
                from .cfg import cfg_of
                live = cfg_of(fn).live_in()[block.name]
                phis = {i.res for i in block.instrs if i.op == "phi"}
                key = (id(fn), block.name, state.key(),
                       frozenset((r, v) for r, v in frame.regs.items() if r in live or r in phis), self.trace_digest(state))
                if key in self.seen:
                    self.stats["memo_hits"] = self.stats.get("memo_hits", 0) + 1
                    return []
                self.seen.add(key)
            elif n > self.loop_widen + 2:
                key = (id(fn), block.name, state.key(), frozenset((k, v) for k, v in frame.regs.items()))
                if key in self.seen:
                    return []
                self.seen.add(key)
        instrs = block.instrs
        k = idx
        while k < len(instrs):
            i = instrs[k]
            k += 1
            self.steps += 1
            op = i.op
            if op == "phi":
                continue
            stop = self.stop_before(state, frame, i)
            if stop:
                self.leaves.append(Leaf("stop", state, None, i, stop))
                return []
            if op == "br":
                return self._branch(stack, block, i, state)
            if op == "switch":
                return self._switch(stack, block, i, state)
            if op == "ret":
                rv = self.val(frame, i.ops[0], state) if i.ops else None
                if len(stack) == 1:
                    self.leaves.append(Leaf("ret", state, rv, i))
                    return []
                # return into the caller
                caller_stack = stack[:-1]
                cframe, cinstr = frame.ret_to
                nf = Frame(cframe.fn)
                nf.regs = dict(cframe.regs)
                nf.visits = cframe.visits
                if hasattr(cframe, "ret_to"):
                    try:
                        nf.ret_to = cframe.ret_to
                    except AttributeError:
                        pass
                if cinstr.res is not None:
                    nf.regs[cinstr.res] = rv if rv is not None else TOP
                return [(caller_stack[:-1] + [nf], cinstr.block, None, state, cinstr.idx + 1)]
            if op == "unreachable":
                self.leaves.append(Leaf("unreachable", state, None, i))
                return []
            if op == "call":
                r = self._call(stack, block, i, state, k)
                if r is not None:
                    return r
                continue
            self._simple(frame, i, state)
        return []

    def _simple(self, frame, i, state):
        op = i.op
        regs = frame.regs
        if op == "sdiv" and ("__pdiff__" + (i.res or "")) in regs:
            frame.regs[i.res] = regs["__pdiff__" + i.res]
            return
        if op in ("add", "sub", "mul", "and", "or", "xor", "shl", "lshr", "ashr", "sdiv", "udiv", "srem", "urem"):
            a, b = self.val(frame, i.ops[0], state), self.val(frame, i.ops[1], state)
            if a[0] == "ptr" or b[0] == "ptr":
                v = TOP
                if op == "sub" and a[0] == "ptr" and b[0] == "ptr" and a[1] == b[1]:
                    v = self._ptrdiff(a, b)
                    # clang divides the byte difference by the element size (sdiv exact): our difference is already
                    # in elements, so the division is skipped by marking the value
                    from .cfg import cfg_of
                    us = cfg_of(frame.fn).users(i.res)
                    if v != TOP and len(us) == 1 and us[0].op == "sdiv" and us[0].ops[1].kind == "int":
                        frame.regs["__pdiff__" + us[0].res] = v
            else:
                v = mk(op, i.type, a, b)
        elif op == "icmp":
            a, b = self.val(frame, i.ops[0], state), self.val(frame, i.ops[1], state)
            v = mk("icmp." + i.x["pred"], "i1", a, b, _bits(i.ops[0].type))
        elif op in ("sext", "bitcast", "ptrtoint", "inttoptr"):
            v = self.val(frame, i.ops[0], state)
            if op == "sext" and v[0] not in ("c", "top", "ptr"):
                v = mk("sext", i.type, v)
        elif op == "zext":
            a = self.val(frame, i.ops[0], state)
            v = mk("zext", i.type, a, _bits(i.ops[0].type))
        elif op == "trunc":
            a = self.val(frame, i.ops[0], state)
            v = mk("trunc", i.type, a) if a[0] != "ptr" else TOP
        elif op == "getelementptr":
            base = self.val(frame, i.ops[0], state)
            if base[0] != "ptr":
                v = TOP
            else:
                v = self._gep(base, [self.val(frame, a, state) for a in i.ops[1:]], i.x["srcty"])
        elif op == "load":
            addr = self.val(frame, i.ops[0], state)
            v = self.load(state, addr, i.type)
        elif op == "store":
            addr = self.val(frame, i.ops[1], state)
            val = self.val(frame, i.ops[0], state)
            self.on_store(state, frame, i, addr, val)
            self.store(state, addr, val)
            return
        elif op == "alloca":
            v = ("ptr", "%s.%s" % (frame.fn.name, i.res), ())
        elif op == "select":
            c = self.val(frame, i.ops[0], state)
            a, b = self.val(frame, i.ops[1], state), self.val(frame, i.ops[2], state)
            if is_const(c):
                v = a if c[1] else b
            elif a == b:
                v = a
            elif a[0] == "ptr" or b[0] == "ptr":
                v = TOP
            else:
                v = mk("select", i.type, c, a, b)
        elif op in ("fcmp", "fadd", "fsub", "fmul", "fdiv", "fptosi", "fptoui", "sitofp", "uitofp", "fpext", "fptrunc",
                    "fneg", "extractvalue", "insertvalue", "atomicrmw", "cmpxchg", "va_arg", "fence", "frem"):
            v = TOP
        else:
            raise AnalysisBroken("pe: unhandled opcode " + op)
        if i.res is not None:
            frame.regs[i.res] = v

    # ---- control ------------------------------------------------------------------------------------
    def _split(self, state, cond):
        """returns list of (truth, state) for feasible outcomes of boolean expression cond"""
        if is_const(cond):
            return [(bool(cond[1]), state)]
        if has_top(cond):
            return [(True, state), (False, state.copy())]
        rs = sorted(roots_of(cond))
        if any(r not in state.roots for r in rs):
            return [(True, state), (False, state.copy())]
        total = 1
        for r in rs:
            total *= len(state.roots[r])
        if total > MAXSET:
            return [(True, state), (False, state.copy())]
        self.stats["splits"] += 1
        if len(rs) == 1:
            r = rs[0]
            t, f = set(), set()
            for v in state.roots[r]:
                try:
                    (t if ev(cond, {r: v}) else f).add(v)
                except Unknown:
                    t.add(v)
                    f.add(v)
            out = []
            if t:
                s = state if not f else state.copy()
                s.roots[r] = frozenset(t)
                out.append((True, s))
            if f:
                s = state if not t else state.copy()
                if t:
                    s = state.copy()
                s.roots[r] = frozenset(f)
                out.append((False, s))
            return out
        # several roots: enumerate the smallest-domain roots into singletons, refine the last one
        rs.sort(key=lambda r: len(state.roots[r]))
        head, last = rs[:-1], rs[-1]
        out = {}
        for vals in product(*[sorted(state.roots[r]) for r in head]):
            env = dict(zip(head, vals))
            t, f = set(), set()
            for v in state.roots[last]:
                env[last] = v
                try:
                    (t if ev(cond, env) else f).add(v)
                except Unknown:
                    t.add(v)
                    f.add(v)
            for truth, part in ((True, t), (False, f)):
                if part:
                    key = (truth, vals, frozenset(part))
                    out[key] = 1
        # merge sub-states with the same refined last-domain where possible: group by (truth, last part)
        groups = {}
        for (truth, vals, part) in out:
            groups.setdefault((truth, part), []).append(vals)
        res = []
        for (truth, part), vlist in groups.items():
            # head roots: keep as product only if the group is a full product; otherwise one state per head assignment
            cols = [frozenset(v[k] for v in vlist) for k in range(len(head))]
            n = 1
            for c in cols:
                n *= len(c)
            if n == len(vlist):
                s = state.copy()
                for r, c in zip(head, cols):
                    s.roots[r] = c
                s.roots[last] = part
                res.append((truth, s))
            else:
                for vals in vlist:
                    s = state.copy()
                    for r, v in zip(head, vals):
                        s.roots[r] = frozenset([v])
                    s.roots[last] = part
                    res.append((truth, s))
        return res

    def _branch(self, stack, block, i, state):
        frame = stack[-1]
        fn = frame.fn
        tg = i.x["targets"]
        if len(tg) == 1 or tg[0] == tg[1]:
            return [(stack, fn.blocks[tg[0]], block, state, 0)]
        cond = self.val(frame, i.ops[0], state)
        out = []
        for truth, st in self._split(state, cond):
            nb = fn.blocks[tg[0] if truth else tg[1]]
            nf = self._fork(frame)
            out.append((stack[:-1] + [nf], nb, block, st, 0))
        return out

    def _fork(self, frame):
        nf = Frame(frame.fn)
        nf.regs = dict(frame.regs)
        nf.visits = frame.visits
        if hasattr(frame, "ret_to"):
            try:
                nf.ret_to = frame.ret_to
            except AttributeError:
                pass
        return nf

    def _switch(self, stack, block, i, state):
        frame = stack[-1]
        fn = frame.fn
        v = self.val(frame, i.ops[0], state)
        cases = i.x["cases"]
        default = i.x["default"]
        vals = state.values(v)
        out = []
        if vals is None:
            for tgt in i.x["targets"]:
                out.append((stack[:-1] + [self._fork(frame)], fn.blocks[tgt], block, state.copy(), 0))
            return out
        # split on each distinct target
        bytgt = {}
        casemap = dict(cases)
        rs = sorted(roots_of(v))
        if len(rs) == 1:
            r = rs[0]
            for rv in state.roots[r]:
                x = ev(v, {r: rv})
                bytgt.setdefault(casemap.get(x, default), set()).add(rv)
            for tgt, part in bytgt.items():
                st = state.copy()
                st.roots[r] = frozenset(part)
                out.append((stack[:-1] + [self._fork(frame)], fn.blocks[tgt], block, st, 0))
            return out
        if is_const(v):
            return [(stack, fn.blocks[casemap.get(v[1], default)], block, state, 0)]
        tgts = {casemap.get(x, default) for x in vals}
        for tgt in tgts:
            out.append((stack[:-1] + [self._fork(frame)], fn.blocks[tgt], block, state.copy(), 0))
        return out

    def _call(self, stack, block, i, state, nextidx):
        frame = stack[-1]
        args = [self.val(frame, a, state) for a in i.ops]
        nm = i.callee
        r = self.call_model(state, frame, i, args)
        if r is not None:
            if r == "STOP":
                return []
            if i.res is not None:
                frame.regs[i.res] = r
            return None
        g = self.prog.resolve(nm, frame.fn.module) if nm else None
        if g is not None and len(stack) <= self.inline_depth and self.should_inline(g, i):
            self.stats["inlined"] += 1
            nf = Frame(g)
            for (t, pn), a in zip(g.params, args):
                if pn is not None:
                    nf.regs[pn] = a
            nf.ret_to = (frame, i)
            return [(stack + [nf], g.entry, None, state, 0)]
        state.trace.append(("call", nm or "indirect", tuple(args), i))
        if i.res is not None:
            frame.regs[i.res] = TOP
        return None
