"""The tokener's transition relation, extracted by partial evaluation (E3).

One *step* is a whole call json_tokener_parse_ex(tok, &byte, 1) (or with len == -1 / a NUL byte for the
string-mode rules): the function is walked from its entry with the tokener's fields set to a concrete
configuration and the input byte ranging over all 256 values, lazily split by the comparisons the code makes.
Feeding a text one byte per call is one particular chunking; by the split-independence property (C03) it has
the same observable behaviour as any other, and it makes every step a complete, self-contained walk.

configuration = (depth, ((state, saved_state, has_current, has_field_name) for each level 0..depth),
                 quote_char, st_pos, is_double, high_surrogate_set)

Allocation-failure branches are excluded here (allocators and print-buffer calls succeed); they are C08's subject.
Literal and number tokens are opaque: strncmp/strncasecmp/strtod-style results are unknown (both branches).
"""
import json
import os
import hashlib

from . import pe
from .frontend import AnalysisBroken, WORK

F_STRICT, F_TRAILING, F_UTF8 = 1, 2, 16

# struct json_tokener field indices are read from debug info at run time
TOK_FIELDS = ["str", "pb", "max_depth", "depth", "is_double", "st_pos", "char_offset", "err", "ucs_char",
              "high_surrogate", "quote_char", "stack", "flags"]
SREC_FIELDS = ["state", "saved_state", "obj", "current", "obj_field_name"]


class TokPE(pe.PE):
    def __init__(self, prog, fields, sfields, cfg, flags, max_depth, length, byte_domain):
        super().__init__(prog, max_leaves=20000, max_steps=1500000, inline_depth=4)
        self.F = fields
        self.S = sfields
        self.cfg = cfg
        self.flags = flags
        self.max_depth = max_depth
        self.length = length
        self.byte_domain = byte_domain
        self.loop_widen = 64
        self.memo_joins = True
        self.overrides = {}      # tokener field name -> initial expression (for rules that make a data field a root)

    SIGNIFICANT = ("printbuf_memappend", "json_object_new_object", "json_object_new_array", "json_object_new_string_len",
                   "json_object_new_double", "json_object_new_double_s", "json_object_new_int64", "json_object_new_uint64",
                   "json_object_new_boolean", "json_object_array_add", "json_object_object_add", "strdup", "json_object_put",
                   "json_object_get", "free")

    def on_store(self, state, frame, instr, addr, val):
        if addr[0] == "ptr" and addr[1] in ("pb", "pbbuf"):
            state.trace.append(("pbstore", addr[1]))
        if addr[0] == "ptr" and addr[1] == "tok":
            loc = self._loc(state, addr)
            if loc is not None:
                el, fl = pe.fields_of(loc[1])
                state.trace.append(("wr", fl[0] if fl else 0))
                if (fl[0] if fl else 0) == self.F["depth"] and pe.is_const(val) and not (0 <= val[1] < self.max_depth):
                    # the level index leaves the stack: nothing after this point is meaningful; the nesting-limit rules report it
                    self.depth_oob = (val[1], sorted(state.roots.get("c", ()))[:4])
                    self.abort = "level index %d outside the stack of %d records" % (val[1], self.max_depth)
        if addr[0] == "ptr" and addr[1] == "stack":
            state.trace.append(("wrstack",))

    def trace_digest(self, state):
        return tuple((e[1], e[2][1:] if e[1] == "printbuf_memappend" else None) for e in state.trace
                     if e[0] == "lookahead" or (e[0] == "call" and e[1] in self.SIGNIFICANT))

    def should_inline(self, g, instr):
        return g.internal and g.name in ("json_tokener_reset_level", "json_tokener_validate_utf8", "is_ws_char", "is_hex_char", "jt_hexdigit")

    def init_mem(self, state, base, path, t):
        F, S = self.F, self.S
        depth, levels, quote, st_pos, is_double, hs = self.cfg
        el, fl = pe.fields_of(path)
        if base == "tok":
            if el != 0 or len(fl) > 1:
                return pe.TOP
            k = fl[0] if fl else 0
            state.trace.append(("rd", k))
            for oname, oval in self.overrides.items():
                if k == F[oname]:
                    return oval
            if k == F["depth"]:
                return pe.C(depth)
            if k == F["max_depth"]:
                return pe.C(self.max_depth)
            if k == F["flags"]:
                return pe.C(self.flags)
            if k == F["stack"]:
                return ("ptr", "stack", ())
            if k == F["pb"]:
                return ("ptr", "pb", ())
            if k == F["quote_char"]:
                return pe.C(quote)
            if k == F["st_pos"]:
                return pe.C(st_pos)
            if k == F["is_double"]:
                return pe.C(is_double)
            if k == F["high_surrogate"]:
                return pe.C(0) if not hs else pe.TOP
            if k == F["char_offset"]:
                return pe.C(0)
            if k == F["err"]:
                return pe.C(0)
            return pe.TOP
        if base == "stack":
            if not isinstance(el, int) or len(fl) > 1:
                return pe.TOP
            k = fl[0] if fl else 0
            if 0 <= el < len(levels):
                st, sv, cur, fld = levels[el]
                if k == S["state"]:
                    return pe.C(st)
                if k == S["saved_state"]:
                    return pe.C(sv)
                if k == S["current"]:
                    return ("ptr", "node%d" % el, ()) if cur else pe.C(0)
                if k == S["obj_field_name"]:
                    return ("ptr", "fname%d" % el, ()) if fld else pe.C(0)
            return pe.TOP
        if base == "input":
            if path == ():
                state.trace.append(("read", 0))
                if "c" not in state.roots:
                    state.roots["c"] = frozenset(self.byte_domain)
                return pe.R("c")
            el, fl = pe.fields_of(path)
            if not fl and isinstance(el, int) and 0 < el < self.length:
                nm = "c%d" % el
                state.trace.append(("read", el))
                if nm not in state.roots:
                    state.roots[nm] = frozenset(getattr(self, "byte_domain2", None) or self.byte_domain)
                return pe.R(nm)
            state.trace.append(("lookahead", path))
            if self.length < 0:
                # NUL-terminated mode: one read past the checked position is enough to decide the rule; do not keep
                # walking through memory the parser was never given
                self.abort = "read of input offset %r in NUL-terminated mode" % (el,)
            return pe.TOP
        return pe.TOP

    # libc functions that read through a pointer argument: (pointer argument index, length argument index or None = to the NUL)
    READERS = {"strncmp": ((0, 2), (1, 2)), "strncasecmp": ((0, 2), (1, 2)), "memcmp": ((0, 2), (1, 2)), "memcpy": ((1, 2),),
               "memmove": ((1, 2),), "strcmp": ((0, None), (1, None)), "strcasecmp": ((0, None), (1, None)), "strlen": ((0, None),),
               "strchr": ((0, None),), "strstr": ((0, None), (1, None)), "strtod": ((0, None),), "strtol": ((0, None),),
               "strtoll": ((0, None),), "strtoull": ((0, None),), "strdup": ((0, None),), "memchr": ((0, 2),)}

    def _unwritten_global_bytes(self, name):
        cache = self.__dict__.setdefault("_ugb", {})
        if name in cache:
            return cache[name]
        res = None
        m = self.home_module if getattr(self, "home_module", None) is not None else None
        g = m.globals.get(name) if m is not None else None
        init_bytes = None
        if g is not None and g.bytes is not None:
            init_bytes = bytes(g.bytes)
        elif g is not None and g.init is not None and g.init.kind == "array" and all(a.kind == "int" for a in g.init.args):
            init_bytes = bytes(a.v % 256 for a in g.init.args)
        if init_bytes is not None:
            def refers(v):
                if v.kind == "global":
                    return v.v == name
                if v.kind == "cexpr":
                    return any(refers(a) for a in v.args)
                return False
            written = False
            for f in m.functions.values():
                if f.is_decl:
                    continue
                for i in f.instrs():
                    if i.op == "store" and refers(i.ops[1]):
                        written = True
                    elif i.op == "call" and i.ops and refers(i.ops[0]) and (i.callee or "").startswith(("llvm.mem", "mem", "str", "snprintf", "sprintf")):
                        written = True
                    elif i.op in ("getelementptr", "bitcast") and any(refers(o) for o in i.ops):
                        written = True      # address taken into a register: not followed here
            if not written:
                res = init_bytes
        cache[name] = res
        return res

    def _note_input_reads(self, state, nm, args):
        """a library call that reads through a pointer into the caller's input counts as reads of those bytes; bytes outside
        the chunk that was given (before its start, or at / after its length) are look-ahead"""
        spec = self.READERS.get(nm)
        if spec is None:
            return
        for pk, lk in spec:
            if pk >= len(args):
                continue
            a = args[pk]
            if not (isinstance(a, tuple) and a and a[0] == "ptr" and a[1] == "input"):
                continue
            el, fl = pe.fields_of(a[2]) if a[2] else (0, ())
            if self.length < 0:
                # NUL-terminated mode: the text extends to its terminator; only a pointer before its start is out of bounds here
                if isinstance(el, int) and el < 0:
                    state.trace.append(("lookahead", a[2]))
                continue
            n = None
            if lk is not None and lk < len(args) and pe.is_const(args[lk]):
                n = args[lk][1]
            if not isinstance(el, int) or n is None:
                state.trace.append(("lookahead", a[2]))
                continue
            for k in range(el, el + max(n, 0)):
                if 0 <= k < self.length:
                    state.trace.append(("read", k))
                else:
                    state.trace.append(("lookahead", (("i", k),)))
                    break

    def call_model(self, state, frame, i, args):
        nm = i.callee
        if nm is None:
            return None
        self._note_input_reads(state, nm, args)
        if (nm.startswith("llvm.memcpy") or nm.startswith("llvm.memmove") or nm in ("memcpy", "memmove")) and len(args) >= 3 \
                and pe.is_const(args[2]) and 0 <= args[2][1] <= 32 and args[0][0] == "ptr" and args[1][0] == "ptr" \
                and args[0][1] not in ("tok", "stack", "pb", "input"):
            # a small copy into a local buffer: byte by byte
            def at(p, k):
                if k == 0:
                    return p
                path = list(p[2])
                if path and isinstance(path[-1], tuple) and path[-1][0] == "i" and isinstance(path[-1][1], int):
                    path[-1] = ("i", path[-1][1] + k)
                else:
                    path.append(("i", k))
                return ("ptr", p[1], tuple(path))
            vals = [self.load(state, at(args[1], k), "i8") for k in range(args[2][1])]
            if any(v == pe.TOP for v in vals) and args[1][1].startswith("@"):
                # a file-scope array that no function ever writes is as good as a constant
                init = self._unwritten_global_bytes(args[1][1][1:])
                if init is not None:
                    el0, fl0 = pe.fields_of(self._loc(state, args[1])[1])
                    if not fl0 and isinstance(el0, int) and el0 + args[2][1] <= len(init):
                        vals = [pe.C(b if b < 128 else b - 256) for b in init[el0:el0 + args[2][1]]]
            for k, v in enumerate(vals):
                self.store(state, at(args[0], k), v)
            return args[0]
        if nm in ("uselocale", "newlocale", "duplocale"):
            return ("ptr", "locale", ())
        if nm in ("freelocale", "free", "printbuf_reset", "json_object_array_shrink", "setlocale"):
            state.trace.append(("call", nm, tuple(args), i))
            return pe.C(0)
        if nm == "json_object_put":
            state.trace.append(("call", nm, tuple(args), i))
            return pe.C(0)
        if nm == "__errno_location":
            return ("ptr", "errno", ())
        if nm in ("printbuf_memappend", "printbuf_memset", "sprintbuf"):
            snap = None
            if nm == "printbuf_memappend" and len(args) > 2 and args[1][0] == "ptr" and not args[1][1].startswith("@") \
                    and args[1][1] != "input" and pe.is_const(args[2]) and 0 < args[2][1] <= 16:
                # a local buffer: the bytes it holds now (it may be refilled later in the same call)
                loc0 = self._loc(state, args[1])
                if loc0 is not None:
                    el0, fl0 = pe.fields_of(loc0[1])
                    if not fl0 and isinstance(el0, int):
                        vals = []
                        for k in range(args[2][1]):
                            idx = el0 + k
                            v = state.mem.get((args[1][1], (("i", idx),) if idx else ()))
                            vals.append(v)
                        snap = vals
            state.trace.append(("call", nm, tuple(args), i, snap))
            return pe.C(0) if nm != "printbuf_memappend" else (args[2] if args[2][0] == "c" else pe.C(1))
        if nm in ("json_object_new_object", "json_object_new_array", "json_object_new_string_len", "json_object_new_double",
                  "json_object_new_double_s", "json_object_new_int64", "json_object_new_uint64", "json_object_new_boolean",
                  "json_object_new_int", "json_object_new_string"):
            state.trace.append(("call", nm, tuple(args), i))
            return ("ptr", "newnode", ())
        if nm == "strdup":
            state.trace.append(("call", nm, tuple(args), i))
            return ("ptr", "newname", ())
        if nm == "json_object_get":
            state.trace.append(("call", nm, tuple(args), i))
            return args[0]
        if nm in ("json_object_array_add", "json_object_object_add"):
            state.trace.append(("call", nm, tuple(args), i))
            return pe.C(0)
        if nm == "strlen":
            return pe.TOP
        return None


def struct_indices(prog):
    m = prog.module("json_tokener.c")
    tf = m.struct_fields("%struct.json_tokener")
    sf = m.struct_fields("%struct.json_tokener_srec")
    if not tf or not sf:
        raise AnalysisBroken("json_tokener struct layout not found in debug info")
    for n in ("depth", "max_depth", "flags", "stack", "pb", "quote_char", "st_pos", "is_double", "high_surrogate",
              "char_offset", "err", "ucs_char"):
        if n not in tf:
            raise AnalysisBroken("json_tokener has no field '%s'" % n)
    for n in ("state", "saved_state", "current", "obj_field_name"):
        if n not in sf:
            raise AnalysisBroken("json_tokener_srec has no field '%s'" % n)
    return {n: k for k, n in enumerate(tf)}, {n: k for k, n in enumerate(sf)}


def initial_config():
    # a freshly reset tokener: depth 0, level 0 = (eatws, start, no current, no field name)
    return (0, ((0, 1, 0, 0),), 0, 0, 0, 0)


class Outcome:
    __slots__ = ("bytes", "err", "ret_nonnull", "consumed", "next", "appends", "calls", "lookahead", "stores", "gloads", "pbstores", "reads", "field_reads", "field_writes", "tail", "bytes1")

    def to_json(self):
        return {"bytes": _ranges(self.bytes), "err": self.err, "ret": self.ret_nonnull, "consumed": self.consumed,
                "next": self.next, "appends": self.appends, "calls": self.calls}


def _ranges(bs):
    bs = sorted(b % 256 for b in bs)
    out = []
    for b in bs:
        if out and out[-1][1] == b - 1:
            out[-1][1] = b
        else:
            out.append([b, b])
    return out


class Table:
    def __init__(self, prog, flags, max_depth, mode="len1"):
        self.prog = prog
        self.flags = flags
        self.max_depth = max_depth
        self.mode = mode
        self.F, self.S = struct_indices(prog)
        m = prog.module("json_tokener.c")
        self.states = m.enumerators("json_tokener_state")
        self.errors = m.enumerators("json_tokener_error")
        self.state_name = {v: k.replace("json_tokener_state_", "") for k, v in self.states.items()}
        self.err_name = {v: k.replace("json_tokener_", "") for k, v in self.errors.items()}
        self.fn = prog.fn("json_tokener_parse_ex")
        if self.fn is None:
            raise AnalysisBroken("json_tokener_parse_ex not found")
        self.trans = {}     # config -> [Outcome]
        self.stats = {"configs": 0, "leaves": 0, "steps": 0}

    def step(self, cfg, byte_domain=None, length=1, overrides=None, roots=None, keep_state=False):
        """all outcomes of one call from configuration cfg"""
        h = TokPE(self.prog, self.F, self.S, cfg, self.flags, self.max_depth, length,
                  byte_domain if byte_domain is not None else range(-128, 128))
        if overrides:
            h.overrides = dict(overrides)
        h.deadline = getattr(self, "deadline", None)
        st = pe.State()
        for rname, dom in (roots or {}).items():
            st.roots[rname] = frozenset(dom)
        args = [("ptr", "tok", ()), ("ptr", "input", ()), pe.C(length)]
        h.depth_oob = None
        leaves = h.run(self.fn, args, st)
        if h.depth_oob is not None:
            self.stats.setdefault("out_of_range", []).append((cfg, h.depth_oob[0], h.depth_oob[1]))
            leaves = [lf for lf in leaves if lf.kind != "abort"]
        self.stats["leaves"] += len(leaves)
        self.stats["steps"] += h.steps
        outs = []
        leaves = self._split_on_tracked(leaves)
        for lf in leaves:
            if lf.kind == "abort":
                o = Outcome()
                o.bytes = frozenset(lf.state.roots.get("c", frozenset(byte_domain if byte_domain is not None else range(-128, 128))))
                o.bytes1 = None
                o.err, o.ret_nonnull, o.consumed, o.next = None, None, None, None
                o.appends, o.calls, o.gloads, o.pbstores, o.reads = [], [], [], 0, 1
                o.lookahead = True
                o.field_reads, o.field_writes, o.tail, o.stores = [], [], (), None
                outs.append(o)
                continue
            if lf.kind != "ret":
                raise AnalysisBroken("tokener walk ended with %s at %s (config %s)" % (lf.kind, lf.at.locstr() if lf.at else "?", self.cfg_str(cfg)))
            o = Outcome()
            s = lf.state
            o.bytes = frozenset(s.roots.get("c", frozenset(byte_domain if byte_domain is not None else range(-128, 128))))
            o.bytes1 = frozenset(s.roots["c1"]) if "c1" in s.roots else None
            o.err = self._const(s, self.tokloc(self.F["err"]), 0)
            o.ret_nonnull = None if lf.value is None else (lf.value[0] == "ptr") if lf.value[0] in ("ptr", "c") else None
            o.consumed = self._const(s, self.tokloc(self.F["char_offset"]), 0)
            o.next = self._next_config(s, cfg)
            o.appends = []
            o.calls = []
            o.stores = s if keep_state else None
            o.lookahead = any(e[0] == "lookahead" for e in s.trace)
            o.gloads = sorted({e[1] for e in s.trace if e[0] == "gload"})
            o.reads = sum(1 for e in s.trace if e[0] == "read")
            # what happens after the cursor was last advanced (the end-of-chunk probe and the exit path)
            last = -1
            for k, e in enumerate(s.trace):
                if e[0] == "wr" and e[1] == self.F["char_offset"]:
                    last = k
            fidx0 = {v: k for k, v in self.F.items()}
            tail = []
            for e in s.trace[last + 1:]:
                if e[0] == "wr":
                    tail.append("wr:" + fidx0.get(e[1], str(e[1])))
                elif e[0] == "wrstack":
                    tail.append("wr:stack")
                elif e[0] == "call":
                    tail.append("call:" + e[1])
                elif e[0] in ("read", "lookahead", "pbstore"):
                    tail.append(e[0])
            o.tail = tuple(tail)
            fidx = {v: k for k, v in self.F.items()}
            o.field_reads = sorted({fidx.get(e[1], str(e[1])) for e in s.trace if e[0] == "rd"})
            o.field_writes = sorted({fidx.get(e[1], str(e[1])) for e in s.trace if e[0] == "wr"})
            o.pbstores = sum(1 for e in s.trace if e[0] == "pbstore")
            for e in s.trace:
                if e[0] == "call":
                    o.calls.append(e[1])
                    if e[1] == "printbuf_memappend":
                        o.appends.append(self._append_desc(e, s))
            outs.append(o)
        # merge leaves that differ only in the path taken through opaque (unknown-result) calls
        if keep_state:
            return outs
        merged = {}
        for o in outs:
            key = (o.bytes, o.bytes1, o.err, o.ret_nonnull, o.consumed, o.next, json.dumps(o.appends, sort_keys=True), tuple(sorted(set(o.calls))), o.lookahead, tuple(o.gloads), o.pbstores, o.reads > 0, tuple(o.field_reads), tuple(o.field_writes), o.tail)
            merged.setdefault(key, o)
        return list(merged.values())

    def _tracked_locs(self, depth_hint=3):
        F, S = self.F, self.S
        locs = [self.tokloc(F[n]) for n in ("depth", "quote_char", "st_pos", "is_double", "err", "char_offset")]
        for d in range(depth_hint):
            for n in ("state", "saved_state"):
                locs.append(self.stackloc(d, S[n]))
        return locs

    def _split_on_tracked(self, leaves):
        """a tracked parser field may hold an expression over a root with several values (e.g. quote_char = c with
        c in {'"', "'"}): split such a leaf into one leaf per value so that every successor configuration is concrete"""
        from itertools import product as iproduct
        out = []
        for lf in leaves:
            if lf.kind != "ret":
                out.append(lf)
                continue
            s = lf.state
            rs = set()
            for loc in self._tracked_locs():
                v = s.mem.get(loc)
                if v is not None and not pe.is_const(v) and not pe.has_top(v):
                    rs |= pe.roots_of(v)
            rs = sorted(r for r in rs if r in s.roots and len(s.roots[r]) > 1)
            n = 1
            for r in rs:
                n *= len(s.roots[r])
            if not rs or n > 512:
                out.append(lf)
                continue
            # group assignments by the resulting tuple of tracked values to keep byte classes as large as possible
            groups = {}
            for vals in iproduct(*[sorted(s.roots[r]) for r in rs]):
                env = dict(zip(rs, vals))
                key = []
                for loc in self._tracked_locs():
                    v = s.mem.get(loc)
                    if v is None or pe.is_const(v) or pe.has_top(v) or not (pe.roots_of(v) <= set(rs)):
                        key.append(None)
                    else:
                        try:
                            key.append(pe.ev(v, env))
                        except pe.Unknown:
                            key.append(None)
                groups.setdefault(tuple(key), []).append(vals)
            for key, vlist in groups.items():
                s2 = s.copy()
                cols = [frozenset(v[k] for v in vlist) for k in range(len(rs))]
                for r, c in zip(rs, cols):
                    s2.roots[r] = c
                for loc, kv in zip(self._tracked_locs(), key):
                    if kv is not None:
                        s2.mem[loc] = pe.C(kv)
                out.append(pe.Leaf("ret", s2, lf.value, lf.at))
        return out

    def _append_desc(self, e, s):
        args = e[2]
        src, ln = args[1], args[2]
        d = {"len": ln[1] if pe.is_const(ln) else None}
        if src[0] == "ptr":
            if src[1].startswith("@"):
                g = self.fn.module.globals.get(src[1][1:])
                d["src"] = "literal"
                off = 0
                if src[2]:
                    lastp = src[2][-1]
                    off = lastp[1] if isinstance(lastp, tuple) and lastp[0] == "i" and isinstance(lastp[1], int) else 0
                if g is not None and g.bytes is not None:
                    d["bytes"] = list(g.bytes[off:off + (d["len"] or 0)])
                elif g is not None and g.init is not None and g.init.kind == "array":
                    d["bytes"] = [a.v % 256 for a in g.init.args if a.kind == "int"][:d["len"] or 0]
                    d["src"] = "table:" + src[1][1:]
            elif src[1].endswith(".c") or ".c" in src[1]:
                d["src"] = "c"
            elif src[1] == "input":
                d["src"] = "input"
            else:
                d["src"] = src[1]
                # a local buffer: when every appended byte is a constant on this path the append is as good as a literal's
                n = d["len"]
                snap = e[4] if len(e) > 4 else None
                if snap is not None and n is not None and len(snap) == n:
                    if all(v is not None and pe.is_const(v) for v in snap):
                        d["src"] = "literal"
                        d["bytes"] = [v[1] % 256 for v in snap]
                    elif n == 1 and snap[0] == pe.R("c"):
                        d["src"] = "c"
                elif n is not None and 0 < n <= 16:
                    el0, fl0 = pe.fields_of(src[2]) if src[2] else (0, ())
                    vals = []
                    for k in range(n):
                        if fl0 or not isinstance(el0, int):
                            vals = None
                            break
                        idx = el0 + k
                        v = s.mem.get((src[1], (("i", idx),) if idx else ()))
                        if v is None or not pe.is_const(v):
                            # the byte just read from the input, copied through the local
                            if v is not None and v == pe.R("c") and n == 1:
                                d["src"] = "c"
                            vals = None
                            break
                        vals.append(v[1] % 256)
                    if vals is not None:
                        d["src"] = "literal"
                        d["bytes"] = vals
        else:
            d["src"] = "?"
        return d

    @staticmethod
    def tokloc(k):
        return ("tok", ((("i", 0), k) if k else ()))

    @staticmethod
    def stackloc(d, k):
        p = [("i", d), k]
        while p and (p[-1] == 0 or p[-1] == ("i", 0)):
            p.pop()
        return ("stack", tuple(p))

    def _const(self, s, loc, default):
        v = s.mem.get(loc)
        if v is None:
            return default
        if pe.is_const(v):
            return v[1]
        vs = s.values(v)
        if vs is not None and len(vs) == 1:
            return next(iter(vs))
        return None

    def _next_config(self, s, cfg):
        F, S = self.F, self.S
        depth0, levels0, quote0, st0, dbl0, hs0 = cfg

        def fld(k, default):
            v = s.mem.get(self.tokloc(k))
            if v is None:
                return default
            if pe.is_const(v):
                return v[1]
            vs = s.values(v)
            if vs is not None and len(vs) == 1:
                return next(iter(vs))
            return None
        depth = fld(F["depth"], depth0)
        if depth is None:
            raise AnalysisBroken("tok->depth not constant at the end of a step")
        levels = []
        for d in range(depth + 1):
            base = levels0[d] if d < len(levels0) else (None, None, 0, 0)
            vals = []
            for name, dflt in (("state", base[0]), ("saved_state", base[1]), ("current", base[2]), ("obj_field_name", base[3])):
                k = S[name]
                v = s.mem.get(self.stackloc(d, k))
                if v is None:
                    vals.append(dflt)
                elif name in ("current", "obj_field_name"):
                    vals.append(0 if (pe.is_const(v) and v[1] == 0) else 1)
                elif pe.is_const(v):
                    vals.append(v[1])
                else:
                    vs = s.values(v)
                    vals.append(next(iter(vs)) if vs is not None and len(vs) == 1 else None)
            levels.append(tuple(vals))
        quote = fld(F["quote_char"], quote0)
        st_pos = fld(F["st_pos"], st0)
        dbl = fld(F["is_double"], dbl0)
        hsv = s.mem.get(self.tokloc(F["high_surrogate"]))
        hs = hs0 if hsv is None else (0 if (pe.is_const(hsv) and hsv[1] == 0) else 1)
        return (depth, tuple(levels), quote, st_pos, dbl, hs)

    # ---- fixpoint -------------------------------------------------------------------------------
    def canon(self, cfg):
        """drop fields that the configuration's states never read, so equivalent configurations merge"""
        depth, levels, quote, st_pos, dbl, hs = cfg
        top = levels[depth]
        names = {self.state_name.get(top[0], "?"), self.state_name.get(top[1], "?")}
        uses_quote = names & {"string", "object_field", "string_escape", "escape_unicode", "escape_unicode_need_escape",
                              "escape_unicode_need_u"}
        uses_pos = names & {"null", "boolean", "inf", "escape_unicode"}
        uses_dbl = names & {"number"}
        if st_pos is not None and st_pos > 9:
            # beyond the longest literal: such configurations only arise because literal matching is opaque here
            st_pos = 9
        return (depth, levels, quote if uses_quote else 0, st_pos if uses_pos else 0, dbl if uses_dbl else 0,
                hs if uses_quote else 0)

    def build(self, start=None, limit=None, budget_s=None):
        import time
        t0 = time.time()
        budget_s = budget_s or float(os.environ.get("JCV_TOK_BUDGET", "150"))
        limit = limit or int(os.environ.get("JCV_TOK_LIMIT", "4000"))
        work = [self.canon(start or initial_config())]
        seen = set(work)
        self.deadline = t0 + budget_s
        while work:
            if time.time() - t0 > budget_s:
                raise AnalysisBroken("tokener automaton extraction exceeded its time budget (%ds, %d configurations so far)"
                                     % (budget_s, self.stats["configs"]))
            cfg = work.pop()
            outs = self.step(cfg)
            self.trans[cfg] = outs
            self.stats["configs"] += 1
            if self.stats["configs"] > limit:
                raise AnalysisBroken("tokener automaton has more than %d configurations" % limit)
            for o in outs:
                if o.err in (0, 1) and o.next is not None:
                    if o.next[0] < 0 or o.next[0] >= self.max_depth:
                        # the level index left the stack: reported by the nesting-limit rules, not explored further
                        self.stats.setdefault("out_of_range", []).append((cfg, o.next[0], sorted(o.bytes)[:4]))
                        o.next = None
                        continue
                    if any(None in lv for lv in o.next[1]) or None in o.next[2:5]:
                        raise AnalysisBroken("non-constant parser field after a step from %s" % self.cfg_str(cfg))
                    n = self.canon(o.next)
                    o.next = n
                    if n not in seen:
                        seen.add(n)
                        work.append(n)
        self.deadline = None
        return self

    def cfg_str(self, cfg):
        depth, levels, quote, st_pos, dbl, hs = cfg
        lv = ["%s/%s%s%s" % (self.state_name.get(a, a), self.state_name.get(b, b), "+cur" if c else "", "+key" if d else "")
              for a, b, c, d in levels]
        extra = []
        if quote:
            extra.append("q=%s" % chr(quote))
        if st_pos:
            extra.append("pos=%d" % st_pos)
        if dbl:
            extra.append("dbl")
        if hs:
            extra.append("hs")
        return "d%d[%s]%s" % (depth, " | ".join(lv), (" " + ",".join(extra)) if extra else "")


_cache = {}


def get_table(prog, flags, max_depth):
    """transition table, cached in memory and on disk (keyed by the IR hash of json_tokener.c and of this engine)"""
    import pickle
    key = (id(prog), flags, max_depth)
    if key in _cache:
        return _cache[key]
    irhash = [u["hash"] for u in prog.units if u["file"] == "json_tokener.c"][0]
    here = os.path.dirname(os.path.abspath(__file__))
    h = hashlib.sha256()
    for f in ("tokauto.py", "pe.py", "ir.py"):
        with open(os.path.join(here, f), "rb") as fh:
            h.update(fh.read())
    tag = "%s-%s-f%d-d%d-%s" % (prog.variant, irhash, flags, max_depth, h.hexdigest()[:12])
    cdir = os.path.join(WORK, "tok")
    os.makedirs(cdir, exist_ok=True)
    path = os.path.join(cdir, tag + ".pkl")
    T = Table(prog, flags, max_depth)
    if os.path.isfile(path):
        try:
            with open(path, "rb") as fh:
                T.trans, T.stats = pickle.load(fh)
            T.stats = dict(T.stats, cached=True)
            _cache[key] = T
            return T
        except Exception:
            pass
    T.build()
    # the cache is shared by checks that may run at the same time: write under a private name, publish by rename, and never
    # touch another process's temporary file; a failure to cache is not a failure of the analysis
    tmp = path + ".tmp%d" % os.getpid()
    try:
        with open(tmp, "wb") as fh:
            pickle.dump((T.trans, T.stats), fh)
        os.rename(tmp, path)
    except OSError:
        pass
    for f in os.listdir(cdir):
        if f.endswith(".pkl") and f.startswith("%s-" % prog.variant) and ("-f%d-d%d-" % (flags, max_depth)) in f and f != tag + ".pkl":
            try:
                os.unlink(os.path.join(cdir, f))
            except OSError:
                pass
    _cache[key] = T
    return T
