"""C01 - parsing a valid JSON text yields exactly the value the text denotes.

Decided clauses (structure only; numeric conversion, UTF-8 bit arithmetic and whole documents are value-level):
R1 the extracted tokener automaton simulates the RFC 8259 grammar: every byte the reference accepts is accepted, in
   default and strict mode, at every product-reachable position
R2 escape decode table: each simple escape appends exactly the RFC's byte; 'u' starts the hex sequence; others fail
R3 surrogate control structure: byte counts per code-point class, replacement character on every non-pair path, the
   pending high surrogate is cleared
R4 token-buffer length discipline: a buffer that may contain a decoded NUL reaches node construction only through
   length-aware consumers
R5 every parser state enumerator has a case in the dispatch
"""
from ..ir import load_program
from ..cfg import cfg_of
from ..flow import Paths
from .. import tokauto, tokrules, product, pe, rfcref
from ..tokrules import F_STRICT

RFC_ESC = {ord('"'): 0x22, ord("\\"): 0x5C, ord("/"): 0x2F, ord("b"): 0x08, ord("f"): 0x0C, ord("n"): 0x0A, ord("r"): 0x0D,
           ord("t"): 0x09}
REPL = [0xEF, 0xBF, 0xBD]


def run(chk):
    prog = load_program("default")
    chk.variant(prog)
    f = prog.fn("json_tokener_parse_ex")
    chk.require(f is not None, "json_tokener_parse_ex not found")
    chk.touched(f)
    r5(chk, prog, f)
    depths = [2] if chk.tier == "quick" else [2, 3]
    for D in depths:
        r1(chk, prog, D)
    r2(chk, prog)
    r3(chk, prog)
    r4(chk, prog, f)
    r6(chk, prog, f)
    from .. import numrules
    numrules.rule_valid_numbers(chk, prog, "C01.R7")
    numrules.rule_literals(chk, prog, "C01.R8", None, None)
    # the file-descriptor entry points parse the whole text: every byte read reaches the tokener in order (shared with C20)
    from . import c20
    mu = prog.module("json_util.c")
    chk.require(mu is not None, "json_util.c not in the build")
    with chk.shared():
        c20.r2(chk, prog, mu)
        c20._confirm_shape_rules(chk, prog, mu, only=("C20.R2",))
    from . import c06
    with chk.shared():
        c06.r2(chk, prog)           # duplicate member names: the last value wins and the member keeps its first position (shared with C06)
    chk.undecided_clauses += [
        "the numeric conversions themselves (strtod / strtoll / strtoull are trusted; R6 decides only that their results reach the node unmodified)",
        "UTF-8 bit arithmetic of the \\\\u decoder (only the branch structure and byte counts are decided)",
        "number and literal tokens are opaque to the general automaton (R1) and decided separately with the token buffer modelled "
        "(R7, R8; strtod / strtoll / strtoull, strncmp / strncasecmp taken at their ISO C / POSIX contracts)",
        "equality of whole parsed documents with an independent parser's result",
    ]
    chk.assumptions.append("feeding one byte per call is observationally the same as any other chunking (property C03)")


def r1(chk, prog, D):
    rid = "C01.R1"
    chk.rule(rid, "at every product-reachable (parser configuration, RFC grammar position) pair, each byte class the RFC grammar "
                  "accepts there is accepted (no fatal error), in default and in strict mode")
    for flags, ext, name in ((0, True, "default"), (F_STRICT, False, "strict")):
        T, stats, checks, parent = tokrules.get_product(prog, flags, D, ext)
        tokrules.describe_table(chk, T, "%s_d%d" % (name, D))
        groups = tokrules.group_obligations(checks, lambda c: c.get("oblig") == "must-accept" and not c.get("ext_kind"),
                                            lambda c: tokrules.pos_name(c["ref"]))
        for pos, (cnt, bad) in sorted(groups.items()):
            sig = "%s mode, position %s (limit %d)" % (name, pos, D)
            if not bad:
                chk.proven(rid, "json_tokener_parse_ex", sig, "json_tokener.c", "%d (configuration, byte class) combinations accepted" % cnt)
            else:
                c = bad[0]
                w = tokrules.entry_witness(T, parent, c)
                chk.refuted(rid, "json_tokener_parse_ex", sig, "json_tokener.c",
                            "RFC 8259 allows byte %r at grammar position %s but %s-mode parsing of the text %r (accepted up to that byte) fails with %s "
                            "(parser configuration %s)" % (chr(c["bytes"][0]), pos, name, w, T.err_name.get(c["err"], c["err"]), T.cfg_str(c["cfg"])),
                            {"witness_text": w, "bytes": product.show(bytes(c["bytes"][:16]))})
        chk.floor(rid + ".%s.d%d" % (name, D), len(groups), 15, "grammar positions with accept obligations")
        chk.tables["product_%s_d%d" % (name, D)] = stats


def _cfgs_with_top(T, state, saved):
    out = []
    for cfg in T.trans:
        lv = cfg[1][cfg[0]]
        if T.state_name.get(lv[0]) == state and T.state_name.get(lv[1]) == saved:
            out.append(cfg)
    return out


def r2(chk, prog):
    rid = "C01.R2"
    chk.rule(rid, "in the escape state each of \\\" \\\\ \\/ \\b \\f \\n \\r \\t appends exactly one byte with the RFC's value and returns to "
                  "the string; \\u enters the four-hex-digit state; every other byte is an error (strings and member names)")
    T = tokauto.get_table(prog, 0, 2)
    n = 0
    for saved in ("string", "object_field"):
        cfgs = _cfgs_with_top(T, "string_escape", saved)
        chk.require(cfgs, "no reachable configuration in the escape state (saved %s)" % saved)
        cfg = sorted(cfgs)[0]
        got = {}
        for o in T.trans[cfg]:
            for sb in o.bytes:
                got[sb % 256] = o
        for b in range(1, 256):
            o = got.get(b)
            if o is None:
                continue
            ok_status = o.err in (0, 1)
            if b in RFC_ESC:
                n += 1
                want = RFC_ESC[b]
                ap = o.appends
                good = ok_status and len(ap) == 1 and ap[0]["len"] == 1 and (
                    (ap[0]["src"] == "c" and want == b) or (ap[0].get("bytes") == [want]))
                nxt = T.state_name.get(o.next[1][o.next[0]][0]) if o.next else None
                good = good and nxt == saved
                sig = "escape \\%s in %s" % (chr(b), saved)
                if good:
                    chk.proven(rid, "json_tokener_parse_ex", sig, "json_tokener.c", "appends byte 0x%02x and returns to %s" % (want, saved))
                else:
                    chk.refuted(rid, "json_tokener_parse_ex", sig, "json_tokener.c",
                                "escape \\%s must decode to the single byte 0x%02x and continue the %s; the code appends %s and goes to %s (status %s)"
                                % (chr(b), want, saved, ap, nxt, T.err_name.get(o.err, o.err)))
            elif b == ord("u"):
                n += 1
                nxt = T.state_name.get(o.next[1][o.next[0]][0]) if o.next else None
                if ok_status and nxt == "escape_unicode" and not o.appends:
                    chk.proven(rid, "json_tokener_parse_ex", "escape \\u in %s" % saved, "json_tokener.c", "enters the hex-digit state")
                else:
                    chk.refuted(rid, "json_tokener_parse_ex", "escape \\u in %s" % saved, "json_tokener.c", "\\u does not enter the hex-digit state (next %s)" % nxt)
        others = [b for b in range(1, 256) if b not in RFC_ESC and b != ord("u") and got.get(b) is not None and got[b].err in (0, 1)]
        n += 1
        if others:
            chk.refuted(rid, "json_tokener_parse_ex", "other escapes in %s" % saved, "json_tokener.c",
                        "bytes %s after a backslash are accepted; RFC 8259 defines no such escape" % product.show(bytes(others[:12])))
        else:
            chk.proven(rid, "json_tokener_parse_ex", "other escapes in %s" % saved, "json_tokener.c", "every other byte after a backslash is an error")
    chk.floor(rid, n, 20, "escape table rows")


def r3(chk, prog):
    rid = "C01.R3"
    chk.rule(rid, "\\\\u decoding branch structure over code-point classes x pending-high-surrogate: 1/2/3/4 bytes appended per class, "
                  "EF BF BD appended for every unpaired surrogate, the pending high surrogate cleared on every path that leaves it")
    T = tokauto.Table(prog, 0, 2)
    st = T.states
    U_CLASSES = [("< 0x80", [0x00, 0x41, 0x7F], 1), ("< 0x800", [0x80, 0x7FF], 2), ("high surrogate", [0xD800, 0xDBFF], "high"),
                 ("low surrogate", [0xDC00, 0xDFFF], "low"), ("other BMP", [0x800, 0xD7FF, 0xE000, 0xFFFF], 3)]
    n = 0
    for saved_name in ("string", "object_field"):
        saved = st["json_tokener_state_" + saved_name]
        cfg = (0, ((st["json_tokener_state_escape_unicode"], saved, 0, 0),), 0x22, 3, 0, 1)
        for hname, hdom in (("none", [0]), ("pending", [0xD800, 0xDBFF])):
            for cname, udom, want in U_CLASSES:
                n += 1
                outs = T.step(cfg, byte_domain=[ord("0")], overrides={"ucs_char": pe.R("U"), "high_surrogate": pe.R("H")},
                              roots={"U": udom, "H": hdom}, keep_state=True)
                sig = "\\u class %s, high surrogate %s, in %s" % (cname, hname, saved_name)
                bad = None
                for o in outs:
                    if o.err not in (0, 1):
                        bad = "fatal error %s" % T.err_name.get(o.err, o.err)
                        break
                    lens = [a["len"] for a in o.appends]
                    repl = [a for a in o.appends if a.get("bytes") == REPL]
                    s = o.stores
                    hs_after = s.mem.get(T.tokloc(T.F["high_surrogate"]))
                    nxt = T.state_name.get(o.next[1][o.next[0]][0]) if o.next else None
                    exp_lens = []
                    exp_repl = 0
                    exp_next = saved_name
                    exp_hs_zero = True
                    if hname == "pending":
                        if want == "low":
                            exp_lens = [4]
                        else:
                            exp_lens = [3]
                            exp_repl = 1
                            if want == "high":
                                exp_next, exp_hs_zero = "escape_unicode_need_escape", False
                            else:
                                exp_lens.append(want)
                    else:
                        if want == "high":
                            exp_next, exp_hs_zero = "escape_unicode_need_escape", False
                        elif want == "low":
                            exp_lens, exp_repl = [3], 1
                        else:
                            exp_lens = [want]
                    hs_zero = hs_after is not None and s.values(hs_after) == {0}
                    if hname == "none" and hs_after is None:
                        hs_zero = True
                    if lens != exp_lens or len(repl) != exp_repl or nxt != exp_next or hs_zero != exp_hs_zero:
                        bad = ("appends %s (replacement characters: %d), next state %s, pending high surrogate %s; expected appends %s "
                               "(replacement characters: %d), next state %s, pending high surrogate %s"
                               % (lens, len(repl), nxt, "cleared" if hs_zero else "kept", exp_lens, exp_repl, exp_next,
                                  "cleared" if exp_hs_zero else "kept"))
                        break
                if bad:
                    chk.refuted(rid, "json_tokener_parse_ex", sig, "json_tokener.c", "decoding structure wrong: " + bad)
                else:
                    chk.proven(rid, "json_tokener_parse_ex", sig, "json_tokener.c", "%d paths with the expected append lengths / replacement / next state" % len(outs))
        # the two states that follow a high surrogate
        for state_name, trigger, follow in (("escape_unicode_need_escape", 0x5C, "escape_unicode_need_u"),
                                            ("escape_unicode_need_u", ord("u"), "escape_unicode")):
            cfg2 = (0, ((st["json_tokener_state_" + state_name], saved, 0, 0),), 0x22, 0, 0, 1)
            outs = T.step(cfg2, overrides={"high_surrogate": pe.R("H")}, roots={"H": [0xD800]}, keep_state=True)
            n += 1
            bad = None
            for o in outs:
                bs = {b % 256 for b in o.bytes}
                nxt = T.state_name.get(o.next[1][o.next[0]][0]) if o.next else None
                if trigger in bs:
                    if len(bs) != 1 or nxt != follow or o.appends or o.err not in (0, 1):
                        bad = "byte %r must lead to %s with nothing appended (got next %s, appends %s)" % (chr(trigger), follow, nxt, o.appends)
                else:
                    if 0 in bs and len(bs) == 1:
                        continue     # end-of-text marker: C04's subject
                    repl = [a for a in o.appends if a.get("bytes") == REPL]
                    s = o.stores
                    hs_after = s.mem.get(T.tokloc(T.F["high_surrogate"]))
                    hs_zero = hs_after is not None and s.values(hs_after) == {0}
                    if o.err in (0, 1) and (not repl or not hs_zero):
                        bad = ("a byte other than %r after a high surrogate must first append EF BF BD and clear the pending surrogate "
                               "(appends %s, cleared %s)" % (chr(trigger), o.appends, hs_zero))
                if bad:
                    break
            sig = "state after high surrogate: %s in %s" % (state_name.replace("escape_unicode_", ""), saved_name)
            if bad:
                chk.refuted(rid, "json_tokener_parse_ex", sig, "json_tokener.c", bad)
            else:
                chk.proven(rid, "json_tokener_parse_ex", sig, "json_tokener.c", "%d paths" % len(outs))
    chk.floor(rid, n, 24, "code-point class x surrogate-state rows")


def r4(chk, prog, f):
    rid = "C01.R4"
    chk.rule(rid, "the token buffer is length-counted and, in the string and member-name states, may contain a decoded NUL byte: it "
                  "must reach node construction only through length-aware consumers")
    P = Paths(f, prog)
    NUL_TERMINATED = {"strdup", "strlen", "strcpy", "json_object_new_string", "strcmp", "strncmp", "strncasecmp", "strchr",
                      "json_parse_int64", "json_parse_uint64", "json_tokener_parse_double", "json_object_new_double_s", "strtod"}
    T = tokauto.get_table(prog, 0, 2)
    # states in which the buffer may hold a decoded NUL: those whose escape sub-states return to them
    nul_states = set()
    for cfg in T.trans:
        lv = cfg[1][cfg[0]]
        if T.state_name.get(lv[0]) == "string_escape":
            nul_states.add(T.state_name.get(lv[1]))
    chk.require(nul_states, "no escape-capable states found")
    n = 0
    for i in f.instrs():
        if i.op != "call" or not i.callee:
            continue
        uses = [k for k, a in enumerate(i.ops) if a.kind == "reg" and P.path(a).endswith("pb->buf")]
        if not uses:
            continue
        n += 1
        # in which states is this call reachable?  look the callee up in the table's call lists
        states = set()
        for cfg, outs in T.trans.items():
            lv = cfg[1][cfg[0]]
            for o in outs:
                if i.callee in o.calls:
                    states.add(T.state_name.get(lv[0]))
        sig = "%s(tok->pb->buf ...)" % i.callee
        in_nul = sorted(states & nul_states)
        if i.callee == "json_object_new_string_len":
            ln = P.path(i.ops[1])
            if ln.endswith("pb->bpos"):
                chk.proven(rid, f.name, sig, i.locstr(), "length-aware consumer given the buffer's byte count")
            else:
                chk.refuted(rid, f.name, sig, i.locstr(), "string node built with length %s instead of the buffer's byte count" % ln)
        elif i.callee in NUL_TERMINATED and in_nul:
            chk.refuted(rid, f.name, sig, i.locstr(),
                        "%s treats the token buffer as NUL-terminated in state(s) %s, where a decoded \\u0000 may be part of the text: "
                        "everything after the first NUL is silently dropped" % (i.callee, in_nul), {"call": i.raw})
        else:
            chk.proven(rid, f.name, sig, i.locstr(), "used only in states %s, whose tokens cannot contain NUL" % sorted(states))
    chk.floor(rid, n, 8, "consumers of the token buffer")


def r5(chk, prog, f):
    rid = "C01.R5"
    chk.rule(rid, "every json_tokener_state enumerator is a case of the state dispatch switch")
    states = f.module.enumerators("json_tokener_state")
    chk.require(len(states) >= 20, "json_tokener_state enumerators not found")
    P = Paths(f, prog)
    best = None
    for i in f.instrs():
        if i.op == "switch" and P.path(i.ops[0]).endswith(".state"):
            if best is None or len(i.x["cases"]) > len(best.x["cases"]):
                best = i
    chk.require(best is not None, "state dispatch switch not found")
    cases = {v for v, _ in best.x["cases"]}
    # the default target must not be one of the case bodies
    missing = sorted(k for k, v in states.items() if v not in cases)
    if missing:
        chk.refuted(rid, f.name, "state dispatch", best.locstr(), "parser states without a case: %s (the parser would skip input in them)" % missing)
    else:
        chk.proven(rid, f.name, "state dispatch", best.locstr(), "%d states, all dispatched" % len(states))


# ---------------------------------------------------------------------------
# R6 a number token's value is the library conversion's result, unmodified
CONVERSIONS = ("strtod", "strtoll", "strtoull", "strtol", "strtoul")
NUM_CTORS = {"json_object_new_double_s": 0, "json_object_new_double": 0, "json_object_new_int64": 0, "json_object_new_uint64": 0}


def _copy_source(f, v, depth=0):
    """follow value-preserving copies (casts between same-width integers, sext/zext/trunc are NOT copies of the value in general,
    but int64 <-> uint64 reinterpretation is a no-op at IR level) back to the defining instruction"""
    while v.kind == "reg" and depth < 8:
        d = f.defs.get(v.v)
        if d is None:
            return None
        if d.op == "bitcast":
            v = d.ops[0]
            depth += 1
            continue
        return d
    return None


def _const_tree(f, v, depth=0):
    """the value is selected / converted from constants only (control may depend on anything)"""
    if v.kind != "reg":
        return True
    d = f.defs.get(v.v)
    if d is None or depth > 6:
        return False
    if d.op in ("fpext", "fptrunc", "fneg", "bitcast", "sext", "zext", "trunc"):
        return _const_tree(f, d.ops[0], depth + 1)
    if d.op == "select":
        return _const_tree(f, d.ops[1], depth + 1) and _const_tree(f, d.ops[2], depth + 1)
    if d.op == "phi":
        return all(_const_tree(f, val, depth + 1) for val, _ in d.x["incoming"])
    return False


def _out_param_writers(prog, g, k, seen=None):
    """stores through parameter k of g: list of (store instr, defining instr of the stored value)"""
    out = []
    pname = g.params[k][1]
    for i in g.instrs():
        if i.op == "store" and i.ops[1].kind == "reg" and i.ops[1].v == pname:
            out.append((i, _copy_source(g, i.ops[0])))
    return out


def r6(chk, prog, f):
    rid = "C01.R6"
    chk.rule(rid, "the number handed to a node constructor for a number token is the result of the C library conversion (strtod / strtoll / "
                  "strtoull) of the token text, carried only by copies: the helper stores the conversion's own result through its "
                  "out-parameter, and the tokener passes the slot's content on unchanged (saturation and rounding are the library's)")
    n = 0
    slots = {}
    for i in f.instrs():
        if i.op == "alloca":
            slots[i.res] = i
    sinks = [i for i in f.instrs() if i.op == "call" and i.callee in NUM_CTORS]
    for c in sinks:
        a = c.ops[NUM_CTORS[c.callee]]
        d = _copy_source(f, a)
        if _const_tree(f, a):
            continue          # built from constants only (the NaN / Infinity literals), not a number token
        n += 1
        sig = "%s(%s)" % (c.callee, a.v if a.kind == "reg" else a.kind)
        chain = []
        ok = None
        why = ""
        hops = 0
        while hops < 6:
            hops += 1
            if d is None:
                ok, why = False, "the value is not a plain copy of a converted number"
                break
            if d.op == "load" and d.ops[0].kind == "reg" and d.ops[0].v in slots:
                slot = d.ops[0].v
                chain.append("slot %" + slot)
                stores = [s for s in f.instrs() if s.op == "store" and s.ops[1].kind == "reg" and s.ops[1].v == slot]
                writers = [x for x in f.instrs() if x.op == "call" and any(o.kind == "reg" and o.v == slot for o in x.ops)
                           and not (x.callee or "").startswith("llvm.")]
                bad_store = None
                nxt = None
                for s in stores:
                    sd = _copy_source(f, s.ops[0])
                    if sd is not None and sd.op == "load" and sd.ops[0].kind == "reg" and sd.ops[0].v in slots:
                        nxt = sd          # num64 = numuint64 : follow the copied slot
                    else:
                        bad_store = s
                if bad_store is not None:
                    ok, why = False, "the slot is also written at %s with a value that is not a conversion result" % bad_store.locstr()
                    break
                for w in writers:
                    g = prog.resolve(w.callee, f.module) if w.callee else None
                    if g is None or g.is_decl:
                        ok, why = False, "the slot is filled by %s whose body is not available" % (w.callee or "an indirect call")
                        break
                    k = [j for j, o in enumerate(w.ops) if o.kind == "reg" and o.v == slot][0]
                    chk.touched(g)
                    for st, src in _out_param_writers(prog, g, k):
                        if src is None or src.op != "call" or src.callee not in CONVERSIONS:
                            ok, why = False, ("%s stores a value through its out-parameter at %s that is not the direct result of a "
                                              "library conversion (it is produced by %s)" % (g.name, st.locstr(), src.op if src is not None else "a constant or parameter"))
                            break
                        chain.append("%s: %s result" % (g.name, src.callee))
                    if ok is False:
                        break
                if ok is False:
                    break
                if nxt is not None and not writers:
                    d = nxt
                    continue
                if not writers and not stores:
                    ok, why = False, "the slot is never written"
                    break
                ok = True
                break
            if d.op == "call" and d.callee in CONVERSIONS:
                chain.append("%s result" % d.callee)
                ok = True
                break
            ok, why = False, "the value is produced by %s, not by a copy of a converted number" % d.op
            break
        if ok:
            chk.proven(rid, f.name, sig, c.locstr(), "; ".join(chain))
        elif ok is False:
            chk.refuted(rid, f.name, sig, c.locstr(), "number token value: %s" % why, {"chain": chain})
        else:
            chk.undecided(rid, f.name, sig, c.locstr(), "copy chain too long")
    chk.floor(rid, n, 4, "numeric node constructions in the tokener")
