"""C04 - the parser is total and memory-safe on arbitrary bytes and reusable after reset.

Decided on the tokener automaton extracted from the IR (one step = one call with one byte, every byte value, every
reachable configuration; plus empty-chunk, NUL-terminated and bad-length steps) and by effect rules on reset/free:
R1 the parser reads only the bytes it was given: no input read in an empty chunk, never a look-ahead past the checked byte
R2 NUL-terminated mode (len == -1): after the terminator has been read no further input byte is read
R3 exactly three outcomes: value+success, no value+continue, no value+error; end position within the chunk
R4 release completeness: reset and free release every owned field of the parser, at every level
R5 reset covers every field a parse started from the reset state reads before writing it (a reset parser behaves like a new one)
R6 termination/progress: every step ends; a step that asks for more input has consumed its byte
R7 the size guard (len < -1) precedes any read
"""
from ..ir import load_program
from ..flow import Paths
from ..cfg import cfg_of
from .. import tokauto, pe, product
from ..tokrules import F_STRICT, F_TRAILING, F_UTF8


def run(chk):
    prog = load_program("default")
    chk.variant(prog)
    f = prog.fn("json_tokener_parse_ex")
    chk.require(f is not None, "json_tokener_parse_ex not found")
    chk.touched(f)
    flagsets = [(0, "default"), (F_STRICT, "strict")]
    if chk.tier == "thorough":
        flagsets += [(F_UTF8, "validate_utf8"), (F_STRICT | F_TRAILING, "strict+allow_trailing"), (F_STRICT | F_UTF8, "strict+validate_utf8")]
    tables = []
    for flags, name in flagsets:
        T = tokauto.get_table(prog, flags, 2)
        tables.append((T, name))
        chk.tables[name] = {"configurations": len(T.trans), "transitions": sum(len(v) for v in T.trans.values())}
    r1(chk, prog, tables)
    r2(chk, prog, tables)
    r3(chk, prog, tables)
    r6(chk, prog, tables)
    r7(chk, prog)
    r4(chk, prog)
    r5(chk, prog, tables)
    with chk.shared():
        from . import c15
        from .. import heapuse
        # a block released through a field of the parser must not stay reachable through that field (reset / free would release it again)
        heapuse.rule_dangling_fields(chk, prog, "C08.R6", only_modules={"json_tokener.c"})
        # a parse entry that hands a NULL out-parameter to another must not have it written on any path (e.g. the allocation-failure exit)
        from .. import nullflow as _nf
        _nf.rule_null_literal_args(chk, prog, "C08.R1n", only_modules={"json_tokener.c", "json_util.c"}, floor=0)
        c15.r_safety(chk, prog, "C04.R8")       # the level stack is never indexed outside its allocation (automaton, shared with C15)
        # the buffers and containers the parser fills: every write inside the allocation (shared with C19 / C07 / C06)
        from . import c19, c07, c06
        mp, ma, ml = prog.module("printbuf.c"), prog.module("arraylist.c"), prog.module("linkhash.c")
        chk.require(mp is not None and ma is not None and ml is not None, "printbuf.c / arraylist.c / linkhash.c not in the build")
        c19.r_extend(chk, prog, mp)
        c19.r_writers(chk, prog, mp)
        c19.r_macro(chk, prog)
        c07.r_expand(chk, prog, ma)
        c07.r_functions(chk, prog, ma)
        c06.r5(chk, prog, ml)
    chk.undecided_clauses += [
        "absence of undefined behaviour inside libc calls; the node constructors and json_object_put (C05) are summarised",
        "sanitizer-level memory safety of everything reachable: only the clauses listed are decided",
        "'a reset parser behaves exactly like a new one' beyond R5 (field coverage), e.g. print-buffer capacity",
        "the VALIDATE_UTF8 flag is analysed in the thorough tier only",
    ]


def r1(chk, prog, tables):
    rid = "C04.R1"
    chk.rule(rid, "input is read only at the checked cursor position: an empty chunk causes no input read and no state change; "
                  "no step reads beyond the byte it was given")
    for T, name in tables:
        # (a) look-ahead within one-byte steps
        la = [(cfg, o) for cfg, outs in T.trans.items() for o in outs if o.lookahead]
        sig = "%s: one-byte chunks" % name
        if la:
            cfg, o = la[0]
            chk.refuted(rid, "json_tokener_parse_ex", sig, "json_tokener.c",
                        "from configuration %s, byte class %s: the parser reads an input byte outside the chunk it was given (before its start or at / past its length)"
                        % (T.cfg_str(cfg), product.show(bytes(sorted(b % 256 for b in o.bytes))[:8])))
        else:
            chk.proven(rid, "json_tokener_parse_ex", sig, "json_tokener.c", "no look-ahead read in %d transitions" % sum(len(v) for v in T.trans.values()))
        # (b) empty chunk: no read, no change
        bad = None
        n = 0
        for cfg in T.trans:
            for o in T.step(cfg, length=0):
                n += 1
                nxt = T.canon(o.next) if o.next and not any(None in lv for lv in o.next[1]) else o.next
                if o.reads or o.lookahead:
                    bad = (cfg, "reads input although the chunk is empty")
                elif o.err not in (0, 1):
                    bad = (cfg, "fails with %s on an empty chunk" % T.err_name.get(o.err, o.err))
                elif o.err == 1 and nxt != cfg:
                    bad = (cfg, "changes the parser configuration to %s on an empty chunk" % (T.cfg_str(nxt) if nxt else nxt))
                elif o.appends:
                    bad = (cfg, "appends to the token buffer on an empty chunk")
                elif o.err == 1 and [t for t in o.tail if t.startswith("wr:") and t != "wr:err"]:
                    bad = (cfg, "writes parser fields other than the status (%s) on an empty chunk" % [t for t in o.tail if t.startswith("wr:")])
                if bad:
                    break
            if bad:
                break
        sig = "%s: empty chunk" % name
        if bad:
            chk.refuted(rid, "json_tokener_parse_ex", sig, "json_tokener.c", "configuration %s: the end-of-chunk probe %s" % (T.cfg_str(bad[0]), bad[1]))
        else:
            chk.proven(rid, "json_tokener_parse_ex", sig, "json_tokener.c", "%d configurations: the end-of-chunk probe reads nothing and changes nothing" % len(T.trans))
    chk.floor(rid, len(tables) * 2, 4, "read-discipline obligations")


def r2(chk, prog, tables):
    rid = "C04.R2"
    chk.rule(rid, "in NUL-terminated mode (len == -1) the call returns after the terminator without reading any further input byte")
    for T, name in tables:
        bad = None
        n = 0
        for cfg in T.trans:
            for o in T.step(cfg, byte_domain=[0], length=-1):
                n += 1
                if o.lookahead:
                    bad = (cfg, "reads past the terminating NUL")
                    break
            if bad:
                break
        sig = "%s: NUL in len == -1 mode" % name
        if bad:
            chk.refuted(rid, "json_tokener_parse_ex", sig, "json_tokener.c", "configuration %s: %s" % (T.cfg_str(bad[0]), bad[1]))
        else:
            chk.proven(rid, "json_tokener_parse_ex", sig, "json_tokener.c", "%d steps from %d configurations stop at the terminator" % (n, len(T.trans)))


def r3(chk, prog, tables):
    rid = "C04.R3"
    chk.rule(rid, "every call ends in exactly one of: a value with status success; no value with status continue; no value with an error "
                  "status (a successful top-level 'null' returns NULL with success); the end position never exceeds the chunk length")
    for T, name in tables:
        bad = None
        n = 0
        for cfg, outs in T.trans.items():
            for o in outs:
                n += 1
                if o.err is None:
                    bad = (cfg, o, "status not determined")
                elif o.ret_nonnull and o.err != 0:
                    bad = (cfg, o, "returns a value together with status %s" % T.err_name.get(o.err, o.err))
                elif o.consumed is None or not (0 <= o.consumed <= 1):
                    bad = (cfg, o, "reports end position %s for a one-byte chunk" % o.consumed)
                if bad:
                    break
            if bad:
                break
        sig = "%s: outcomes" % name
        if bad:
            chk.refuted(rid, "json_tokener_parse_ex", sig, "json_tokener.c", "configuration %s: %s" % (T.cfg_str(bad[0]), bad[2]))
        else:
            chk.proven(rid, "json_tokener_parse_ex", sig, "json_tokener.c", "%d outcomes each of the three documented kinds" % n)


def r6(chk, prog, tables):
    rid = "C04.R6"
    chk.rule(rid, "every step terminates (the walk of the function from each configuration is finite) and makes progress: a step that "
                  "returns 'continue' has consumed its byte")
    for T, name in tables:
        bad = None
        for cfg, outs in T.trans.items():
            for o in outs:
                if o.err == 1 and o.consumed != 1:
                    bad = (cfg, o)
        sig = "%s: progress" % name
        if bad:
            chk.refuted(rid, "json_tokener_parse_ex", sig, "json_tokener.c",
                        "configuration %s asks for more input without consuming the byte it was given: the caller would loop forever" % T.cfg_str(bad[0]))
        else:
            chk.proven(rid, "json_tokener_parse_ex", sig, "json_tokener.c",
                       "all %d configurations walked to a return; every 'continue' outcome consumed its byte" % len(T.trans))


def r7(chk, prog):
    rid = "C04.R7"
    chk.rule(rid, "a length below -1 is refused with the size error before any input byte is read")
    T = tokauto.Table(prog, 0, 2)
    try:
        outs = T.step(tokauto.initial_config(), length=-2)
    except tokauto.AnalysisBroken as e:
        chk.refuted(rid, "json_tokener_parse_ex", "len < -1", "json_tokener.c",
                    "with len = -2 the parser is not stopped by the size guard: the walk runs past the buffer (%s)" % e)
        return
    bad = [o for o in outs if T.err_name.get(o.err) != "error_size" or o.reads or o.lookahead or o.ret_nonnull]
    if bad:
        chk.refuted(rid, "json_tokener_parse_ex", "len < -1", "json_tokener.c", "a negative length other than -1 is not refused up front (status %s, reads %s)"
                    % (T.err_name.get(bad[0].err, bad[0].err), bad[0].reads))
    else:
        chk.proven(rid, "json_tokener_parse_ex", "len < -1", "json_tokener.c", "error_size, no read")


def r4(chk, prog):
    rid = "C04.R4"
    chk.rule(rid, "json_tokener_reset releases the value and the member name held at every level 0..depth and clears them; "
                  "json_tokener_free additionally releases the token buffer, the level stack and the parser itself")
    T = tokauto.Table(prog, 0, 4)
    st = T.states
    fn = prog.fn("json_tokener_reset")
    chk.require(fn is not None, "json_tokener_reset not found")
    chk.touched(fn)
    depth = 2
    levels = tuple((st["json_tokener_state_array"], st["json_tokener_state_finish"], 1, 1) for _ in range(depth + 1))
    cfg = (depth, levels, 0, 0, 0, 0)
    h = tokauto.TokPE(prog, T.F, T.S, cfg, 0, 4, 1, [0])
    leaves = h.run(fn, [("ptr", "tok", ())], pe.State())
    ok = bool(leaves)
    why = ""
    for lf in leaves:
        puts = [e[2][0] for e in lf.state.trace if e[0] == "call" and e[1] == "json_object_put"]
        frees = [e[2][0] for e in lf.state.trace if e[0] == "call" and e[1] == "free"]
        want_p = {("ptr", "node%d" % d, ()) for d in range(depth + 1)}
        want_f = {("ptr", "fname%d" % d, ()) for d in range(depth + 1)}
        if set(puts) != want_p or len(puts) != len(want_p):
            ok, why = False, "values released: %s (expected one release per level 0..%d)" % (puts, depth)
        if set(frees) != want_f or len(frees) != len(want_f):
            ok, why = False, "member names freed: %s (expected one per level 0..%d)" % (frees, depth)
        for d in range(depth + 1):
            for nm in ("current", "obj_field_name"):
                v = lf.state.mem.get(T.stackloc(d, T.S[nm]))
                if not (v is not None and pe.is_const(v) and v[1] == 0):
                    ok, why = False, "level %d field %s not cleared" % (d, nm)
        dv = lf.state.mem.get(T.tokloc(T.F["depth"]))
        if not (dv is not None and pe.is_const(dv) and dv[1] == 0):
            ok, why = False, "depth not reset to 0"
    if ok:
        chk.proven(rid, fn.name, "reset at depth %d" % depth, fn.entry.term.locstr(), "each level's value and member name released once and cleared; depth = 0")
    else:
        chk.refuted(rid, fn.name, "reset at depth %d" % depth, fn.entry.term.locstr(), "json_tokener_reset does not release everything the parser holds: " + why)
    ff = prog.fn("json_tokener_free")
    chk.require(ff is not None, "json_tokener_free not found")
    chk.touched(ff)
    P = Paths(ff, prog)
    calls = [(i.callee, P.path(i.ops[0]) if i.ops else "") for i in ff.instrs() if i.op == "call" and i.callee]
    need = [("json_tokener_reset", "tok"), ("printbuf_free", "tok->pb"), ("free", "tok->stack"), ("free", "tok")]
    missing = [n for n in need if n not in calls]
    if missing:
        chk.refuted(rid, ff.name, "free", ff.entry.term.locstr(), "json_tokener_free does not release %s" % missing)
    else:
        chk.proven(rid, ff.name, "free", ff.entry.term.locstr(), "reset + token buffer + level stack + parser released")
    # every pointer field of the parser that receives an owned allocation anywhere is among the released ones
    owned = set()
    for g in prog.module("json_tokener.c").functions.values():
        if g.is_decl:
            continue
        Pg = Paths(g, prog)
        for i in g.instrs():
            if i.op == "store" and i.ops[0].kind == "reg":
                d = g.defs.get(i.ops[0].v)
                src = d
                while src is not None and src.op == "bitcast" and src.ops[0].kind == "reg":
                    src = g.defs.get(src.ops[0].v)
                if src is not None and src.op == "call" and src.callee in ("calloc", "malloc", "strdup", "printbuf_new", "json_object_new_object",
                                                                         "json_object_new_array", "json_object_new_string_len", "json_object_new_double",
                                                                         "json_object_new_double_s", "json_object_new_int64", "json_object_new_uint64",
                                                                         "json_object_new_boolean"):
                    p = Pg.path(i.ops[1])
                    last = p.replace("->", ".").split(".")[-1]
                    if last in T.F or last in T.S:
                        owned.add(last)
    released = {"pb", "stack", "current", "obj_field_name"}
    extra = owned - released
    if extra:
        chk.refuted(rid, "json_tokener.c", "owned fields", "json_tokener.c", "parser fields %s receive owned allocations but are not released by reset/free" % sorted(extra))
    else:
        chk.proven(rid, "json_tokener.c", "owned fields", "json_tokener.c", "fields receiving owned allocations: %s; all released" % sorted(owned))
    chk.floor(rid, len(owned), 4, "parser fields that receive owned allocations")


def r5(chk, prog, tables):
    rid = "C04.R5"
    chk.rule(rid, "starting from the reset configuration, no step reads a parser field that neither json_tokener_reset nor the parse "
                  "itself has written first (otherwise a reset parser differs from a new one)")
    T, name = tables[0]
    # fields written by reset (effect scan) and configuration fields set by the constructor / setters
    reset_writes = set()
    for fname in ("json_tokener_reset", "json_tokener_reset_level"):
        g = prog.fn(fname)
        chk.require(g is not None, fname + " not found")
        Pg = Paths(g, prog)
        for i in g.instrs():
            if i.op == "store":
                p = Pg.path(i.ops[1])
                if p.startswith("tok->") and "stack[" not in p:
                    reset_writes.add(p[5:])
    config_fields = {"flags", "max_depth", "pb", "stack", "str"}
    start = T.canon(tokauto.initial_config())
    seen = {(start, frozenset())}
    work = [(start, frozenset(), ())]
    exposed = {}
    while work:
        cfg, defined, path = work.pop()
        for o in T.trans[cfg]:
            rd = set(o.field_reads) - config_fields - reset_writes - set(defined)
            b0 = sorted(x % 256 for x in o.bytes)[0]
            for fld in rd:
                if fld not in exposed:
                    exposed[fld] = (cfg, path + (b0,))
            if o.err in (0, 1) and o.next is not None:
                nd = frozenset(defined | set(o.field_writes)) if not (o.err == 0) else frozenset()
                key = (o.next, nd)
                if key not in seen and len(path) < 40:
                    seen.add(key)
                    work.append((o.next, nd, path + (b0,)))
    tracked = sorted(set(T.F) - config_fields)
    for fld in tracked:
        sig = "field %s" % fld
        if fld in exposed:
            cfg, path = exposed[fld]
            chk.refuted(rid, "json_tokener_reset", sig, "json_tokener.c",
                        "after json_tokener_reset, parsing %r reads tok->%s before anything wrote it (configuration %s): it still holds "
                        "the value left by the aborted parse, so the reset parser behaves differently from a new one"
                        % (product.show(bytes(path)), fld, T.cfg_str(cfg)), {"witness_text": product.show(bytes(path))})
        else:
            chk.proven(rid, "json_tokener_reset", sig, "json_tokener.c",
                       "written by reset" if fld in reset_writes else "always written by the parse before it is read")
    # the other half of "a reset parser behaves exactly like a new one": reset keeps what the constructor and the setters
    # established - the flags, the depth limit and the two buffers are configuration, not parse state
    for fld in sorted(config_fields - {"str"}):
        sig = "configuration field %s" % fld
        if fld in reset_writes:
            chk.refuted(rid, "json_tokener_reset", sig, "json_tokener.c",
                        "json_tokener_reset writes tok->%s: what json_tokener_set_flags / json_tokener_new_ex configured is lost by a "
                        "reset (e.g. a strict parser parses leniently after the reset that must follow an error)" % fld)
        else:
            chk.proven(rid, "json_tokener_reset", sig, "json_tokener.c", "not written by reset")
    chk.floor(rid, len(tracked), 6, "parser fields")
    chk.tables["reset_writes"] = sorted(reset_writes)
