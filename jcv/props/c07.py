"""C07 - a JSON array behaves as a sequence with null gaps under any operation history.

Data invariant of struct array_list (assumed at entry of every function of arraylist.c, re-proved at every return):
    I:  length <= size,  capacity(array) == size (elements),  size * sizeof(void*) does not wrap
R1 encapsulation: array / length / size are written only inside arraylist.c
R2 bounded writes: every store / memmove / memset into arr->array stays within size elements on every path, using the verified
   contract of array_list_expand_internal ("returns 0 => size' >= max, capacity(array') == size', length unchanged")
R3 no wrap-around: every size_t addition / multiplication / shift feeding an allocation size, index or move length is exact
   under the guards of its path
R4 initialised prefix: a function that raises length has written every slot of [old length, new length)
R5 failure atomicity: a path that returns -1 has written nothing and released nothing
R6 an overwritten or deleted element is handed to free_fn before its slot is reused (when non-NULL)
R7 sort / bsearch pass (array, length, sizeof(void*), comparator)
"""
from ..ir import load_program
from ..cfg import cfg_of
from ..flow import Paths
from ..pathlin import Walker, Ptr, Contract
from ..lin import Lin, const, atom

UMAX = (1 << 64) - 1
ELEM = 8


def _init(w, st):
    an = w.fn.params[0][1] if w.fn.params[0][0].endswith("array_list*") else None
    for (t, nm) in w.fn.params:
        if t.endswith("array_list*"):
            an = nm
    w.an = an
    size = w.atom_for(st, an + "->size", "i64")
    length = w.atom_for(st, an + "->length", "i64")
    st.mem[an + "->size"] = size
    st.mem[an + "->length"] = length
    st.mem[an + "->array"] = Ptr(an + "->array", const(0))
    st.cap[an + "->array"] = size
    st.facts += [length - size, size + const(-(UMAX // ELEM))]


def _expand_contract():
    def ok(w, st, args, call):
        a = args[0]
        if not (isinstance(a, tuple) and a[0] == "obj"):
            return False
        an = a[1]
        old = st.mem.get(an + "->size")
        new = w.fresh(st, an + "->size'", "i64")
        st.mem[an + "->size"] = new
        st.nfresh += 1
        b = "%s->array'%d" % (an, st.nfresh)
        st.mem[an + "->array"] = Ptr(b, const(0))
        st.cap[b] = new
        if isinstance(args[1], Lin):
            st.facts.append(args[1] - new)              # max <= size'
        if isinstance(old, Lin):
            st.facts.append(old - new)
        st.facts.append(new + const(-(UMAX // ELEM)))
        return True

    def fail(w, st, args, call):
        return True
    return Contract("array_list_expand_internal", [(0, ok), (-1, fail)])


def run(chk):
    prog = load_program("default")
    chk.variant(prog)
    m = prog.module("arraylist.c")
    chk.require(m is not None, "arraylist.c not in the build")
    r1(chk, prog, m)
    r_expand(chk, prog, m)
    r_functions(chk, prog, m)
    r7(chk, prog, m)
    r8_sort(chk, prog, m)
    r9_wrappers(chk, prog)
    chk.undecided_clauses += [
        "element-wise equality with a list model over operation histories (value-level)",
        "that the comparator defines a strict weak ordering (caller's obligation)",
    ]


def r1(chk, prog, m):
    rid = "C07.R1"
    chk.rule(rid, "the fields array / length / size of struct array_list are written only by functions of arraylist.c")
    n = 0
    for f in prog.all_functions():
        P = None
        for i in f.instrs():
            if i.op != "store":
                continue
            a = i.ops[1]
            d = f.defs.get(a.v) if a.kind == "reg" else None
            if d is not None and d.op == "getelementptr" and d.x["srcty"] == "%struct.array_list":
                n += 1
                chk.touched(f)
                if f.module.srcname == "arraylist.c":
                    chk.proven(rid, f.name, "store array_list field", i.locstr(), "inside arraylist.c")
                else:
                    chk.refuted(rid, f.name, "store array_list field", i.locstr(), "%s writes a field of struct array_list outside arraylist.c" % f.name)
    chk.floor(rid, n, 8, "stores to array_list fields")


def _elems(n):
    """byte count -> element count when it is a multiple of the element size"""
    if not isinstance(n, Lin):
        return None
    if n.k % ELEM or any(v % ELEM for v in n.c.values()):
        return None
    return Lin({a: v // ELEM for a, v in n.c.items()}, n.k // ELEM)


def r_expand(chk, prog, m):
    rid = "C07.expand"
    chk.rule(rid, "contract of array_list_expand_internal verified on its own paths: a 0 return leaves size >= max with array reallocated "
                  "to exactly size elements (byte size not wrapped); a -1 return has written nothing")
    f = m.functions.get("array_list_expand_internal")
    chk.require(f is not None and not f.is_decl, "array_list_expand_internal not found")
    chk.touched(f)
    w = Walker(prog, f, view="unsigned", buf_fields={"array": "size"})
    res = {"n": 0, "bad": []}
    mx = f.params[1][1]

    def on_ret(w, st, i):
        rv = w.val(st, i.ops[0])
        res["n"] += 1
        an = w.an
        size = st.mem.get(an + "->size")
        arr = st.mem.get(an + "->array")
        wrote = [e for e in st.events if e[0] == "store"]
        mxa = w.atom_for(st, mx, "i64")
        if isinstance(rv, Lin) and rv.is_const() and rv.k == 0:
            if not w.entails(st, mxa - size):
                res["bad"].append((i, "returns 0 with size < max possible (path %s)" % st.prov))
            if wrote:
                ok = isinstance(arr, tuple) and arr and arr[0] == "alloc" and _elems(arr[2]) is not None and \
                    w.entails(st, _elems(arr[2]) - size) and w.entails(st, size - _elems(arr[2]))
                if not ok:
                    res["bad"].append((i, "array and size are not stored together from one allocation of size * sizeof(void*) bytes "
                                       "(or the byte size may have wrapped)"))
        elif isinstance(rv, Lin) and rv.is_const() and rv.k != 0:
            if wrote:
                res["bad"].append((i, "fails after writing %s" % [e[1] for e in wrote]))
        else:
            res["bad"].append((i, "return value not constant"))
    w.on_ret = on_ret

    def init(w, st):
        _init(w, st)
        w.atom_for(st, mx, "i64")
    w.run(init)
    if res["bad"]:
        i, msg = res["bad"][0]
        chk.refuted(rid, f.name, "contract", i.locstr(), msg)
    else:
        chk.proven(rid, f.name, "contract", f.entry.term.locstr(), "%d return paths satisfy the contract" % res["n"])
    chk.floor(rid, res["n"], 3, "return paths of array_list_expand_internal")


def r_functions(chk, prog, m):
    chk.rule("C07.R2", "every store / memmove / memset into arr->array is within size elements on every path")
    chk.rule("C07.R4", "when a path raises length, the slots [old length, new length) have all been written on that path")
    chk.rule("C07.R5", "a path returning a failure code has stored nothing into the list and called no release function")
    chk.rule("C07.R6", "a non-NULL element is released through free_fn before its slot is overwritten or removed")
    chk.rule("C07.inv", "length <= size, capacity(array) == size holds again at every return")
    names = ["array_list_put_idx", "array_list_add", "array_list_insert_idx", "array_list_del_idx", "array_list_shrink", "array_list_get_idx"]
    for fname in names:
        f = m.functions.get(fname)
        chk.require(f is not None and not f.is_decl, fname + " not found")
        chk.touched(f)
        w = Walker(prog, f, view="unsigned", contracts={"array_list_expand_internal": _expand_contract()}, buf_fields={"array": "size"})
        R = {k: [0, []] for k in ("C07.R2", "C07.R4", "C07.R5", "C07.R6", "C07.inv")}
        UND = []
        UND2 = []

        def bound(w, st, ptr, n, i, what, read=False):
            R["C07.R2"][0] += 1
            cap = st.cap.get(ptr.base)
            if cap is None or not isinstance(n, Lin):
                R["C07.R2"][1].append((i, "%s with unresolved extent" % what))
                return
            limit = cap
            if not (w.entails(st, ptr.off.scale(-1)) and w.entails(st, ptr.off + n - limit)):
                # a value carried around a loop is known to this walk only through its start and direction; when no branch
                # condition on the path mentions it, the failed entailment says that the walk lacks the loop's invariant
                # (e.g. an index that runs in step with a separate countdown), not that an index out of range exists
                loose = [a for a in (ptr.off.atoms() | n.atoms()) if str(a).startswith("%") and not any(str(a) in str(g) for g in st.prov)]
                if loose:
                    UND2.append((i, "%s of %r element(s) at index %r: the index is carried around a loop and no branch condition on the "
                                    "path bounds it (its relation to the loop's counter is not derived)" % (what, n, ptr.off)))
                    return
                R["C07.R2"][1].append((i, "%s of %r element(s) at index %r can exceed the %r allocated elements (path guards %s)"
                                       % (what, n, ptr.off, cap, st.prov)))

        def on_instr(w, st, i):
            if i.op == "call" and i.callee and (i.callee.startswith("llvm.memmove") or i.callee.startswith("llvm.memset") or i.callee.startswith("llvm.memcpy")):
                dst = w.val(st, i.ops[0])
                nb = w.val(st, i.ops[2])
                ne = _elems(nb)
                if isinstance(dst, Ptr):
                    if ne is None:
                        R["C07.R2"][1].append((i, "byte length %r is not a multiple of the element size or is inexact (wrap not excluded)" % (nb,)))
                    else:
                        bound(w, st, dst, ne, i, i.callee.split(".")[1])
                        st.events.append(("range", dst.off, ne, i))
                if "memmove" in i.callee or "memcpy" in i.callee:
                    src = w.val(st, i.ops[1])
                    if isinstance(src, Ptr) and ne is not None:
                        bound(w, st, src, ne, i, "read by " + i.callee.split(".")[1])
            elif i.op == "store":
                a = w.val(st, i.ops[1])
                if isinstance(a, Ptr):
                    bound(w, st, a, const(1), i, "store")
                    st.events.append(("range", a.off, const(1), i))
            elif i.op == "load":
                a = w.val(st, i.ops[0])
                if isinstance(a, Ptr):
                    bound(w, st, a, const(1), i, "load")
            elif i.op == "call" and i.callee is None:
                st.events.append(("release", [w.val(st, o) for o in i.ops], i))

        def on_ret(w, st, i):
            rv = w.val(st, i.ops[0]) if i.ops else None
            an = w.an
            size, length, arr = st.mem.get(an + "->size"), st.mem.get(an + "->length"), st.mem.get(an + "->array")
            stores = [e for e in st.events if e[0] in ("store", "range")]
            rel = [e for e in st.events if e[0] == "release"]
            failing = isinstance(rv, Lin) and rv.is_const() and rv.k != 0 and w.fn.ret_type == "i32" and fname != "array_list_get_idx"
            if failing:
                R["C07.R5"][0] += 1
                if stores or rel:
                    R["C07.R5"][1].append((i, "a path returning %d has already %s" % (rv.k, "written the list" if stores else "released an element")))
                return
            delegated = [e for e in st.events if e[0] == "call" and e[1] in names + ["array_list_expand_internal"] and size is None]
            if delegated and length is None:
                return      # tail call of a sibling that is checked on its own (fields were handed over to it)
            R["C07.inv"][0] += 1
            cap = st.cap.get(arr.base) if isinstance(arr, Ptr) else (_elems(arr[2]) if isinstance(arr, tuple) and arr and arr[0] == "alloc" else None)
            ok = isinstance(length, Lin) and isinstance(size, Lin) and cap is not None and w.entails(st, length - size) and \
                w.entails(st, cap - size) and w.entails(st, size - cap)
            if not ok:
                R["C07.inv"][1].append((i, "invariant length <= size, capacity == size not re-established (length %r, size %r)" % (length, size)))
            # initialised prefix
            l0 = atom(an + "->length")
            if isinstance(length, Lin) and not w.entails(st, length - l0):
                R["C07.R4"][0] += 1
                ranges = [(e[1], e[2]) for e in st.events if e[0] == "range"]
                start = l0
                progress = True
                while progress and not w.entails(st, length - start):
                    progress = False
                    for off, n in ranges:
                        if w.entails(st, off - start) and w.entails(st, start + const(1) - (off + n)):
                            start = off + n
                            progress = True
                            break
                if not w.entails(st, length - start):
                    looped = [r for r in ranges if any("#" in a for a in r[0].atoms())]
                    if not looped and any(e[0] == "loop-writes" for e in st.events):
                        looped = [(Lin({}, 0), const(1))]
                    if looped:
                        # slots written one at a time inside a loop (index = a loop variable): the covered range is not summarised
                        UND.append((i, "length grows from %r to %r; some slots are written inside a loop (index %r), which this rule "
                                       "does not summarise" % (l0, length, looped[0][0])))
                    else:
                        R["C07.R4"][1].append((i, "length grows from %r to %r but the slots from %r on are not all written on this path "
                                               "(written ranges: %s): a later read returns an uninitialised pointer" % (l0, length, start, ranges)))
        w.on_instr = on_instr
        w.on_ret = on_ret
        w.run(_init)
        for rid, (n, bad) in R.items():
            if rid == "C07.R4" and not bad and UND:
                i, msg = UND[0]
                chk.undecided(rid, fname, rid, i.locstr(), msg)
                continue
            if rid == "C07.R2" and not bad and UND2:
                i, msg = UND2[0]
                chk.undecided(rid, fname, rid, i.locstr(), msg)
                continue
            if bad:
                i, msg = bad[0]
                chk.refuted(rid, fname, rid, i.locstr(), msg)
            elif n:
                chk.proven(rid, fname, rid, f.entry.term.locstr(), "%d path obligations discharged on %d paths" % (n, w.paths))
    # R6: release before overwrite / removal
    for fname, desc in (("array_list_put_idx", "overwritten"), ("array_list_del_idx", "removed")):
        f = m.functions[fname]
        P = Paths(f, prog)
        cfg = cfg_of(f)
        rel = [i for i in f.instrs() if i.op == "call" and i.callee is None and P.path(i.x["callee"]).endswith("free_fn")]
        ok = False
        for r in rel:
            arg = P.path(r.ops[0])
            # guarded by a non-NULL test of the same slot
            from ..flow import dominating_conditions
            conds = dominating_conditions(f, r.block)
            nonnull = any(getattr(c, "op", None) == "icmp" and P.path(c.ops[0]) == arg and c.ops[1].kind == "null" and
                          ((c.x["pred"] == "ne") == tr) for c, tr in conds)
            if "->array[" in arg and nonnull:
                ok = True
        if ok:
            chk.proven("C07.R6", fname, "release of the %s element" % desc, rel[0].locstr(), "free_fn(array[i]) under array[i] != NULL")
        else:
            chk.refuted("C07.R6", fname, "release of the %s element" % desc, f.entry.term.locstr(),
                        "%s does not hand the %s element to free_fn (under a non-NULL test)" % (fname, desc))
    # the release precedes the overwrite in put_idx
    f = m.functions["array_list_put_idx"]
    P = Paths(f, prog)
    cfg = cfg_of(f)
    rel = [i for i in f.instrs() if i.op == "call" and i.callee is None]
    stores = [i for i in f.instrs() if i.op == "store" and "->array[" in P.path(i.ops[1])]
    if rel and stores and all(stores[0].block in cfg.reachable_from(r.block) and r.block not in cfg.reachable_from(stores[0].block) for r in rel):
        chk.proven("C07.R6", f.name, "release precedes overwrite", rel[0].locstr(), "the slot is released before it is overwritten, never after")
    else:
        chk.refuted("C07.R6", f.name, "release precedes overwrite", f.entry.term.locstr(), "the old element is not released before the slot is overwritten")


def r7(chk, prog, m):
    rid = "C07.R7"
    chk.rule(rid, "sort and binary search operate on (array, length, sizeof(void*), comparator)")
    for fname, callee in (("array_list_sort", "qsort"), ("array_list_bsearch", "bsearch")):
        f = m.functions.get(fname)
        chk.require(f is not None, fname + " not found")
        chk.touched(f)
        P = Paths(f, prog)
        calls = [i for i in f.instrs() if i.op == "call" and i.callee == callee]
        ok = False
        if len(calls) == 1:
            c = calls[0]
            ops = c.ops if callee == "qsort" else c.ops[1:]
            ok = P.path(ops[0]).endswith("->array") and P.path(ops[1]).endswith("->length") and ops[2].kind == "int" and ops[2].v == ELEM
        if ok:
            chk.proven(rid, fname, callee, calls[0].locstr(), "(array, length, %d, comparator)" % ELEM)
        else:
            # the argument shape is not the direct one; what reaches the C library is decided by evaluation (C07.R8)
            chk.undecided(rid, fname, callee, f.entry.term.locstr(),
                          "%s is not called directly with (arr->array, arr->length, sizeof(void*), comparator); see C07.R8" % callee)


# ---------------------------------------------------------------------------
# R8 sort and binary search hand the whole list to the C library
def r8_sort(chk, prog, m):
    from itertools import product
    from .. import pe
    rid = "C07.R8"
    chk.rule(rid, "array_list_sort, evaluated on every list of 0..4 elements over three keys with the comparator answered from the "
                  "keys: it either calls qsort on (the element block, the full length, the element size, the comparator) or returns "
                  "with the list already in comparator order; array_list_bsearch, evaluated on every sorted such list and the keys 0..4 "
                  "with bsearch answered from the block it is handed, reports a key as found exactly when the list contains it")
    names = m.struct_fields("%struct.array_list")
    chk.require(names and "array" in names and "length" in names, "layout of struct array_list not found")
    K_ARR, K_LEN = names.index("array"), names.index("length")

    class SortPE(pe.PE):
        def should_inline(self, g, instr):
            return g.internal

        def _slot(self, a):
            if a[0] == "ptr" and a[1] == "data":
                el, fl = pe.fields_of(a[2])
                if not fl and isinstance(el, int) and 0 <= el < len(self.keys):
                    return el
            return None

        def init_mem(self, state, base, path, t):
            q = [x for x in path if x != ("i", 0)]
            if base == "al":
                k = 0 if not q else (q[0] if isinstance(q[0], int) else None)
                if k == K_ARR and len(q) <= 1:
                    return ("ptr", "data", ())
                if k == K_LEN and len(q) == 1:
                    return pe.C(len(self.keys))
                return pe.TOP
            if base == "data":
                el, fl = pe.fields_of(path)
                if not fl and isinstance(el, int) and 0 <= el < len(self.keys):
                    return ("ptr", "elem%d" % self.keys[el], ())
            return pe.TOP

        def call_model(self, state, frame, i, args):
            nm = i.callee
            if nm in ("qsort", "bsearch"):
                self.libcalls.append((nm, args))
                return pe.C(0) if nm == "qsort" else ("ptr", "found", ())
            if nm is None and len(args) == 2:
                a, b = self._slot(args[0]), self._slot(args[1])
                if a is None or b is None:
                    self.unknown = True
                    return None
                ka, kb = self.keys[a], self.keys[b]
                return pe.C((ka > kb) - (ka < kb))
            return None
    n = 0
    f = m.functions.get("array_list_sort")
    chk.require(f is not None and not f.is_decl, "array_list_sort not found")
    chk.touched(f)
    bad = und = None
    for ln in range(0, 5):
        for keys in product((1, 2, 3), repeat=ln):
            h = SortPE(prog, max_leaves=20, max_steps=20000)
            h.loop_widen = 1000
            h.max_visits = 64
            h.keys, h.libcalls, h.unknown = list(keys), [], False
            try:
                leaves = h.run(f, [("ptr", "al", ()), ("ptr", "compar", ())], pe.State())
            except Exception as e:
                und = und or "%s: %s" % (list(keys), e)
                continue
            n += 1
            if h.unknown or any(lf.kind != "ret" for lf in leaves) or len(leaves) != 1:
                und = und or "%s: the evaluation does not end in one return" % (list(keys),)
                continue
            qs = [c for c in h.libcalls if c[0] == "qsort"]
            if qs:
                a = qs[0][1]
                ok = len(a) >= 4 and pe._norm_ptr(a[0]) == pe._norm_ptr(("ptr", "data", ())) and a[1] == pe.C(len(keys)) and a[2] == pe.C(8) and \
                    pe._norm_ptr(a[3]) == pe._norm_ptr(("ptr", "compar", ()))
                if not ok and bad is None:
                    bad = "for the list of keys %s qsort is called with (base, count, size) = (%s, %s, %s) instead of the whole list" % (
                        list(keys), a[0][1] if a[0][0] == "ptr" else a[0], a[1][1] if pe.is_const(a[1]) else "?", a[2][1] if pe.is_const(a[2]) else "?")
            elif list(keys) != sorted(keys) and bad is None:
                bad = "the list with keys %s (comparator order would be %s) is returned without being sorted" % (list(keys), sorted(keys))
    if bad:
        chk.refuted(rid, f.name, "sort", f.entry.term.locstr(), bad)
    elif und:
        chk.undecided(rid, f.name, "sort", f.entry.term.locstr(), und)
    else:
        chk.proven(rid, f.name, "sort", f.entry.term.locstr(), "qsort on the whole list (or already ordered) for %d lists" % n)
    g = m.functions.get("array_list_bsearch")
    if g is not None and not g.is_decl:
        chk.touched(g)

        class SearchPE(SortPE):
            """the searched key is an element with key self.kv; bsearch is answered from the keys of the block it is given"""
            def _keyval(self, a):
                if a[0] == "ptr" and a[1] == "key" and not [x for x in a[2] if x != ("i", 0)]:
                    return self.kv
                k = self._slot(a)
                return None if k is None else self.keys[k]

            def call_model(self, state, frame, i, args):
                nm = i.callee
                if nm == "bsearch":
                    self.libcalls.append((nm, args))
                    b0 = self._slot(args[1]) if len(self.keys) else (0 if pe._norm_ptr(args[1]) == pe._norm_ptr(("ptr", "data", ())) else None)
                    if b0 is None and pe._norm_ptr(args[1]) == pe._norm_ptr(("ptr", "data", ())):
                        b0 = 0
                    if b0 is None or not pe.is_const(args[2]) or args[3] != pe.C(8) or self._keyval(args[0]) is None:
                        self.unknown = True
                        return None
                    cnt = args[2][1]
                    if b0 + cnt > len(self.keys):
                        self.overrun = True
                        return None
                    for k in range(b0, b0 + cnt):
                        if self.keys[k] == self.kv:
                            return ("ptr", "hit%d" % k, ())
                    return pe.C(0)
                if nm is None and len(args) == 2:
                    ka, kb = self._keyval(args[0]), self._keyval(args[1])
                    if ka is None or kb is None:
                        self.unknown = True
                        return None
                    return pe.C((ka > kb) - (ka < kb))
                return super().call_model(state, frame, i, args)
        bad = und = None
        for ln in range(0, 5):
            for keys in product((1, 2, 3), repeat=ln):
                if list(keys) != sorted(keys):
                    continue
                for kv in (0, 1, 2, 3, 4):
                    h = SearchPE(prog, max_leaves=20, max_steps=20000)
                    h.loop_widen = 1000
                    h.max_visits = 64
                    h.keys, h.libcalls, h.unknown, h.kv, h.overrun = list(keys), [], False, kv, False
                    try:
                        leaves = h.run(g, [("ptr", "key", ()), ("ptr", "al", ()), ("ptr", "compar", ())], pe.State())
                    except Exception as e:
                        und = und or "%s, key %d: %s" % (list(keys), kv, e)
                        continue
                    n += 1
                    if h.overrun and bad is None:
                        bad = "for the sorted list of keys %s bsearch is given a block that extends beyond the list" % (list(keys),)
                        continue
                    rets = [lf for lf in leaves if lf.kind == "ret"]
                    if h.unknown or len(rets) != 1 or len(leaves) != 1 or rets[0].value is None:
                        und = und or "%s, key %d: the evaluation does not end in one concrete return" % (list(keys), kv)
                        continue
                    v = rets[0].value
                    if pe.is_const(v) and v[1] == 0:
                        got = None
                    elif v[0] == "ptr" and v[1].startswith("hit"):
                        got = int(v[1][3:])
                    else:
                        und = und or "%s, key %d: the result is neither NULL nor what bsearch returned" % (list(keys), kv)
                        continue
                    want = kv in keys
                    if (got is not None) != want and bad is None:
                        bad = "in the sorted list of keys %s the key %d is %s, but array_list_bsearch reports it as %s" % (
                            list(keys), kv, "present" if want else "absent", "found" if got is not None else "not found")
        if bad:
            chk.refuted(rid, g.name, "binary search", g.entry.term.locstr(), bad)
        elif und:
            chk.undecided(rid, g.name, "binary search", g.entry.term.locstr(), und)
        else:
            chk.proven(rid, g.name, "binary search", g.entry.term.locstr(), "found exactly when present, on every sorted list of 0..4 elements over three keys and the keys 0..4")
    chk.floor(rid, n, 60, "lists evaluated")


# ---------------------------------------------------------------------------
# R9 the node-level array operations hand their request to the list
def r9_wrappers(chk, prog):
    from .. import pe
    rid = "C07.R9"
    chk.rule(rid, "json_object_array_put_idx / json_object_array_add / json_object_array_insert_idx hand every request to the list "
                  "routine unchanged: evaluated with a value that is a node or JSON null and an index inside / beyond a list of two "
                  "elements, the list routine is called exactly once with (list, index, value) and its result is returned - storing "
                  "null beyond the end is a request like any other (it extends the list with nulls)")
    mo = prog.module("json_object.c")
    chk.require(mo is not None, "json_object.c not in the build")
    names = mo.struct_fields("%struct.json_object_array")
    chk.require(names and "c_array" in names, "layout of struct json_object_array not found")
    K = names.index("c_array")
    types = mo.enumerators("json_type")

    class WPE(pe.PE):
        def should_inline(self, g, instr):
            return g.internal

        def init_mem(self, state, base, path, t):
            if base != "arr":
                return pe.TOP
            q = [x for x in path if x != ("i", 0)]
            k = 0 if not q else (q[0] if isinstance(q[0], int) else q[0][2] if isinstance(q[0], tuple) and q[0][0] == "f" else None)
            if not q:
                return pe.C(types["json_type_array"])
            if k == K:
                return ("ptr", "list", ())
            return pe.TOP

        def call_model(self, state, frame, i, args):
            nm = i.callee or ""
            if nm in ("array_list_put_idx", "array_list_add", "array_list_insert_idx"):
                self.listcalls.append((nm, args))
                return pe.C(0)
            if nm == "array_list_get_idx":
                k = args[1][1] if pe.is_const(args[1]) else None
                return ("ptr", "elem%d" % k, ()) if k is not None and 0 <= k < 2 else pe.C(0)
            if nm in ("array_list_length", "json_object_array_length"):
                return pe.C(2)
            if nm in ("json_object_get_type",):
                return pe.C(types["json_type_array"])
            if nm == "__assert_fail":
                return "STOP"
            return None
    n = 0
    for fname, listfn, has_idx in (("json_object_array_put_idx", "array_list_put_idx", True), ("json_object_array_add", "array_list_add", False),
                                   ("json_object_array_insert_idx", "array_list_insert_idx", True)):
        f = mo.functions.get(fname)
        if f is None or f.is_decl:
            continue
        chk.touched(f)
        bad = und = None
        for val in (pe.C(0), ("ptr", "newval", ())):
            for idx in ((0, 1, 2, 5) if has_idx else (None,)):
                h = WPE(prog, max_leaves=20, max_steps=5000)
                h.listcalls = []
                args = [("ptr", "arr", ())] + ([pe.C(idx)] if has_idx else []) + [val]
                try:
                    leaves = h.run(f, args, pe.State())
                except Exception as e:
                    und = und or str(e)
                    continue
                n += 1
                rets = [lf for lf in leaves if lf.kind == "ret"]
                what = "%s(%s%s)" % (fname, ("index %d, " % idx) if has_idx else "", "null" if val == pe.C(0) else "a node")
                if len(rets) != 1 or len(leaves) != 1:
                    und = und or "%s: the evaluation does not end in one return" % what
                    continue
                want_args = [("ptr", "list", ())] + ([pe.C(idx)] if has_idx else []) + [val]
                ok = len(h.listcalls) == 1 and h.listcalls[0][0] == listfn and \
                    [pe._norm_ptr(a) if a[0] == "ptr" else a for a in h.listcalls[0][1][:len(want_args)]] == \
                    [pe._norm_ptr(a) if a[0] == "ptr" else a for a in want_args]
                if not ok and bad is None:
                    bad = "%s %s: the request never reaches the list as (list, %svalue), so the array is not changed the way the " \
                          "operation is documented to change it" % (what, "calls %s %d time(s)" % (listfn, len(h.listcalls)) if len(h.listcalls) != 1 else
                                                                     "passes other arguments to " + listfn, "index, " if has_idx else "")
        sig = "delegation of " + fname
        if bad:
            chk.refuted(rid, fname, sig, f.entry.term.locstr(), bad)
        elif und:
            chk.undecided(rid, fname, sig, f.entry.term.locstr(), und)
        else:
            chk.proven(rid, fname, sig, f.entry.term.locstr(), "one call of %s with the caller's arguments" % listfn)
    chk.floor(rid, n, 8, "wrapper evaluations")
