"""C08 - one allocation failure gives a clean failure.

R1 every may-fail allocation result is null-tested before it is dereferenced (E6)
R2 an owned local allocation is released or handed over on every path (E2, jcv.own)
R3 print-buffer / serializer / container-mutator failures surface (E1)
"""
from ..ir import load_program
from ..cfg import cfg_of, CallGraph
from .. import flow, own
from ..flow import Paths

PB_API = ("printbuf_memappend", "printbuf_memset", "sprintbuf", "printbuf_extend")


from ..nullflow import may_null_functions, unguarded_deref_params, deref_consumers as _deref_consumers, LIBC_ALLOC


def run(chk):
    prog = load_program("default")
    chk.variant(prog)
    r1(chk, prog)
    own.rule_leaks(chk, prog, "C08.R2")
    r3(chk, prog)
    from .. import heapuse
    heapuse.rule_free_const_param(chk, prog, "C08.R5")
    heapuse.rule_dangling_fields(chk, prog, "C08.R6")
    heapuse.rule_double_release(chk, prog, "C08.R7")
    from .. import nullflow as _nf
    _nf.rule_null_literal_args(chk, prog, "C08.R1n")
    with chk.shared():
        # R4 failure atomicity of the string set operation (shared with C11): a failed set must not have freed or written anything
        from . import c11
        c11.r_set(chk, prog, prog.module("json_object.c"))
        # failure atomicity of the array list (shared with C07): a failed growth / insert / put has written nothing, so the caller's
        # list is still the valid list it was
        from . import c07
        ma = prog.module("arraylist.c")
        chk.require(ma is not None, "arraylist.c not in the build")
        c07.r_expand(chk, prog, ma)
        c07.r_functions(chk, prog, ma)
        # the same for the hash table (a failed resize has not written the old table) and the print buffer (a refused or failed
        # extension has written no field), shared with C06 / C19
        from . import c06, c19
        ml, mp = prog.module("linkhash.c"), prog.module("printbuf.c")
        chk.require(ml is not None and mp is not None, "linkhash.c / printbuf.c not in the build")
        c06.r3_resize(chk, prog, ml)
        c19.r_extend(chk, prog, mp)
        c19.r_writers(chk, prog, mp)
    chk.undecided_clauses += [
        "that the k-th dynamic allocation of a given workload is handled (fault enumeration is a dynamic technique)",
        "absence of crashes inside libc",
        "R1 treats a maybe-null pointer that is stored or returned as handed over; what the receiver does is that receiver's obligation",
    ]


def r1(chk, prog):
    chk.rule("C08.R1", "every may-fail allocation result is null-tested before it is dereferenced or passed to a "
                       "callee that dereferences it unguarded")
    mn = may_null_functions(prog)
    sinks = unguarded_deref_params(prog)
    sites = 0
    for f in prog.all_functions():
        P = None
        for i in f.instrs():
            if i.op != "call" or i.callee not in mn or i.res is None:
                continue
            sites += 1
            chk.touched(f)
            bad = []
            for u, regs, kind in _deref_consumers(prog, f, i.res, sinks):
                if not flow.guarded_nonnull(f, regs, u):
                    bad.append((u, kind))
            if P is None:
                P = Paths(f, prog)
            sig = "%s(%s)" % (i.callee, ", ".join(P.path(a) for a in i.ops))
            if bad:
                u, kind = bad[0]
                chk.refuted("C08.R1", f.name, sig, i.locstr(),
                            "result of %s may be NULL (allocation failure) and is dereferenced unguarded at %s (%s)"
                            % (i.callee, u.locstr(), kind),
                            {"allocation": i.raw, "deref": u.raw, "all_unguarded": [x.locstr() for x, _ in bad]})
            else:
                chk.proven("C08.R1", f.name, sig, i.locstr(),
                           "every dereference of the result is behind a null test (or the result is only stored/returned/tested)")
    chk.floor("C08.R1", sites, 35, "call sites of may-fail allocators and constructors")
    chk.tables["may_null_functions"] = sorted(mn)
    # half-built objects: a field that may still be NULL when the object is handed to a function that dereferences that field
    from ..nullflow import unguarded_field_derefs, maybe_null_field_at_call
    chk.rule("C08.R1f", "an object whose pointer field was just assigned from a may-fail allocation is not passed, before a non-null test of "
                        "that field dominates the call, to a function that dereferences the field without testing it (a destructor or reset "
                        "routine run on a half-built object)")
    fsum = unguarded_field_derefs(prog, sinks)
    chk.tables["functions_dereferencing_a_field_unguarded"] = {"%s(arg %d)" % k: sorted(v) for k, v in sorted(fsum.items())}
    nf = 0
    for f in prog.all_functions():
        P = None
        for i in f.instrs():
            if i.op != "call" or not i.callee:
                continue
            for ai in range(len(i.ops)):
                fields = fsum.get((i.callee, ai))
                if not fields:
                    continue
                if P is None:
                    P = Paths(f, prog)
                for field, wit in sorted(fields.items()):
                    src = maybe_null_field_at_call(prog, f, P, i, ai, field, mn)
                    if src is None:
                        # only call sites where the field is assigned from an allocation in this function carry an obligation
                        tgt = P.path(i.ops[ai]) + "->" + field if i.ops[ai].kind == "reg" else None
                        if tgt and any(s.op == "store" and P.path(s.ops[1]) == tgt for s in f.instrs()):
                            nf += 1
                            chk.touched(f)
                            chk.proven("C08.R1f", f.name, "%s(%s) with ->%s" % (i.callee, P.path(i.ops[ai]), field), i.locstr(),
                                       "a non-null test of the field dominates the call (or it is not assigned from an allocation here)")
                        continue
                    nf += 1
                    chk.touched(f)
                    chk.refuted("C08.R1f", f.name, "%s(%s) with ->%s" % (i.callee, P.path(i.ops[ai]), field), i.locstr(),
                                "%s->%s is assigned from %s at %s and may be NULL (allocation failure) when %s is called, which dereferences "
                                "it without a test (%s)" % (P.path(i.ops[ai]), field, src.raw.split("=")[0].strip() if False else "a may-fail allocation",
                                                            src.locstr(), i.callee, wit.locstr()),
                                {"allocation_store": src.raw, "callee_deref": wit.raw})
    chk.floor("C08.R1f", nf, 1, "calls passing an object with a freshly allocated field to a function that dereferences the field")


def _is_serializer_indirect(f, i, P):
    """indirect call through a value loaded from a `_to_json_string` field"""
    c = i.x.get("callee")
    if c is None or c.kind != "reg":
        return False
    return P.path(c).endswith("_to_json_string")


def r3(chk, prog):
    chk.rule("C08.R3", "the result of every print-buffer append/format/extend call and of every indirect serializer "
                       "call is tested, or returned to a caller (never dropped or used only arithmetically)")
    sites = 0
    dropped = 0
    for f in prog.all_functions():
        P = Paths(f, prog)
        for i in f.instrs():
            if i.op != "call":
                continue
            nm = i.callee
            if nm in PB_API:
                what = nm
            elif nm is None and _is_serializer_indirect(f, i, P):
                what = "(*_to_json_string)"
            else:
                continue
            sites += 1
            chk.touched(f)
            fates = flow.result_fates(f, i)
            sig = "%s(%s)" % (what, ", ".join(_argsig(P, a) for a in i.ops))
            if fates & {"test", "returned"}:
                chk.proven("C08.R3", f.name, sig, i.locstr(), "result %s" % "/".join(sorted(fates)))
            else:
                dropped += 1
                o = chk.refuted("C08.R3", f.name, sig, i.locstr(),
                            "result of %s is dropped (%s): an allocation failure inside it is invisible to the caller, "
                            "which goes on to return success with truncated text" % (what, "/".join(sorted(fates))),
                            {"call": i.raw})
                o.group = what          # a known finding may name "dropped results of <callee> in <function>"
    chk.floor("C08.R3", sites, 50, "print-buffer API and indirect serializer call sites")
    chk.tables["R3_sites"] = {"total": sites, "dropped": dropped}


def _argsig(P, a):
    if a.kind == "cexpr" or a.kind == "global":
        from ..ir import strip_casts
        b = a
        while b.kind == "cexpr" and b.args:
            b = b.args[0]
        if b.kind == "global":
            g = P.mod.globals.get(b.v)
            if g is not None and g.bytes is not None:
                return repr(g.bytes.rstrip(b"\0").decode("latin1"))
    if a.kind == "int":
        return str(a.v)
    # anything that is not a literal is shown as '_': the signature (and with it a known-finding key) must not depend on the
    # names of locals and parameters
    return "_"
