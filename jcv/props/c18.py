"""C18 - threaded build: shared reference counts are atomic; the hash seed is set once.

Analysed on the `threading` variant (ENABLE_THREADING=ON), which the suite never compiles.
"""
from ..ir import load_program, strip_casts
from ..cfg import cfg_of, CallGraph
from ..flow import Paths, derived_values
from ..own import _icmp

# globals the library may write, with the only functions allowed to do so and why
GLOBAL_WRITERS = {
    "char_hash_fn": ({"json_global_set_string_hash"}, "explicit configuration setter (documented as not thread safe)"),
    "global_serialization_float_format": ({"json_c_set_serialization_double_format"}, "explicit configuration setter"),
    "_last_err": ({"_json_c_set_last_err"}, "error-message buffer of json_util, written only on failing file/descriptor operations"),
    "_debug": ({"mc_set_debug"}, "debug configuration setter"),
    "_syslog": ({"mc_set_syslog"}, "debug configuration setter"),
    "_json_c_strerror_enable": ({"_json_c_strerror"}, "test-only override switch latched from the environment on first error-message formatting"),
    "errno_buf": ({"_json_c_strerror"}, "static scratch buffer of the test-only strerror override (only when the override is enabled)"),
    "lh_char_hash.random_seed": ({"lh_char_hash"}, "hash seed: CAS only (rule R2)"),
}
# entry points whose success paths must not write any shared global (besides the seed CAS)
HOT_ENTRIES = ["json_object_get", "json_object_put", "json_tokener_parse_ex", "json_tokener_new_ex",
               "json_tokener_free", "json_tokener_reset", "json_object_to_json_string_ext",
               "json_object_new_object", "json_object_new_array", "json_object_new_string_len",
               "json_object_new_int64", "json_object_new_double", "json_object_object_add_ex",
               "json_object_object_get_ex", "json_object_array_add", "json_object_deep_copy",
               "json_object_equal", "json_object_object_del", "json_object_array_get_idx"]


def run(chk):
    variants = ["threading"]
    prog = load_program("threading")
    chk.variant(prog)
    r1(chk, prog, "threading")
    r2(chk, prog, "threading")
    r3(chk, prog, "threading")
    if chk.tier == "thorough":
        for v in ("asserts",):
            p2 = load_program(v)
            chk.variant(p2)
            r1(chk, p2, v)
            r2(chk, p2, v)
    chk.undecided_clauses += [
        "absence of data races under all interleavings (needs a happens-before detector)",
        "that no update is lost dynamically: decided only as 'every counter access is a seq_cst read-modify-write'",
    ]


def _refcount_accesses(prog):
    for f in prog.all_functions():
        P = None
        for i in f.instrs():
            addr = None
            if i.op == "load":
                addr = i.ops[0]
            elif i.op == "store":
                addr = i.ops[1]
            elif i.op in ("atomicrmw", "cmpxchg"):
                addr = i.ops[0]
            if addr is None:
                continue
            if P is None:
                P = Paths(f, prog)
            p = P.path(addr)
            if p.endswith("_ref_count"):
                yield f, i, p, P


def _fresh_object(f, i, P):
    """is the object whose field is accessed allocated in this very function (not yet shared)?"""
    addr = i.ops[1] if i.op == "store" else i.ops[0]
    p = P.path(addr)
    return p.startswith("call:malloc#") or p.startswith("call:calloc#")


def r1(chk, prog, variant):
    rid = "C18.R1"
    chk.rule(rid, "every access to the reference counter of a possibly shared node is a seq_cst atomic read-modify-write "
                  "by constant 1, and the destroy decision in json_object_put uses that instruction's own result")
    n = 0
    rmw = {"add": [], "sub": []}
    for f, i, p, P in _refcount_accesses(prog):
        n += 1
        chk.touched(f)
        # the signature names the field, not the pointer it is reached through (a renamed parameter is the same access)
        sig = "%s <node>->%s" % (i.op + ((" " + i.x.get("rmw")) if i.op == "atomicrmw" else ""), p.split("->")[-1])
        if i.op == "atomicrmw":
            ok = i.x.get("rmw") in ("add", "sub") and i.ops[1].kind == "int" and i.ops[1].v == 1 \
                and i.x.get("ordering") == "seq_cst"
            if ok:
                rmw[i.x["rmw"]].append((f, i))
                chk.proven(rid, f.name, sig, i.locstr(), "atomic %s 1 seq_cst" % i.x["rmw"], variant=variant)
            else:
                chk.refuted(rid, f.name, sig, i.locstr(), "atomic update is not add/sub 1 seq_cst: " + i.raw, variant=variant)
        elif i.op == "store" and _fresh_object(f, i, P):
            chk.proven(rid, f.name, sig, i.locstr(), "initialising store into an object allocated in this function (not yet shared)", variant=variant)
        else:
            chk.refuted(rid, f.name, sig, i.locstr(),
                        "plain %s of the reference counter of a node that other threads may be updating: %s" % (i.op, i.raw),
                        {"instr": i.raw}, variant=variant)
    chk.floor(rid, n, 3, "reference-counter accesses")
    # destroy decision
    put = prog.fn("json_object_put")
    chk.require(put is not None, "json_object_put not found")
    subs = [i for f, i in rmw["sub"] if f is put]
    if len(subs) != 1:
        # in a non-atomic configuration the plain accesses were already refuted above
        if not any(o.rule == rid and o.fn == "json_object_put" and o.verdict == "REFUTED" for o in chk.obls):
            chk.refuted(rid, "json_object_put", "decrement", "json_object.c", "expected exactly one atomic decrement, found %d" % len(subs), variant=variant)
        return
    A = subs[0]
    cfg = cfg_of(put)
    # the conditional branches whose condition is a function of the decrement's result (through arithmetic, comparisons and
    # boolean conversions): evaluate the condition for old counts 1, 2, 3, 2^32-1
    def depends(v, seen=None):
        seen = seen if seen is not None else set()
        if v.kind != "reg" or v.v in seen:
            return False
        seen.add(v.v)
        if v.v == A.res:
            return True
        d = put.defs.get(v.v)
        if d is None or d.op not in ("sub", "add", "icmp", "zext", "sext", "trunc", "bitcast", "xor", "and", "or", "select"):
            return False
        return any(depends(o, seen) for o in d.ops)

    def ev(v, old):
        if v.kind == "int":
            return v.v
        if v.kind != "reg":
            return None
        if v.v == A.res:
            return old
        d = put.defs.get(v.v)
        if d is None:
            return None
        if d.op in ("sub", "add", "xor", "and", "or"):
            a, b = ev(d.ops[0], old), ev(d.ops[1], old)
            if a is None or b is None:
                return None
            bits = int(d.type[1:]) if d.type[1:].isdigit() else 32
            r = {"sub": a - b, "add": a + b, "xor": a ^ b, "and": a & b, "or": a | b}[d.op]
            return r % (1 << bits)
        if d.op == "icmp":
            a, b = ev(d.ops[0], old), ev(d.ops[1], old)
            if a is None or b is None:
                return None
            return 1 if _icmp(d.x["pred"], a, b) else 0
        if d.op in ("zext", "trunc", "bitcast"):
            return ev(d.ops[0], old)
        if d.op == "sext":
            a = ev(d.ops[0], old)
            return a
        if d.op == "select":
            c = ev(d.ops[0], old)
            return None if c is None else ev(d.ops[1] if c else d.ops[2], old)
        return None
    branches = [b for b in put.instrs() if b.op == "br" and len(b.x["targets"]) == 2 and b.ops and depends(b.ops[0])]
    if len(branches) != 1:
        chk.refuted(rid, "json_object_put", "destroy decision", A.locstr(),
                    "the decrement's result feeds %d conditional branches (expected exactly one)" % len(branches), variant=variant)
        return
    br = branches[0]
    cmp_ = put.defs.get(br.ops[0].v) or br

    def newcount(old):
        r = ev(br.ops[0], old)
        return None if r is None else bool(r)
    outs = {old: newcount(old) for old in (1, 2, 3, 0xFFFFFFFF)}
    if None in outs.values():
        chk.undecided(rid, "json_object_put", "destroy decision", cmp_.locstr(), "cannot evaluate the comparison on the decrement result", variant=variant)
        return
    # the edge taken when old == 1 (new == 0) is the destroy edge; all other olds must take the other edge
    t_name, f_name = br.x["targets"]
    destroy_edge = t_name if outs[1] else f_name
    keep_edge = f_name if outs[1] else t_name
    exact = all(outs[o] != outs[1] for o in (2, 3, 0xFFFFFFFF))
    if not exact:
        chk.refuted(rid, "json_object_put", "destroy decision", cmp_.locstr(),
                    "the branch on the decrement result does not separate 'new count == 0' from 'new count > 0': %s" % outs,
                    variant=variant)
        return
    # every call in json_object_put (all of them destroy something) must be reachable only through destroy_edge
    bad = []
    calls = 0
    for i in put.instrs():
        if i.op == "call" and i is not A and i.callee not in ("__assert_fail", "abort"):
            calls += 1
            if not cfg.edge_dominates(br.block, put.blocks[destroy_edge], i.block):
                bad.append(i)
    # and no plain re-read of the counter decides anything (already covered: plain loads are refuted above)
    if bad:
        chk.refuted(rid, "json_object_put", "destroy decision", bad[0].locstr(),
                    "destruction step reachable without passing the 'count reached zero' edge of the atomic decrement: " + bad[0].raw,
                    variant=variant)
    else:
        chk.proven(rid, "json_object_put", "destroy decision", cmp_.locstr(),
                   "all %d destruction calls are dominated by the edge taken exactly when the atomic decrement's own result "
                   "says the count reached zero" % calls, variant=variant)
    chk.floor(rid + ".destroy", calls, 4, "destruction calls in json_object_put")


def r2(chk, prog, variant):
    rid = "C18.R2"
    chk.rule(rid, "the hash seed global is written only by compare-and-swap from the 'unset' sentinel to a value proven "
                  "different from the sentinel, and the hash reads the seed back from the global after the swap")
    f = prog.fn("lh_char_hash")
    chk.require(f is not None, "lh_char_hash not found")
    chk.touched(f)
    seedg = None
    for gname in f.module.globals:
        if gname.endswith("random_seed"):
            seedg = gname
    if seedg is None:
        # not under its reference name: the seed is the one writable integer global that the hash function reads
        from .c06 import _global_of
        cands = set()
        for i in f.instrs():
            if i.op == "load":
                t = _global_of(i.ops[0])
                gg = f.module.globals.get(t) if t else None
                if gg is not None and not gg.constant and gg.init is not None and gg.init.kind == "int":
                    cands.add(t)
        if len(cands) == 1:
            seedg = cands.pop()
    chk.require(seedg is not None, "seed global not found in linkhash.c")
    g = f.module.globals[seedg]
    chk.require(g.init is not None and g.init.kind == "int", "seed initialiser not an integer")
    sentinel = g.init.v
    cfg = cfg_of(f)
    writes = []
    for fn in prog.all_functions():
        for i in fn.instrs():
            tgt = None
            if i.op == "store":
                tgt = i.ops[1]
            elif i.op in ("cmpxchg", "atomicrmw"):
                tgt = i.ops[0]
            if tgt is not None:
                t = strip_casts(tgt)
                if t.kind == "global" and t.v == seedg and fn.module is f.module:
                    writes.append((fn, i))
    n = 0
    cas = None
    for fn, i in writes:
        n += 1
        sig = "%s @%s" % (i.op, seedg)
        if i.op == "cmpxchg":
            exp, new = i.ops[1], i.ops[2]
            ok_exp = exp.kind == "int" and exp.v == sentinel
            # new value must be proven != sentinel: dominated by the false edge of (new == sentinel)
            ok_new = False
            if new.kind == "reg":
                regs, cons = derived_values(fn, new.v)
                for u, r in cons:
                    if u.op == "icmp" and u.x["pred"] in ("eq", "ne"):
                        o = u.ops[1] if (u.ops[0].kind == "reg" and u.ops[0].v == r) else u.ops[0]
                        if o.kind == "int" and o.v == sentinel:
                            for b in cfg_of(fn).users(u.res):
                                if b.op == "br" and len(b.x["targets"]) == 2:
                                    t, e = b.x["targets"]
                                    ne_edge = e if u.x["pred"] == "eq" else t
                                    if cfg_of(fn).edge_dominates(b.block, fn.blocks[ne_edge], i.block):
                                        ok_new = True
            ok_ord = i.x.get("ordering") and i.x["ordering"][0] == "seq_cst"
            if ok_exp and ok_new and ok_ord:
                cas = i
                chk.proven(rid, fn.name, sig, i.locstr(), "CAS(%d -> seed), seed != %d on every path to it, seq_cst" % (sentinel, sentinel), variant=variant)
            else:
                chk.refuted(rid, fn.name, sig, i.locstr(),
                            "seed CAS malformed: expected==sentinel %s, new value proven != sentinel %s, seq_cst %s" % (ok_exp, ok_new, bool(ok_ord)),
                            variant=variant)
        else:
            chk.refuted(rid, fn.name, sig, i.locstr(),
                        "plain %s to the hash seed: two threads racing through first use can each publish a different seed, "
                        "so a key may hash differently in different threads" % i.op, {"instr": i.raw}, variant=variant)
    chk.floor(rid, n, 1, "writes to the seed global")
    # the hash must use the published seed (a load of the global that cannot precede the CAS), not the local candidate
    hl = [i for i in f.instrs() if i.op == "call" and i.callee == "hashlittle"]
    chk.require(len(hl) >= 1, "hashlittle call not found in lh_char_hash")
    for h in hl:
        v = h.ops[2]
        src = v
        seen = 0
        while src.kind == "reg" and src.v in f.defs and f.defs[src.v].op in ("trunc", "zext", "sext", "bitcast") and seen < 8:
            src = f.defs[src.v].ops[0]
            seen += 1
        d = f.defs.get(src.v) if src.kind == "reg" else None
        sig = "hashlittle seed argument"
        if d is not None and d.op == "load" and strip_casts(d.ops[0]).kind == "global" and strip_casts(d.ops[0]).v == seedg:
            after = True
            if cas is not None:
                # the load must not be able to run before the CAS on a path that then performs the CAS
                after = cas.block not in cfg.reachable_from(d.block) or d.block is cas.block and d.idx > cas.idx
            if after:
                chk.proven(rid, f.name, sig, h.locstr(), "seed is re-read from the global after the swap (the winner's value)", variant=variant)
            else:
                chk.refuted(rid, f.name, sig, h.locstr(), "seed read precedes the swap", variant=variant)
        else:
            chk.refuted(rid, f.name, sig, h.locstr(),
                        "the hash does not use the published seed (a load of the global after the swap) but %s: a thread that "
                        "loses the race would hash with its own candidate" % (d.raw if d is not None else repr(v)), variant=variant)


def _global_root(v):
    v = strip_casts(v) if v.kind == "cexpr" else v
    while v.kind == "cexpr" and v.args:
        v = v.args[0]
    return v.v if v.kind == "global" else None


def r3(chk, prog, variant):
    rid = "C18.R3"
    chk.rule(rid, "global-write inventory: every non-thread-local global written anywhere in the library is a listed "
                  "configuration/error-message global written only by its listed function; the node/parser/serializer "
                  "entry points reach no writer of shared state except the seed CAS")
    writers = {}   # global -> set of function names
    sites = {}
    for f in prog.all_functions():
        P = None
        for i in f.instrs():
            tgts = []
            if i.op == "store":
                tgts.append(i.ops[1])
            elif i.op in ("cmpxchg", "atomicrmw"):
                tgts.append(i.ops[0])
            elif i.op == "call":
                nm = i.callee or ""
                # writes through pointer arguments by libc writers
                if nm.startswith("llvm.mem") or nm in ("snprintf", "vsnprintf", "strcpy", "strcat", "memcpy", "sprintf", "strncpy"):
                    tgts.append(i.ops[0])
                # ... and by the I/O and utility routines that fill a caller-supplied buffer
                wr = {"read": 1, "pread": 1, "recv": 1, "recvfrom": 1, "fread": 0, "fgets": 0, "qsort": 0, "strftime": 0, "getrandom": 0,
                      "memmove": 0, "memset": 0, "stpcpy": 0, "strncat": 0, "gmtime_r": 1, "localtime_r": 1, "strerror_r": 1}.get(nm)
                if wr is not None and wr < len(i.ops):
                    tgts.append(i.ops[wr])
            for t in tgts:
                root = None
                tt = strip_casts(t) if t.kind in ("cexpr", "global") else t
                if tt.kind in ("global", "cexpr"):
                    root = _global_root(tt)
                elif tt.kind == "reg":
                    if P is None:
                        P = Paths(f, prog)
                    p = P.path(tt)
                    if p.startswith("@"):
                        root = p[1:].split("[")[0].split(".")[0].split("->")[0]
                        # static locals are named fn.var
                        full = p[1:]
                        for gname in f.module.globals:
                            if full.startswith(gname) and len(gname) > len(root):
                                root = gname
                        # a path through a loaded global pointer ('@g->x') writes the pointee, not the global
                        if "->" in p or (p.count("[") and not _is_array_global(f.module, root)):
                            root = None if "->" in p else root
                if root is None:
                    continue
                g = f.module.globals.get(root)
                if g is None or g.thread_local or g.constant:
                    continue
                writers.setdefault(root, set()).add(f.name)
                sites.setdefault(root, []).append(i)
    n = 0
    atomic_only = set()
    for gname, fns in sorted(writers.items()):
        n += 1
        allowed = GLOBAL_WRITERS.get(gname)
        loc = sites[gname][0].locstr()
        if allowed is None and all(x.op in ("cmpxchg", "atomicrmw") and (x.x.get("ordering") in ("seq_cst", ["seq_cst", "seq_cst"], ["seq_cst"]) or "seq_cst" in x.raw) for x in sites[gname]):
            # not a listed configuration global, but every write is a seq_cst atomic read-modify-write (a value published once,
            # like the hash seed under whatever name it has): no plain store can race with a reader
            atomic_only.add(gname)
            chk.proven(rid, ",".join(sorted(fns)), "write @%s" % gname, loc, "written only by seq_cst atomic read-modify-write instructions", variant=variant)
        elif allowed is None:
            chk.refuted(rid, ",".join(sorted(fns)), "write @%s" % gname, loc,
                        "global @%s is written by %s but is not in the inventory of shared state the library may modify"
                        % (gname, sorted(fns)), variant=variant)
        elif not fns <= allowed[0]:
            chk.refuted(rid, ",".join(sorted(fns - allowed[0])), "write @%s" % gname, loc,
                        "global @%s written outside its designated function(s) %s" % (gname, sorted(allowed[0])), variant=variant)
        else:
            chk.proven(rid, ",".join(sorted(fns)), "write @%s" % gname, loc, allowed[1], variant=variant)
    chk.floor(rid, n, 4, "written globals")
    chk.tables["global_writers"] = {k: sorted(v) for k, v in writers.items()}
    # reachability from hot entry points
    cg = CallGraph(prog)
    by_name = {}
    for f in prog.all_functions():
        by_name.setdefault(f.name, f)
    writer_fns = {fn for g, fns in writers.items() if g != "lh_char_hash.random_seed" and g not in atomic_only for fn in fns}
    for e in HOT_ENTRIES:
        f = prog.fn(e)
        chk.require(f is not None, "entry point %s not found" % e)
        reach = cg.reachable([f])
        bad = []
        nsites = 0
        for g in reach:
            if g.name in writer_fns:
                continue   # the writer itself: judged at its call sites
            for i in g.instrs():
                if i.op == "call" and i.callee in writer_fns:
                    nsites += 1
                    if not _failure_only(g, i):
                        bad.append((g, i))
        direct = [g.name for g in reach if g.name in writer_fns and g is f]
        if bad or direct:
            g, i = bad[0] if bad else (f, None)
            chk.refuted(rid, e, "reaches global writer", i.locstr() if i is not None else f.name,
                        "%s can reach a write of process-wide state (%s in %s) on a path that does not end in a failure "
                        "return: threads working on disjoint trees would interfere"
                        % (e, i.callee if i is not None else direct, g.name), variant=variant)
        else:
            chk.proven(rid, e, "reaches global writer", f.name,
                       "call graph from %s (%d functions): %d call sites of shared-state writers, each only on paths that "
                       "return a failure value (error-message path)" % (e, len(reach), nsites), variant=variant)


def _failure_only(g, call):
    """every return reachable from the call site returns a failure constant (negative / NULL)"""
    cfg = cfg_of(g)
    reach = cfg.reachable_from(call.block)
    for b in reach:
        t = b.term
        if t.op != "ret":
            continue
        if not t.ops:
            return False
        v = t.ops[0]
        vals = []
        if v.kind == "reg" and v.v in g.defs and g.defs[v.v].op == "phi":
            for val, lab in g.defs[v.v].x["incoming"]:
                if g.blocks[lab] in reach:
                    vals.append(val)
        else:
            vals.append(v)
        for val in vals:
            if val.kind == "null":
                continue
            if val.kind == "int" and val.v < 0:
                continue
            return False
    return True


def _is_array_global(mod, name):
    g = mod.globals.get(name)
    return g is not None and g.type.startswith("[")
