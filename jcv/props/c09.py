"""C09 - equality is a structural equivalence and deep copy gives an equal, disjoint tree.

R1 type dispatch: identical pointer => 1, one NULL => 0, different kinds => 0 without looking further; every kind has its own
   comparison (E3 over the kind pairs); the shallow copy has a case for every non-null kind and preserves it
R2 strings are compared and copied with their stored length (shared with C11.R6)
R3 integers compare by numeric value across signedness: decision table over representation tags and sign classes (E3)
R4 objects: every member of the first is looked up in the second and compared, and every member of the second is looked up in
   the first; any miss or inequality returns 0
R5 disjointness: nothing loaded from the source tree is stored into, or retained by, the copy (children come from the recursive
   copy's own result, keys through the copying add, serializer data through strdup); function pointers are exempt
R6 the copy keeps the representation: signed stays signed, unsigned stays unsigned, the serializer is carried over
"""
from ..ir import load_program, strip_casts
from ..cfg import cfg_of
from ..flow import Paths, derived_values
from .. import pe
from . import c11

TYPES = {"null": 0, "boolean": 1, "double": 2, "int": 3, "object": 4, "array": 5, "string": 6}


def run(chk):
    prog = load_program("default")
    chk.variant(prog)
    m = prog.module("json_object.c")
    chk.require(m is not None, "json_object.c not in the build")
    types = m.enumerators("json_type")
    chk.require({("json_type_" + k): v for k, v in TYPES.items()} == types, "enum json_type changed: %s" % types)
    r1(chk, prog, m)
    with chk.shared():
        c11.r6(chk, prog, m)
    r3(chk, prog, m)
    r4(chk, prog, m)
    r5(chk, prog, m)
    r6(chk, prog, m)
    r7_structure(chk, prog, m)
    r8_doubles(chk, prog, m)
    r9_scalar_copy(chk, prog, m)
    with chk.shared():
        c11.r7(chk, prog, prog.module("json_object.c"))   # shared: the sign-encoded string length is decoded before use
    chk.undecided_clauses += [
        "reflexivity / symmetry / transitivity as relations over all trees (follow from the per-kind tables plus the container rules only "
        "by induction over tree depth, which is argued, not mechanised, here)",
        "double comparison is IEEE == on the stored values (NaN != NaN): decided only as 'fcmp oeq of the two stored doubles'",
        "equality of the serializations of a tree and its copy",
    ]


class EqPE(pe.PE):
    def __init__(self, prog, mem):
        super().__init__(prog, max_leaves=5000, max_steps=300000)
        self.m = mem

    def should_inline(self, g, instr):
        return g.internal and g.name not in ("json_object_all_values_equal", "json_array_equal")

    def init_mem(self, state, base, path, t):
        el, fl = pe.fields_of(path)
        return self.m.get((base, fl), pe.TOP)

    def call_model(self, state, frame, i, args):
        nm = i.callee
        if nm in ("json_object_all_values_equal", "json_array_equal", "memcmp"):
            state.trace.append(("call", nm, tuple(args)))
            return self.fresh_root(state, nm, [0, 1]) if nm != "memcmp" else self.fresh_root(state, nm, [-1, 0, 1])
        return None


def r1(chk, prog, m):
    rid = "C09.R1"
    chk.rule(rid, "json_object_equal: same pointer => 1; a NULL side => 0; nodes of different kinds => 0 with no comparison of contents; "
                  "equal kinds dispatch to that kind's comparison; json_c_shallow_copy_default has a case for every non-null kind")
    f = prog.fn("json_object_equal")
    chk.require(f is not None, "json_object_equal not found")
    chk.touched(f)
    n = 0
    # pointer-level cases
    for a, b, want, name in ((("ptr", "A", ()), ("ptr", "A", ()), 1, "same node"), (pe.C(0), ("ptr", "B", ()), 0, "NULL vs node"),
                             (("ptr", "A", ()), pe.C(0), 0, "node vs NULL"), (pe.C(0), pe.C(0), 1, "NULL vs NULL")):
        n += 1
        P = EqPE(prog, {})
        leaves = P.run(f, [a, b], pe.State())
        ok = len(leaves) >= 1 and all(l.kind == "ret" and l.value == pe.C(want) and not [e for e in l.state.trace if e[0] == "call"] for l in leaves)
        (chk.proven if ok else chk.refuted)(rid, f.name, name, f.entry.term.locstr(),
                                            "returns %d" % want if ok else "%s does not simply return %d" % (name, want))
    # kind pairs
    for ta, va in TYPES.items():
        for tb, vb in TYPES.items():
            n += 1
            mem = {("A", ()): pe.C(va), ("B", ()): pe.C(vb)}
            P = EqPE(prog, mem)
            leaves = P.run(f, [("ptr", "A", ()), ("ptr", "B", ())], pe.State())
            sig = "%s vs %s" % (ta, tb)
            bad = None
            for l in leaves:
                calls = [e for e in l.state.trace if e[0] == "call"]
                if l.kind != "ret":
                    bad = "path ends with %s" % l.kind
                elif ta != tb:
                    if l.value != pe.C(0) or calls:
                        bad = "nodes of different kinds are not simply unequal (returns %r, calls %s)" % (l.value, [c[1] for c in calls])
                else:
                    want_call = {"object": "json_object_all_values_equal", "array": "json_array_equal", "string": "memcmp"}.get(ta)
                    names = [c[1] for c in calls]
                    if want_call and ta != "string" and names != [want_call]:
                        bad = "two %ss are not compared with %s (calls %s)" % (ta, want_call, names)
                    if ta == "null" and l.value != pe.C(1):
                        bad = "two null-kind nodes are not equal"
                    if ta in ("boolean", "double", "int") and calls:
                        bad = "scalar comparison calls %s" % names
            if bad:
                chk.refuted(rid, f.name, sig, f.entry.term.locstr(), bad)
            else:
                chk.proven(rid, f.name, sig, f.entry.term.locstr(), "%d path(s)" % len(leaves))
    # shallow copy: a case per non-null kind
    sc = prog.fn("json_c_shallow_copy_default")
    chk.require(sc is not None, "json_c_shallow_copy_default not found")
    chk.touched(sc)
    sw = [i for i in sc.instrs() if i.op == "switch"]
    P_ = Paths(sc, prog)
    top = [i for i in sw if P_.path(i.ops[0]).endswith("o_type")]
    n += 1
    cases = {v for v, _ in top[0].x["cases"]} if top else set()
    missing = [k for k, v in TYPES.items() if k != "null" and v not in cases]
    if missing:
        chk.refuted(rid, sc.name, "shallow copy kinds", (top[0] if top else sc.entry.term).locstr(), "no copy case for kind(s) %s" % missing)
    else:
        chk.proven(rid, sc.name, "shallow copy kinds", top[0].locstr(), "cases for all six value kinds")
    chk.floor(rid, n, 50, "pointer cases, kind pairs and copy kinds")


def r3(chk, prog, m):
    rid = "C09.R3"
    chk.rule(rid, "integer equality decision table over (representation tag x bit pattern) pairs: the result equals numeric equality of the "
                  "denoted values, in particular a negative signed value never equals an unsigned one with the same bit pattern")
    f = prog.fn("json_object_equal")
    tags = m.enumerators("json_object_int_type")
    T_I, T_U = tags["json_object_int_type_int64"], tags["json_object_int_type_uint64"]
    PATS = [-(1 << 63), -1, 0, 5, (1 << 63) - 1]        # bit patterns (as signed i64)
    n = 0
    bad = None
    npaths = 0
    for t1 in (T_I, T_U):
        for t2 in (T_I, T_U):
            mem = {("A", ()): pe.C(TYPES["int"]), ("B", ()): pe.C(TYPES["int"]),
                   ("A", (("f", "%struct.json_object_int", 1),)): pe.C(t1), ("B", (("f", "%struct.json_object_int", 1),)): pe.C(t2),
                   ("A", (("f", "%struct.json_object_int", 2),)): pe.R("v1"), ("B", (("f", "%struct.json_object_int", 2),)): pe.R("v2")}
            P = EqPE(prog, mem)
            st = pe.State()
            st.roots["v1"] = frozenset(PATS)
            st.roots["v2"] = frozenset(PATS)
            leaves = P.run(f, [("ptr", "A", ()), ("ptr", "B", ())], st)
            npaths += len(leaves)
            for l in leaves:
                if l.kind != "ret" or l.value is None:
                    bad = "path ends with %s" % l.kind
                    break
                for a in l.state.roots["v1"]:
                    for b in l.state.roots["v2"]:
                        n += 1
                        try:
                            got = pe.ev(l.value, {"v1": a, "v2": b})
                        except Exception:
                            got = None
                        da = a if t1 == T_I else a % (1 << 64)
                        db = b if t2 == T_I else b % (1 << 64)
                        want = int(da == db)
                        if got is None or int(bool(got)) != want:
                            bad = ("%s %d compared with %s %d gives %s, numeric equality is %d" %
                                   ("int64" if t1 == T_I else "uint64", da, "int64" if t2 == T_I else "uint64", db, got, want))
                if bad:
                    break
            if bad:
                break
        if bad:
            break
    if bad:
        chk.refuted(rid, f.name, "integer comparison", f.entry.term.locstr(), bad)
    else:
        chk.proven(rid, f.name, "integer comparison", f.entry.term.locstr(), "%d (tag, pattern) combinations on %d paths equal numeric equality" % (n, npaths))
    chk.floor(rid, n, 90, "integer comparison combinations")


class _EqPE(pe.PE):
    """json_object_equal on two containers whose members are scripted: tables, entries, element arrays and children are named heap
    objects; the recursive comparison of two children and the lookups of the hash table / array list API are answered from the script"""

    def __init__(self, prog, m, kind, left, right):
        super().__init__(prog, max_leaves=40, max_steps=60000)
        self.loop_widen = 1000
        self.max_visits = 64
        self.m = m
        self.kind = kind                  # 'object' | 'array'
        self.side = {"o1": left, "o2": right}      # object: [(key, child)], array: [child];  child = None | (name, value)
        self.types = {}
        for o in ("o1", "o2"):
            self.types[o] = "%struct.json_object_object" if kind == "object" else "%struct.json_object_array"
            self.types["t" + o[1]] = "%struct.lh_table"
            self.types["al" + o[1]] = "%struct.array_list"
            for k in range(len(self.side[o])):
                self.types["e%s_%d" % (o[1], k)] = "%struct.lh_entry"
        self.unknown = []

    def should_inline(self, g, instr):
        return g.internal

    # -- script helpers
    def _child(self, c):
        return pe.C(0) if c is None else ("ptr", "c:" + c[0], ())

    def _val_of(self, e):
        if pe.is_const(e):
            return ("null",) if e[1] == 0 else None
        if e[0] == "ptr" and e[1].startswith("c:") and not e[2]:
            for o in ("o1", "o2"):
                for it in self.side[o]:
                    c = it[1] if self.kind == "object" else it
                    if c is not None and c[0] == e[1][2:]:
                        return ("node", c[0], c[1])
        return None

    def _obj_of(self, e, prefixes):
        """which side a pointer to the object / its table / its array list denotes"""
        if e[0] == "ptr" and not [x for x in e[2] if x != ("i", 0)]:
            for pf in prefixes:
                if e[1] in (pf + "1", pf + "2"):
                    return "o" + e[1][-1]
        return None

    def _key_of(self, e):
        if e[0] == "ptr" and e[1].startswith("k:") and not [x for x in e[2] if x != ("i", 0)]:
            return e[1][2:]
        return None

    def _names(self, base, path):
        t = self._primary.get(base) or self.types.get(base)
        if base in self.types and t is not None and self.prog_structs(t) is None:
            t = self.types[base]
        names = []
        for p in path:
            if p == ("i", 0):
                continue
            if isinstance(p, tuple) and p[0] == "f":
                t, n = p[1], p[2]
            elif isinstance(p, int):
                n = p
            else:
                return None
            fl = self.prog_structs(t) if t else None
            fn = None
            for mm in self.prog.modules:
                fn = mm.struct_fields(t) if t else None
                if fn:
                    break
            if not fl or not fn or n >= len(fl) or n >= len(fn):
                return None
            names.append(fn[n])
            t = fl[n].strip()
        # the address of an aggregate is the address of its first scalar member
        while t and t.startswith("%struct.") and self.prog_structs(t):
            fn = None
            for mm in self.prog.modules:
                fn = mm.struct_fields(t)
                if fn:
                    break
            if not fn:
                return None
            names.append(fn[0])
            t = self.prog_structs(t)[0].strip()
        return tuple(names)

    def init_mem(self, state, base, path, t):
        if base.startswith("arr") and base[3:] in ("1", "2"):
            el, fl = pe.fields_of(path)
            items = self.side["o" + base[3:]]
            if not fl and isinstance(el, int) and 0 <= el < len(items):
                return self._child(items[el])
            return pe.TOP
        if base not in self.types:
            return pe.TOP
        nm = self._names(base, path)
        if nm is None:
            return pe.TOP
        side = "o" + (base[-1] if not base.startswith("e") else base[1])
        items = self.side[side]
        if base in ("o1", "o2"):
            if nm in (("base", "o_type"), ("o_type",)):
                return pe.C(TYPES[self.kind])
            if nm == ("c_object",) and self.kind == "object":
                return ("ptr", "t" + base[1], ())
            if nm == ("c_array",) and self.kind == "array":
                return ("ptr", "al" + base[1], ())
            return pe.TOP
        if base.startswith("t"):
            if nm == ("head",):
                return ("ptr", "e%s_0" % base[1], ()) if items else pe.C(0)
            if nm == ("tail",):
                return ("ptr", "e%s_%d" % (base[1], len(items) - 1), ()) if items else pe.C(0)
            if nm == ("count",):
                return pe.C(len(items))
            return pe.TOP
        if base.startswith("al"):
            if nm == ("length",):
                return pe.C(len(items))
            if nm == ("array",):
                return ("ptr", "arr" + base[2], ())
            return pe.TOP
        if base.startswith("e"):
            k = int(base.split("_")[1])
            if nm == ("k",):
                return ("ptr", "k:" + items[k][0], ())
            if nm == ("v",):
                return self._child(items[k][1])
            if nm == ("next",):
                return ("ptr", "e%s_%d" % (base[1], k + 1), ()) if k + 1 < len(items) else pe.C(0)
            if nm == ("prev",):
                return ("ptr", "e%s_%d" % (base[1], k - 1), ()) if k > 0 else pe.C(0)
        return pe.TOP

    def _lookup(self, side, key):
        for k, (kk, c) in enumerate(self.side[side]):
            if kk == key:
                return k, c
        return None, None

    def call_model(self, state, frame, i, args):
        nm = i.callee
        if nm == "json_object_equal" and len(args) == 2:
            a, b = self._val_of(args[0]), self._val_of(args[1])
            if a is None or b is None:
                return None
            if a[0] == "null" or b[0] == "null":
                return pe.C(int(a == b))
            return pe.C(int(a[2] == b[2]))
        if nm in ("json_object_get_type",):
            return pe.C(TYPES[self.kind]) if self._obj_of(args[0], ["o"]) else None
        if nm == "json_object_is_type" and self._obj_of(args[0], ["o"]) and pe.is_const(args[1]):
            return pe.C(int(args[1][1] == TYPES[self.kind]))
        if self.kind == "object":
            if nm in ("json_object_get_object",):
                o = self._obj_of(args[0], ["o"])
                return ("ptr", "t" + o[1], ()) if o else None
            if nm in ("json_object_object_length", "lh_table_length"):
                o = self._obj_of(args[0], ["o", "t"])
                return pe.C(len(self.side[o])) if o else None
            if nm in ("lh_get_hash",):
                return pe.C(7)
            if nm in ("lh_table_lookup_ex", "json_object_object_get_ex", "lh_table_lookup_entry", "lh_table_lookup_entry_w_hash",
                      "json_object_object_get"):
                o = self._obj_of(args[0], ["o", "t"])
                key = self._key_of(args[1]) if len(args) > 1 else None
                if o is None or key is None:
                    return None
                k, c = self._lookup(o, key)
                if nm in ("lh_table_lookup_entry", "lh_table_lookup_entry_w_hash"):
                    return pe.C(0) if k is None else ("ptr", "e%s_%d" % (o[1], k), ())
                if nm == "json_object_object_get":
                    return pe.C(0) if k is None else self._child(c)
                if len(args) > 2 and args[2][0] == "ptr":
                    self.store(state, args[2], pe.C(0) if k is None else self._child(c))
                return pe.C(int(k is not None))
        else:
            if nm == "json_object_get_array":
                o = self._obj_of(args[0], ["o"])
                return ("ptr", "al" + o[1], ()) if o else None
            if nm in ("json_object_array_length", "array_list_length"):
                o = self._obj_of(args[0], ["o", "al"])
                return pe.C(len(self.side[o])) if o else None
            if nm in ("json_object_array_get_idx", "array_list_get_idx"):
                o = self._obj_of(args[0], ["o", "al"])
                if o is None or not pe.is_const(args[1]):
                    return None
                k = args[1][1] % (1 << 64)
                return self._child(self.side[o][k]) if k < len(self.side[o]) else pe.C(0)
        if nm and not nm.startswith("llvm.") and nm != "__assert_fail":
            g = self.prog.resolve(nm, frame.fn.module)
            if g is None or not g.internal:
                self.unknown.append(nm)
        return None


def _eq_value(c):
    return ("null",) if c is None else c[1]


def r4(chk, prog, m):
    from itertools import permutations, product
    rid = "C09.R4"
    chk.rule(rid, "container equality decided by evaluating json_object_equal on scripted pairs of objects (keys from {a, b} in every "
                  "insertion order, members null or nodes of two values) and arrays (up to 2 elements): the result is 1 exactly when both "
                  "have the same key set / length and every corresponding pair of children compares equal; the comparison of children "
                  "and the table / array lookups are answered from the script, so the rule holds for any decomposition into helpers")
    f = m.functions.get("json_object_equal")
    chk.require(f is not None and not f.is_decl, "json_object_equal not found")
    chk.touched(f)
    for nm in ("json_object_all_values_equal", "json_array_equal"):
        g = m.functions.get(nm)
        if g is not None and not g.is_decl:
            chk.touched(g)
    n = 0
    # ---- objects
    objs = [[]]
    for ks in (("a",), ("b",), ("a", "b"), ("b", "a")):
        objs += [list(zip(ks, vs)) for vs in product((None, "v1", "v2"), repeat=len(ks))]
    cls_of = {}
    bad, und = {}, {}
    ORDER = ("objects: same keys, equal members", "objects: same keys, a member differs", "objects: a key of the first is missing in the second",
             "objects: the second has a key the first lacks")
    for L in objs:
        for Rr in objs:
            left = [(k, None if v is None else ("l_" + k, v)) for k, v in L]
            right = [(k, None if v is None else ("r_" + k, v)) for k, v in Rr]
            dl, dr = dict(left), dict(right)
            if set(dl) - set(dr):
                cls, want = ORDER[2], 0
            elif set(dr) - set(dl):
                cls, want = ORDER[3], 0
            elif all(_eq_value(dl[k]) == _eq_value(dr[k]) for k in dl):
                cls, want = ORDER[0], 1
            else:
                cls, want = ORDER[1], 0
            h = _EqPE(prog, m, "object", left, right)
            leaves = h.run(f, [("ptr", "o1", ()), ("ptr", "o2", ())], pe.State())
            n += 1
            cls_of[cls] = cls_of.get(cls, 0) + 1
            outs = set()
            for lf in leaves:
                if lf.kind == "ret" and lf.value is not None and pe.is_const(lf.value):
                    outs.add(int(lf.value[1] != 0))
                else:
                    outs.add("?")
            desc = "{%s} against {%s}" % (", ".join("%s: %s" % (k, v or "null") for k, v in L), ", ".join("%s: %s" % (k, v or "null") for k, v in Rr))
            if "?" in outs or not outs:
                und.setdefault(cls, (desc, sorted(set(h.unknown))))
            elif outs != {want}:
                bad.setdefault(cls, (desc, outs, want))
    for cls in ORDER:
        if cls in bad:
            desc, outs, want = bad[cls]
            chk.refuted(rid, f.name, cls, f.entry.term.locstr(),
                        "json_object_equal gives %s for %s; structural equality is %d" % ("/".join(map(str, sorted(outs))), desc, want),
                        {"pair": desc})
        elif cls in und:
            chk.undecided(rid, f.name, cls, f.entry.term.locstr(),
                          "the evaluation of %s does not reach a concrete result%s" %
                          (und[cls][0], (" (calls outside the script: %s)" % ", ".join(und[cls][1])) if und[cls][1] else ""))
        else:
            chk.proven(rid, f.name, cls, f.entry.term.locstr(), "as required on %d scripted pairs" % cls_of.get(cls, 0))
    # ---- arrays
    arrs = [[]] + [list(vs) for ln in (1, 2) for vs in product((None, "v1", "v2"), repeat=ln)]
    AORDER = ("arrays: same length, equal elements", "arrays: same length, an element differs", "arrays: different lengths")
    bad, und, cnt = {}, {}, {}
    for L in arrs:
        for Rr in arrs:
            left = [None if v is None else ("l_%d" % k, v) for k, v in enumerate(L)]
            right = [None if v is None else ("r_%d" % k, v) for k, v in enumerate(Rr)]
            if len(L) != len(Rr):
                cls, want = AORDER[2], 0
            elif L == Rr:
                cls, want = AORDER[0], 1
            else:
                cls, want = AORDER[1], 0
            h = _EqPE(prog, m, "array", left, right)
            leaves = h.run(f, [("ptr", "o1", ()), ("ptr", "o2", ())], pe.State())
            n += 1
            cnt[cls] = cnt.get(cls, 0) + 1
            outs = set()
            for lf in leaves:
                if lf.kind == "ret" and lf.value is not None and pe.is_const(lf.value):
                    outs.add(int(lf.value[1] != 0))
                else:
                    outs.add("?")
            desc = "[%s] against [%s]" % (", ".join(v or "null" for v in L), ", ".join(v or "null" for v in Rr))
            if "?" in outs or not outs:
                und.setdefault(cls, (desc, sorted(set(h.unknown))))
            elif outs != {want}:
                bad.setdefault(cls, (desc, outs, want))
    for cls in AORDER:
        if cls in bad:
            desc, outs, want = bad[cls]
            chk.refuted(rid, f.name, cls, f.entry.term.locstr(),
                        "json_object_equal gives %s for %s; structural equality is %d" % ("/".join(map(str, sorted(outs))), desc, want),
                        {"pair": desc})
        elif cls in und:
            chk.undecided(rid, f.name, cls, f.entry.term.locstr(),
                          "the evaluation of %s does not reach a concrete result%s" %
                          (und[cls][0], (" (calls outside the script: %s)" % ", ".join(und[cls][1])) if und[cls][1] else ""))
        else:
            chk.proven(rid, f.name, cls, f.entry.term.locstr(), "as required on %d scripted pairs" % cnt.get(cls, 0))
    chk.floor(rid, n, 700, "scripted container pairs evaluated")


def r5(chk, prog, m):
    rid = "C09.R5"
    chk.rule(rid, "deep copy disjointness: no heap pointer loaded from the source tree is stored into the copy or handed to an API that "
                  "retains it; children are the recursive copy's own results, keys are copied by the add, serializer data by strdup")
    RETAIN = {"json_object_object_add": [2], "json_object_object_add_ex": [1, 2], "json_object_array_add": [1],
              "json_object_array_put_idx": [2], "json_object_set_userdata": [1], "json_object_set_serializer": [2],
              "lh_table_insert": [1, 2], "array_list_add": [1]}
    n = 0
    for fname in ("json_object_deep_copy_recursive", "json_c_shallow_copy_default", "json_object_copy_serializer_data"):
        f = m.functions.get(fname)
        chk.require(f is not None and not f.is_decl, fname + " not found")
        chk.touched(f)
        P = Paths(f, prog)
        src = f.params[0][1]
        # tainted registers: pointer values loaded through the source node (children, keys, payload pointers, userdata)
        taint = set()
        changed = True
        instrs = list(f.instrs())
        iter_paths = set()
        slot_taint = set()
        while changed:
            changed = False
            for i in instrs:
                if i.res is None or i.res in taint:
                    continue
                t = i.type or ""
                if i.op == "load" and t.endswith("*") and "(" not in t:
                    p = P.path(i.ops[0])
                    if p.startswith(src + "->") or p.startswith(src + ".") or p in iter_paths or any(p.startswith(x) for x in iter_paths):
                        taint.add(i.res)
                        changed = True
                elif i.op == "call" and i.callee in ("json_object_array_get_idx", "get_string_component", "get_string_component_mutable",
                                                       "json_object_get_string", "json_object_get_object", "json_object_get_array", "json_object_get") and \
                        i.ops and i.ops[0].kind == "reg" and (i.ops[0].v == src or i.ops[0].v in taint):
                    taint.add(i.res)
                    changed = True
                elif i.op in ("bitcast", "getelementptr", "phi", "select") and any(o.kind == "reg" and o.v in taint for o in i.ops):
                    taint.add(i.res)
                    changed = True
                if i.op == "load" and (i.type or "").endswith("*") and P.path(i.ops[0]) in slot_taint:
                    taint.add(i.res)
                    changed = True
            # a local slot that is assigned a source pointer anywhere may hold it at any later read (flow-insensitive)
            for i in instrs:
                if i.op == "store" and i.ops[0].kind == "reg" and i.ops[0].v in taint and i.ops[1].kind == "reg":
                    d = f.defs.get(i.ops[1].v)
                    if d is not None and d.op == "alloca" and P.path(i.ops[1]) not in slot_taint:
                        slot_taint.add(P.path(i.ops[1]))
                        changed = True
            # the foreachC iterator struct is filled from the source's table
            for i in instrs:
                if i.op == "store" and i.ops[0].kind == "reg":
                    p = P.path(i.ops[1])
                    if p.startswith("iter") and p not in iter_paths:
                        vp = P.path(i.ops[0])
                        if src in vp or i.ops[0].v in taint or "json_object_get_object" in vp or "->head" in vp or "->next" in vp or "->k" in vp or "->v" in vp:
                            iter_paths.add(p)
                            changed = True
        dstp = [nm for t, nm in f.params if t.endswith("json_object**")] + (["dst"] if fname == "json_object_copy_serializer_data" else [])
        for i in instrs:
            if i.op == "call" and i.callee in RETAIN:
                for k in RETAIN[i.callee]:
                    if k < len(i.ops):
                        n += 1
                        a = i.ops[k]
                        sig = "%s arg %d in %s" % (i.callee, k, fname)
                        if a.kind == "reg" and a.v in taint:
                            chk.refuted(rid, fname, sig, i.locstr(),
                                        "a pointer taken from the source tree (%s) is handed to %s, which retains it: the copy shares that "
                                        "node / buffer with its source" % (P.path(a), i.callee), {"call": i.raw})
                        else:
                            chk.proven(rid, fname, sig, i.locstr(), "argument %s does not come from the source tree" % P.path(a))
            elif i.op == "store" and i.ops[0].kind == "reg" and i.ops[0].v in taint:
                p = P.path(i.ops[1])
                if any(p.startswith(d) for d in dstp) or "call:json_object_new" in p:
                    n += 1
                    chk.refuted(rid, fname, "store into the copy", i.locstr(),
                                "a pointer taken from the source tree (%s) is stored into the copy at %s" % (P.path(i.ops[0]), p))
        # keys: json_object_object_add copies the key (flags-less add); the _ex form with CONSTANT_KEY would retain it
        for i in instrs:
            if i.op == "call" and i.callee == "json_object_object_add_ex":
                n += 1
                chk.refuted(rid, fname, "key retention", i.locstr(), "the copy adds members with json_object_object_add_ex: with the constant-key flag the source's key pointer would be retained")
    chk.floor(rid, n, 2, "retaining call sites in the copy functions")


def r6(chk, prog, m):
    rid = "C09.R6"
    chk.rule(rid, "the shallow copy builds an int node with the constructor of the same signedness as the source's representation tag, "
                  "and carries the serializer function over")
    f = prog.fn("json_c_shallow_copy_default")
    tags = m.enumerators("json_object_int_type")
    T_I, T_U = tags["json_object_int_type_int64"], tags["json_object_int_type_uint64"]

    class CopyPE(pe.PE):
        def should_inline(self, g, instr):
            return g.internal

        def init_mem(self, state, base, path, t):
            el, fl = pe.fields_of(path)
            return self.mem.get((base, fl), pe.TOP)

        def call_model(self, state, frame, i, args):
            nm = i.callee
            if nm and nm.startswith("json_object_new_"):
                state.trace.append(("call", nm, tuple(args)))
                return ("ptr", "copy", ())
            return None
    for tag, want in ((T_I, "json_object_new_int64"), (T_U, "json_object_new_uint64")):
        P = CopyPE(prog)
        P.mem = {("S", ()): pe.C(TYPES["int"]), ("S", (("f", "%struct.json_object_int", 1),)): pe.C(tag),
                 ("S", (("f", "%struct.json_object_int", 2),)): ("sym", "payload"), ("S", (2,)): ("ptr", "serializer", ())}
        leaves = P.run(f, [("ptr", "S", ()), pe.C(0), pe.C(0), pe.C(0), ("ptr", "out", ())], pe.State())
        sig = "int node with tag %d" % tag
        bad = None
        for l in leaves:
            calls = [e for e in l.state.trace if e[0] == "call"]
            if l.kind != "ret":
                bad = "path ends with %s" % l.kind
            elif [c[1] for c in calls] != [want]:
                bad = "copied with %s instead of %s: the value's signedness changes (e.g. 2^63 becomes negative)" % ([c[1] for c in calls], want)
            elif calls[0][2][0] != ("sym", "payload"):
                bad = "the constructor is not given the stored value"
            else:
                ser = l.state.mem.get(("copy", (("i", 0), 2)))
                if ser != ("ptr", "serializer", ()) and l.value == pe.C(1):
                    bad = "the serializer function is not carried over to the copy"
        if bad:
            chk.refuted(rid, f.name, sig, f.entry.term.locstr(), bad)
        else:
            chk.proven(rid, f.name, sig, f.entry.term.locstr(), "copied with %s, serializer carried over" % want)
    _r6_serializer_data(chk, prog, m, rid)


def _r6_serializer_data(chk, prog, m, rid, announce=False):
    """the routine that copies serializer user data, evaluated for each serializer function the library itself installs together
    with user data: afterwards the copy has the *same* serializer function as the source (the setters recognise the library's own
    wrapper by its address), its own user data block and the source's delete function"""
    from ..strpe import StrPE
    if announce:
        chk.rule(rid, "the routine that copies serializer user data in a deep copy, evaluated for each serializer function the library "
                      "installs together with user data: the copy keeps the same serializer function (the setters recognise the library's "
                      "own wrapper by its address and drop the retained number text through it), gets its own user data block and the "
                      "source's delete function")
    g = m.functions.get("json_object_copy_serializer_data")
    if g is None or g.is_decl:
        return
    chk.touched(g)
    names = m.struct_fields("%struct.json_object")
    if not names or "_to_json_string" not in names:
        chk.undecided(rid, g.name, "serializer data", g.entry.term.locstr(), "field names of struct json_object not available")
        return
    IDX = {nm: k for k, nm in enumerate(names)}
    # the serializer functions that the library installs with user data (found as arguments of json_object_set_serializer together
    # with a non-null user data argument, or compared against in the routine itself)
    fns = set()
    for i in g.instrs():
        if i.op == "icmp":
            for o in i.ops:
                o2 = strip_casts(o)
                if o2.kind == "global" and o2.v in m.functions:
                    fns.add(o2.v)
    if not fns:
        chk.undecided(rid, g.name, "serializer data", g.entry.term.locstr(), "the routine compares the serializer with no known function")
        return

    class SerPE(StrPE):
        model_alloc = True

        def should_inline(self, gg, instr):
            return gg.internal or gg.name in ("json_object_set_serializer", "json_object_set_userdata")

        def init_mem(self, state, base, path, t):
            q = [x for x in path if x != ("i", 0)]
            k = 0
            if q:
                k = q[0] if isinstance(q[0], int) else (q[0][2] if isinstance(q[0], tuple) and q[0][0] == "f" else None)
            if base in ("src", "dst") and k is not None and k < len(names) and len(q) <= 1:
                fld = names[k]
                if fld == "o_type":
                    return pe.C(TYPES["double"])
                if fld == "_to_json_string":
                    return ("ptr", "@" + self.fn_name, ())
                if base == "src":
                    if fld == "_userdata":
                        return ("ptr", "ud", ())
                    if fld == "_user_delete":
                        return ("ptr", "@json_object_free_userdata", ())
                else:
                    if fld in ("_userdata", "_user_delete", "_pb"):
                        return pe.C(0)
            if base == "ud":
                el, fl = pe.fields_of(path)
                txt = b"1.50\0"
                if not fl and isinstance(el, int) and 0 <= el < len(txt):
                    return pe.C(txt[el])
            return pe.TOP

        def call_model(self, state, frame, i, args):
            if i.callee in ("_json_c_set_last_err", "__assert_fail"):
                return pe.C(0)
            return self.libc_string_model(state, frame, i, args)
    for fn_name in sorted(fns):
        P = SerPE(prog, max_leaves=40, max_steps=20000)
        P.fn_name = fn_name
        sig = "user data of a node serialized by %s" % fn_name
        try:
            leaves = P.run(g, [("ptr", "src", ()), ("ptr", "dst", ())], pe.State())
        except Exception as e:
            chk.undecided(rid, g.name, sig, g.entry.term.locstr(), str(e))
            continue
        bad = None
        und = None
        ok = 0
        for l in leaves:
            if l.kind != "ret" or l.value != pe.C(0):
                continue
            ok += 1

            def fld(nm, l=l):
                for loc, v in l.state.mem.items():
                    if loc[0] == "dst":
                        q = [x for x in loc[1] if x != ("i", 0)]
                        k = 0 if not q else (q[0] if isinstance(q[0], int) else q[0][2] if isinstance(q[0], tuple) and q[0][0] == "f" else None)
                        if k == IDX[nm] and len(q) <= 1:
                            return v
                return None
            ser = fld("_to_json_string")
            if ser is not None and pe._norm_ptr(ser) != pe._norm_ptr(("ptr", "@" + fn_name, ())):
                bad = ("the copy of a node whose serializer is %s ends up with the serializer %s: code that recognises the library's own "
                       "wrapper by its address (e.g. a later json_object_set_double dropping the retained text) no longer does, and the "
                       "copy serializes stale text" % (fn_name, ser[1].lstrip("@") if ser[0] == "ptr" else ser))
            ud = fld("_userdata")
            if bad is None and ud is not None and ud[0] == "ptr" and ud[1] == "ud":
                bad = "the copy's user data is the source's own block, not a block of its own"
            elif bad is None and (ud is None or ud[0] != "ptr"):
                und = "what the copy's user data holds afterwards is not visible to the evaluation"
            dl = fld("_user_delete")
            if bad is None and dl is not None and dl[0] in ("ptr", "c") and pe._norm_ptr(dl) != pe._norm_ptr(("ptr", "@json_object_free_userdata", ())):
                bad = "the copy's user-data delete function is not the source's"
            elif bad is None and dl is None:
                und = "what the copy's delete function is afterwards is not visible to the evaluation"
        if bad:
            chk.refuted(rid, g.name, sig, g.entry.term.locstr(), bad)
        elif ok == 0 or und:
            chk.undecided(rid, g.name, sig, g.entry.term.locstr(), und or "no successful path was evaluated")
        else:
            chk.proven(rid, g.name, sig, g.entry.term.locstr(), "same serializer function, own user data block, same delete function")


# ---------------------------------------------------------------------------
# R7 the copy has the source's structure
class _CopyPE(_EqPE):
    """json_object_deep_copy_recursive on one scripted container: the shallow-copy callback creates the destination node, the
    recursive call on a child yields that child's copy, and the destination's add / put operations are recorded"""

    def __init__(self, prog, m, kind, members):
        super().__init__(prog, m, kind, members, [])
        self.dst = []          # object: [(key, value)], array: [value]
        self.bad_call = None

    def _copy_of(self, e):
        if pe.is_const(e) and e[1] == 0:
            return None
        if e[0] == "ptr" and e[1].startswith("copy:"):
            return e[1][5:]
        return "?" + repr(e)

    def call_model(self, state, frame, i, args):
        nm = i.callee
        if nm is None and len(args) == 5:
            # the shallow-copy callback
            if args[0] == ("ptr", "o1", ()) and args[4][0] == "ptr":
                self.store(state, args[4], ("ptr", "dstobj", ()))
                return pe.C(1)
            return None
        if nm == "json_object_deep_copy_recursive" and len(args) >= 5 and args[0][0] == "ptr" and args[0][1].startswith("c:") and args[4][0] == "ptr":
            self.store(state, args[4], ("ptr", "copy:" + args[0][1][2:], ()))
            return pe.C(0)
        if nm == "json_object_copy_serializer_data":
            return pe.C(0)
        if nm in ("json_object_object_add", "json_object_object_add_ex") and args and args[0] == ("ptr", "dstobj", ()):
            key = self._key_of(args[1])
            self.dst.append((key if key is not None else "?", self._copy_of(args[2])))
            return pe.C(0)
        if nm == "json_object_array_add" and args and args[0] == ("ptr", "dstobj", ()):
            self.dst.append(self._copy_of(args[1]))
            return pe.C(0)
        if nm in ("json_object_array_put_idx", "json_object_array_insert_idx") and args and args[0] == ("ptr", "dstobj", ()) and pe.is_const(args[1]):
            k = args[1][1] % (1 << 64)
            if k > 64:
                self.bad_call = nm
                return pe.C(-1)
            if nm == "json_object_array_put_idx":
                while len(self.dst) <= k:
                    self.dst.append(None)
                self.dst[k] = self._copy_of(args[2])
            else:
                while len(self.dst) < k:
                    self.dst.append(None)
                self.dst.insert(k, self._copy_of(args[2]))
            return pe.C(0)
        if nm in ("json_object_put",):
            return pe.C(1)
        if nm == "__errno_location":
            return ("ptr", "errno", ())
        if nm == "__assert_fail":
            return "STOP"
        return super().call_model(state, frame, i, args)


def r7_structure(chk, prog, m):
    from itertools import product
    rid = "C09.R7"
    chk.rule(rid, "the copy has the source's structure: json_object_deep_copy_recursive evaluated on scripted arrays of 0..3 elements "
                  "and objects over the keys a, b (both orders), each child a node or JSON null - the destination receives exactly one "
                  "entry per source entry, in order, holding the child's copy (null for null), including trailing nulls")
    f = m.functions.get("json_object_deep_copy_recursive")
    chk.require(f is not None and not f.is_decl, "json_object_deep_copy_recursive not found")
    chk.touched(f)
    n = 0
    for kind in ("array", "object"):
        fam = []
        if kind == "array":
            for ln in range(0, 4):
                fam += [list(t) for t in product((None, "n"), repeat=ln)]
        else:
            fam = [[]]
            for ks in (("a",), ("a", "b"), ("b", "a")):
                fam += [list(zip(ks, vs)) for vs in product((None, "n"), repeat=len(ks))]
        bad = und = None
        for src in fam:
            if kind == "array":
                members = [None if v is None else ("e%d" % k, "v") for k, v in enumerate(src)]
                want = [None if v is None else "e%d" % k for k, v in enumerate(src)]
            else:
                members = [(k, None if v is None else ("m_" + k, "v")) for k, v in src]
                want = [(k, None if v is None else "m_" + k) for k, v in src]
            h = _CopyPE(prog, m, kind, members)
            try:
                leaves = h.run(f, [("ptr", "o1", ()), pe.C(0), pe.C(0), pe.C(0), ("ptr", "dstslot", ()), ("ptr", "shallow", ())], pe.State())
            except Exception as e:
                und = und or "%s: %s" % (src, e)
                continue
            n += 1
            rets = [lf for lf in leaves if lf.kind == "ret"]
            if len(rets) != 1 or len(leaves) != 1 or not pe.is_const(rets[0].value) or h.bad_call or \
                    any(isinstance(x, str) and x.startswith("?") for x in (h.dst if kind == "array" else [v for _, v in h.dst])):
                und = und or "%s: the evaluation does not end in one concrete return%s" % (
                    src, (" (calls outside the script: %s)" % ", ".join(sorted(set(h.unknown)))) if h.unknown else "")
                continue
            if rets[0].value[1] == 0 and h.dst != want and bad is None:
                show = lambda L: "[%s]" % ", ".join(("null" if x is None else "copy") if kind == "array" else "%s: %s" % (x[0], "null" if x[1] is None else "copy") for x in L)
                bad = "the %s %s is copied to %s: the copy is not equal to its source" % (kind, show(want), show(h.dst))
        sig = kind + " structure"
        if bad:
            chk.refuted(rid, f.name, sig, f.entry.term.locstr(), bad)
        elif und:
            chk.undecided(rid, f.name, sig, f.entry.term.locstr(), und)
        else:
            chk.proven(rid, f.name, sig, f.entry.term.locstr(), "entry by entry on every scripted %s" % kind)
    chk.floor(rid, n, 15, "scripted containers copied")


# ---------------------------------------------------------------------------
# R8 doubles compare by IEEE value
def r8_doubles(chk, prog, m):
    import math
    rid = "C09.R8"
    chk.rule(rid, "two distinct double nodes are equal exactly when their values are IEEE-equal: json_object_equal evaluated on pairs "
                  "from {1.0, 2.0, +0.0, -0.0, +inf, NaN} (equal values equal, +0.0 equals -0.0, a NaN equals no other node - not "
                  "even another NaN)")
    f = m.functions.get("json_object_equal")
    chk.require(f is not None and not f.is_decl, "json_object_equal not found")
    chk.touched(f)
    names = m.struct_fields("%struct.json_object_double")
    if not names or "c_double" not in names:
        chk.undecided(rid, f.name, "doubles", f.entry.term.locstr(), "layout of struct json_object_double not found")
        return
    K = names.index("c_double")

    def fcmp(pred, a, b):
        un = math.isnan(a) or math.isnan(b)
        base = {"eq": a == b, "ne": a != b, "gt": a > b, "ge": a >= b, "lt": a < b, "le": a <= b}
        if pred == "ord":
            return not un
        if pred == "uno":
            return un
        if pred in ("true", "false"):
            return pred == "true"
        if pred[0] == "o":
            return (not un) and base[pred[1:]]
        return un or ((not un) and base[pred[1:]])

    class DPE(pe.PE):
        def should_inline(self, g, instr):
            return g.internal

        def init_mem(self, state, base, path, t):
            if base not in ("d1", "d2"):
                return pe.TOP
            q = [x for x in path if x != ("i", 0)]
            k = 0 if not q else (q[0] if isinstance(q[0], int) else q[0][2] if isinstance(q[0], tuple) and q[0][0] == "f" else None)
            if not q:
                return pe.C(TYPES["double"])
            if k == K:
                return ("c", self.vals[base])
            return pe.TOP

        def _simple(self, frame, i, state):
            if i.op == "fcmp":
                a, b = self.val(frame, i.ops[0], state), self.val(frame, i.ops[1], state)
                if a[0] == "c" and b[0] == "c" and isinstance(a[1], float) and isinstance(b[1], float):
                    frame.regs[i.res] = pe.C(int(fcmp(i.x.get("pred"), a[1], b[1])))
                    return
                self.unknown_fcmp = True
            return super()._simple(frame, i, state)

        def call_model(self, state, frame, i, args):
            nm = i.callee or ""
            if nm.startswith("llvm.") or nm in ("__assert_fail",):
                return None
            self.calls.append(nm)
            return None
    V = [1.0, 2.0, 0.0, -0.0, float("inf"), float("nan")]
    bad = und = None
    n = 0
    for a in V:
        for b in V:
            h = DPE(prog, max_leaves=40, max_steps=10000)
            h.vals = {"d1": a, "d2": b}
            h.unknown_fcmp = False
            h.calls = []
            try:
                leaves = h.run(f, [("ptr", "d1", ()), ("ptr", "d2", ())], pe.State())
            except Exception as e:
                und = und or "%r, %r: %s" % (a, b, e)
                continue
            n += 1
            rets = [lf for lf in leaves if lf.kind == "ret"]
            if h.unknown_fcmp or len(rets) != 1 or len(leaves) != 1 or rets[0].value is None or not pe.is_const(rets[0].value):
                und = und or "%r against %r: the evaluation does not end in one concrete result%s" % (
                    a, b, (" (calls: %s)" % ", ".join(sorted(set(h.calls)))) if h.calls else "")
                continue
            want = int((not math.isnan(a)) and (not math.isnan(b)) and a == b)
            got = int(rets[0].value[1] != 0)
            if got != want and bad is None:
                bad = "two double nodes holding %r and %r compare %s; by IEEE value they are %s" % (
                    a, b, "equal" if got else "unequal", "equal" if want else "unequal (a NaN equals only the identical node)")
    if bad:
        chk.refuted(rid, f.name, "doubles", f.entry.term.locstr(), bad)
    elif und:
        chk.undecided(rid, f.name, "doubles", f.entry.term.locstr(), und)
    else:
        chk.proven(rid, f.name, "doubles", f.entry.term.locstr(), "IEEE equality on %d pairs" % n)
    chk.floor(rid, n, 20, "pairs of double values")


# ---------------------------------------------------------------------------
# R9 a scalar's copy is equal to the scalar, for every representable field value
def r9_scalar_copy(chk, prog, m):
    rid = "C09.R9"
    chk.rule(rid, "the copy of a scalar node is equal to the node for every value its fields can hold, not only the canonical ones: "
                  "json_c_shallow_copy_default evaluated on a boolean node holding each value that json_object_set_boolean, "
                  "evaluated on the arguments 0, 1, 2, -1, leaves in the node; then json_object_equal evaluated on the source and the node the copy created")
    fc = m.functions.get("json_c_shallow_copy_default")
    fe = m.functions.get("json_object_equal")
    chk.require(fc is not None and not fc.is_decl and fe is not None and not fe.is_decl, "json_c_shallow_copy_default / json_object_equal not found")
    chk.touched(fc)
    names = m.struct_fields("%struct.json_object_boolean")
    if not names or "c_boolean" not in names:
        chk.undecided(rid, fc.name, "boolean", fc.entry.term.locstr(), "layout of struct json_object_boolean not found")
        return

    class SPE(_EqPE):
        def __init__(self, raw):
            super().__init__(prog, m, "array", [], [])
            self.types = {"s1": "%struct.json_object_boolean", "new": "%struct.json_object_boolean"}
            self.raw = raw
            self.nalloc = 0
            self.calls = []

        def should_inline(self, g, instr):
            return not g.is_decl

        def init_mem(self, state, base, path, t):
            if base != "s1":
                return pe.TOP
            nm = self._names(base, path)
            if nm in (("base", "o_type"), ("o_type",)):
                return pe.C(TYPES["boolean"])
            if nm == ("c_boolean",):
                return pe.C(self.raw)
            return pe.TOP

        def call_model(self, state, frame, i, args):
            nm = i.callee or ""
            if nm in ("malloc", "calloc"):
                self.nalloc += 1
                return ("ptr", "new", ()) if self.nalloc == 1 else None
            if nm == "__errno_location":
                return ("ptr", "errno", ())
            if nm == "__assert_fail":
                return "STOP"
            if nm.startswith("llvm."):
                return None
            self.calls.append(nm)
            return None
    bad = und = None
    n = 0
    # the stored values that exist: what json_object_set_boolean leaves in the node for the arguments 0, 1, 2, -1
    fs = m.functions.get("json_object_set_boolean")
    stored = set()
    if fs is not None and not fs.is_decl:
        for x in (0, 1, 2, -1):
            h0 = SPE(0)
            try:
                lv = h0.run(fs, [("ptr", "s1", ()), pe.C(x)], pe.State())
            except Exception:
                continue
            for lf in lv:
                if lf.kind == "ret":
                    for (b, pth), v in lf.state.mem.items():
                        if b == "s1" and h0._names("s1", pth) == ("c_boolean",) and pe.is_const(v):
                            stored.add(v[1])
    if not stored:
        chk.undecided(rid, fc.name, "boolean", fc.entry.term.locstr(), "the values json_object_set_boolean stores could not be evaluated")
        return
    chk.tables["boolean_values_the_setter_stores"] = sorted(stored)
    for raw in sorted(stored):
        h = SPE(raw)
        try:
            leaves = h.run(fc, [("ptr", "s1", ()), pe.C(0), pe.C(0), pe.C(0), ("ptr", "dstslot", ())], pe.State())
        except Exception as e:
            und = und or "boolean %d: %s" % (raw, e)
            continue
        rets = [lf for lf in leaves if lf.kind == "ret"]
        dv = h.load(rets[0].state, ("ptr", "dstslot", ()), None) if len(rets) == 1 else None
        if len(rets) != 1 or len(leaves) != 1 or h.nalloc != 1 or not (isinstance(dv, tuple) and dv[0] == "ptr" and dv[1] == "new"
                                                                         and not [x for x in dv[2] if x != ("i", 0) and not (isinstance(x, tuple) and x[0] == "f" and x[2] == 0)]):
            und = und or "boolean %d: the copy does not end in one return with one new node%s" % (raw, (" (calls: %s)" % ", ".join(sorted(set(h.calls)))) if h.calls else "")
            continue
        st = rets[0].state.copy()
        got = [v for (b, pth), v in st.mem.items() if b == "new" and h._names("new", pth) == ("c_boolean",)]
        h2 = SPE(raw)
        try:
            leaves2 = h2.run(fe, [("ptr", "s1", ()), ("ptr", "new", ())], st)   # dv is the address of the node's first member
        except Exception as e:
            und = und or "boolean %d: equal: %s" % (raw, e)
            continue
        rets2 = [lf for lf in leaves2 if lf.kind == "ret"]
        if len(rets2) != 1 or len(leaves2) != 1 or rets2[0].value is None or not pe.is_const(rets2[0].value):
            und = und or "boolean %d: json_object_equal on the node and its copy does not end in one concrete result" % raw
            continue
        n += 1
        if rets2[0].value[1] == 0 and bad is None:
            bad = ("a boolean node whose stored value is %d (json_object_set_boolean leaves that value in the node) is copied to a node "
                   "holding %s, and json_object_equal(node, copy) is 0: the deep copy is not equal to its source"
                   % (raw, got[0][1] if got and pe.is_const(got[0]) else "another value"))
    if bad:
        chk.refuted(rid, fc.name, "boolean", fc.entry.term.locstr(), bad)
    elif und:
        chk.undecided(rid, fc.name, "boolean", fc.entry.term.locstr(), und)
    else:
        chk.proven(rid, fc.name, "boolean", fc.entry.term.locstr(), "copy equal to source for %d stored values" % n)
    chk.floor(rid, n, 2, "stored boolean values copied and compared")
