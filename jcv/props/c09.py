"""C09 - equality is a structural equivalence and deep copy gives an equal, disjoint tree.

R1 type dispatch: identical pointer => 1, one NULL => 0, different kinds => 0 without looking further; every kind has its own
   comparison (E3 over the kind pairs); the shallow copy has a case for every non-null kind and preserves it
R2 strings are compared and copied with their stored length (shared with C11.R6)
R3 integers compare by numeric value across signedness: decision table over representation tags and sign classes (E3)
R4 objects: every member of the first is looked up in the second and compared, and every member of the second is looked up in
   the first; any miss or inequality returns 0
R5 disjointness: nothing loaded from the source tree is stored into, or retained by, the copy (children come from the recursive
   copy's own result, keys through the copying add, serializer data through strdup); function pointers are exempt
R6 the copy keeps the representation: signed stays signed, unsigned stays unsigned, the serializer is carried over
"""
from ..ir import load_program, strip_casts
from ..cfg import cfg_of
from ..flow import Paths, derived_values
from .. import pe
from . import c11

TYPES = {"null": 0, "boolean": 1, "double": 2, "int": 3, "object": 4, "array": 5, "string": 6}


def run(chk):
    prog = load_program("default")
    chk.variant(prog)
    m = prog.module("json_object.c")
    chk.require(m is not None, "json_object.c not in the build")
    types = m.enumerators("json_type")
    chk.require({("json_type_" + k): v for k, v in TYPES.items()} == types, "enum json_type changed: %s" % types)
    r1(chk, prog, m)
    with chk.shared():
        c11.r6(chk, prog, m)
    r3(chk, prog, m)
    r4(chk, prog, m)
    r5(chk, prog, m)
    r6(chk, prog, m)
    with chk.shared():
        c11.r7(chk, prog, prog.module("json_object.c"))   # shared: the sign-encoded string length is decoded before use
    chk.undecided_clauses += [
        "reflexivity / symmetry / transitivity as relations over all trees (follow from the per-kind tables plus the container rules only "
        "by induction over tree depth, which is argued, not mechanised, here)",
        "double comparison is IEEE == on the stored values (NaN != NaN): decided only as 'fcmp oeq of the two stored doubles'",
        "equality of the serializations of a tree and its copy",
    ]


class EqPE(pe.PE):
    def __init__(self, prog, mem):
        super().__init__(prog, max_leaves=5000, max_steps=300000)
        self.m = mem

    def should_inline(self, g, instr):
        return g.internal and g.name not in ("json_object_all_values_equal", "json_array_equal")

    def init_mem(self, state, base, path, t):
        el, fl = pe.fields_of(path)
        return self.m.get((base, fl), pe.TOP)

    def call_model(self, state, frame, i, args):
        nm = i.callee
        if nm in ("json_object_all_values_equal", "json_array_equal", "memcmp"):
            state.trace.append(("call", nm, tuple(args)))
            return self.fresh_root(state, nm, [0, 1]) if nm != "memcmp" else self.fresh_root(state, nm, [-1, 0, 1])
        return None


def r1(chk, prog, m):
    rid = "C09.R1"
    chk.rule(rid, "json_object_equal: same pointer => 1; a NULL side => 0; nodes of different kinds => 0 with no comparison of contents; "
                  "equal kinds dispatch to that kind's comparison; json_c_shallow_copy_default has a case for every non-null kind")
    f = prog.fn("json_object_equal")
    chk.require(f is not None, "json_object_equal not found")
    chk.touched(f)
    n = 0
    # pointer-level cases
    for a, b, want, name in ((("ptr", "A", ()), ("ptr", "A", ()), 1, "same node"), (pe.C(0), ("ptr", "B", ()), 0, "NULL vs node"),
                             (("ptr", "A", ()), pe.C(0), 0, "node vs NULL"), (pe.C(0), pe.C(0), 1, "NULL vs NULL")):
        n += 1
        P = EqPE(prog, {})
        leaves = P.run(f, [a, b], pe.State())
        ok = len(leaves) >= 1 and all(l.kind == "ret" and l.value == pe.C(want) and not [e for e in l.state.trace if e[0] == "call"] for l in leaves)
        (chk.proven if ok else chk.refuted)(rid, f.name, name, f.entry.term.locstr(),
                                            "returns %d" % want if ok else "%s does not simply return %d" % (name, want))
    # kind pairs
    for ta, va in TYPES.items():
        for tb, vb in TYPES.items():
            n += 1
            mem = {("A", ()): pe.C(va), ("B", ()): pe.C(vb)}
            P = EqPE(prog, mem)
            leaves = P.run(f, [("ptr", "A", ()), ("ptr", "B", ())], pe.State())
            sig = "%s vs %s" % (ta, tb)
            bad = None
            for l in leaves:
                calls = [e for e in l.state.trace if e[0] == "call"]
                if l.kind != "ret":
                    bad = "path ends with %s" % l.kind
                elif ta != tb:
                    if l.value != pe.C(0) or calls:
                        bad = "nodes of different kinds are not simply unequal (returns %r, calls %s)" % (l.value, [c[1] for c in calls])
                else:
                    want_call = {"object": "json_object_all_values_equal", "array": "json_array_equal", "string": "memcmp"}.get(ta)
                    names = [c[1] for c in calls]
                    if want_call and ta != "string" and names != [want_call]:
                        bad = "two %ss are not compared with %s (calls %s)" % (ta, want_call, names)
                    if ta == "null" and l.value != pe.C(1):
                        bad = "two null-kind nodes are not equal"
                    if ta in ("boolean", "double", "int") and calls:
                        bad = "scalar comparison calls %s" % names
            if bad:
                chk.refuted(rid, f.name, sig, f.entry.term.locstr(), bad)
            else:
                chk.proven(rid, f.name, sig, f.entry.term.locstr(), "%d path(s)" % len(leaves))
    # shallow copy: a case per non-null kind
    sc = prog.fn("json_c_shallow_copy_default")
    chk.require(sc is not None, "json_c_shallow_copy_default not found")
    chk.touched(sc)
    sw = [i for i in sc.instrs() if i.op == "switch"]
    P_ = Paths(sc, prog)
    top = [i for i in sw if P_.path(i.ops[0]).endswith("o_type")]
    n += 1
    cases = {v for v, _ in top[0].x["cases"]} if top else set()
    missing = [k for k, v in TYPES.items() if k != "null" and v not in cases]
    if missing:
        chk.refuted(rid, sc.name, "shallow copy kinds", (top[0] if top else sc.entry.term).locstr(), "no copy case for kind(s) %s" % missing)
    else:
        chk.proven(rid, sc.name, "shallow copy kinds", top[0].locstr(), "cases for all six value kinds")
    chk.floor(rid, n, 50, "pointer cases, kind pairs and copy kinds")


def r3(chk, prog, m):
    rid = "C09.R3"
    chk.rule(rid, "integer equality decision table over (representation tag x bit pattern) pairs: the result equals numeric equality of the "
                  "denoted values, in particular a negative signed value never equals an unsigned one with the same bit pattern")
    f = prog.fn("json_object_equal")
    tags = m.enumerators("json_object_int_type")
    T_I, T_U = tags["json_object_int_type_int64"], tags["json_object_int_type_uint64"]
    PATS = [-(1 << 63), -1, 0, 5, (1 << 63) - 1]        # bit patterns (as signed i64)
    n = 0
    bad = None
    npaths = 0
    for t1 in (T_I, T_U):
        for t2 in (T_I, T_U):
            mem = {("A", ()): pe.C(TYPES["int"]), ("B", ()): pe.C(TYPES["int"]),
                   ("A", (("f", "%struct.json_object_int", 1),)): pe.C(t1), ("B", (("f", "%struct.json_object_int", 1),)): pe.C(t2),
                   ("A", (("f", "%struct.json_object_int", 2),)): pe.R("v1"), ("B", (("f", "%struct.json_object_int", 2),)): pe.R("v2")}
            P = EqPE(prog, mem)
            st = pe.State()
            st.roots["v1"] = frozenset(PATS)
            st.roots["v2"] = frozenset(PATS)
            leaves = P.run(f, [("ptr", "A", ()), ("ptr", "B", ())], st)
            npaths += len(leaves)
            for l in leaves:
                if l.kind != "ret" or l.value is None:
                    bad = "path ends with %s" % l.kind
                    break
                for a in l.state.roots["v1"]:
                    for b in l.state.roots["v2"]:
                        n += 1
                        try:
                            got = pe.ev(l.value, {"v1": a, "v2": b})
                        except Exception:
                            got = None
                        da = a if t1 == T_I else a % (1 << 64)
                        db = b if t2 == T_I else b % (1 << 64)
                        want = int(da == db)
                        if got is None or int(bool(got)) != want:
                            bad = ("%s %d compared with %s %d gives %s, numeric equality is %d" %
                                   ("int64" if t1 == T_I else "uint64", da, "int64" if t2 == T_I else "uint64", db, got, want))
                if bad:
                    break
            if bad:
                break
        if bad:
            break
    if bad:
        chk.refuted(rid, f.name, "integer comparison", f.entry.term.locstr(), bad)
    else:
        chk.proven(rid, f.name, "integer comparison", f.entry.term.locstr(), "%d (tag, pattern) combinations on %d paths equal numeric equality" % (n, npaths))
    chk.floor(rid, n, 90, "integer comparison combinations")


def r4(chk, prog, m):
    rid = "C09.R4"
    chk.rule(rid, "object equality looks every member of each object up in the other one (both directions), compares the values of the "
                  "first direction recursively, and returns 0 on any miss or inequality; array equality compares lengths and every index")
    f = m.functions.get("json_object_all_values_equal")
    chk.require(f is not None and not f.is_decl, "json_object_all_values_equal not found")
    chk.touched(f)
    P = Paths(f, prog)
    cfg = cfg_of(f)
    p1, p2 = f.params[0][1], f.params[1][1]
    PRESENCE = ("lh_table_lookup_ex", "json_object_object_get_ex", "lh_table_lookup_entry", "lh_table_lookup_entry_w_hash")
    looks = [i for i in f.instrs() if i.op == "call" and i.callee in PRESENCE]
    blind = [i for i in f.instrs() if i.op == "call" and i.callee in ("json_object_object_get",)]
    dirs = set()
    for l in looks:
        tp = P.path(l.ops[0])
        dirs.add(("in " + (p1 if tp.startswith(p1) else p2 if tp.startswith(p2) else "?")))
    eqs = [i for i in f.instrs() if i.op == "call" and i.callee == "json_object_equal"]
    lens = [i for i in f.instrs() if i.op == "call" and i.callee in ("json_object_object_length", "lh_table_length")]
    from .c20 import _returns_only
    miss_ok = True
    for c in looks + eqs:
        regs, cons = derived_values(f, c.res)
        ok = False
        for u, r in cons:
            if u.op == "icmp":
                for br in cfg.users(u.res):
                    if br.op == "br" and len(br.x["targets"]) == 2:
                        for tname in br.x["targets"]:
                            if _returns_only(f, f.blocks[tname], lambda v: v.kind == "int" and v.v == 0):
                                ok = True
        miss_ok = miss_ok and ok
    both = dirs == {"in " + p1, "in " + p2}
    counted = len(lens) >= 2 and len(dirs - {"in ?"}) >= 1
    if blind:
        chk.refuted(rid, f.name, "both directions", blind[0].locstr(),
                    "members are looked up with %s, which returns NULL both for a missing key and for a key holding JSON null: an object with a "
                    "null member compares equal to one that lacks the key" % blind[0].callee)
    elif (both or counted) and len(eqs) >= 1 and miss_ok:
        chk.proven(rid, f.name, "both directions", looks[0].locstr(),
                   ("lookups in both objects" if both else "equal member counts and a presence-aware lookup of every member") +
                   ", recursive comparison, miss/inequality => 0")
    else:
        chk.refuted(rid, f.name, "both directions", f.entry.term.locstr(),
                    "object equality does not cover both key sets (directions %s, member-count comparisons %d, value comparisons %d, "
                    "miss => 0: %s)" % (sorted(dirs), len(lens), len(eqs), miss_ok))
    g = m.functions.get("json_array_equal")
    chk.require(g is not None and not g.is_decl, "json_array_equal not found")
    chk.touched(g)
    calls = [i.callee for i in g.instrs() if i.op == "call" and i.callee]
    if calls.count("json_object_array_length") >= 2 and "json_object_equal" in calls and calls.count("json_object_array_get_idx") >= 2:
        chk.proven(rid, g.name, "arrays", g.entry.term.locstr(), "lengths compared, then element-wise recursive comparison")
    else:
        chk.refuted(rid, g.name, "arrays", g.entry.term.locstr(), "array equality does not compare the lengths and every element pair")


def r5(chk, prog, m):
    rid = "C09.R5"
    chk.rule(rid, "deep copy disjointness: no heap pointer loaded from the source tree is stored into the copy or handed to an API that "
                  "retains it; children are the recursive copy's own results, keys are copied by the add, serializer data by strdup")
    RETAIN = {"json_object_object_add": [2], "json_object_object_add_ex": [1, 2], "json_object_array_add": [1],
              "json_object_array_put_idx": [2], "json_object_set_userdata": [1], "json_object_set_serializer": [2],
              "lh_table_insert": [1, 2], "array_list_add": [1]}
    n = 0
    for fname in ("json_object_deep_copy_recursive", "json_c_shallow_copy_default", "json_object_copy_serializer_data"):
        f = m.functions.get(fname)
        chk.require(f is not None and not f.is_decl, fname + " not found")
        chk.touched(f)
        P = Paths(f, prog)
        src = f.params[0][1]
        # tainted registers: pointer values loaded through the source node (children, keys, payload pointers, userdata)
        taint = set()
        changed = True
        instrs = list(f.instrs())
        iter_paths = set()
        slot_taint = set()
        while changed:
            changed = False
            for i in instrs:
                if i.res is None or i.res in taint:
                    continue
                t = i.type or ""
                if i.op == "load" and t.endswith("*") and "(" not in t:
                    p = P.path(i.ops[0])
                    if p.startswith(src + "->") or p.startswith(src + ".") or p in iter_paths or any(p.startswith(x) for x in iter_paths):
                        taint.add(i.res)
                        changed = True
                elif i.op == "call" and i.callee in ("json_object_array_get_idx", "get_string_component", "get_string_component_mutable",
                                                       "json_object_get_string", "json_object_get_object", "json_object_get_array", "json_object_get") and \
                        i.ops and i.ops[0].kind == "reg" and (i.ops[0].v == src or i.ops[0].v in taint):
                    taint.add(i.res)
                    changed = True
                elif i.op in ("bitcast", "getelementptr", "phi", "select") and any(o.kind == "reg" and o.v in taint for o in i.ops):
                    taint.add(i.res)
                    changed = True
                if i.op == "load" and (i.type or "").endswith("*") and P.path(i.ops[0]) in slot_taint:
                    taint.add(i.res)
                    changed = True
            # a local slot that is assigned a source pointer anywhere may hold it at any later read (flow-insensitive)
            for i in instrs:
                if i.op == "store" and i.ops[0].kind == "reg" and i.ops[0].v in taint and i.ops[1].kind == "reg":
                    d = f.defs.get(i.ops[1].v)
                    if d is not None and d.op == "alloca" and P.path(i.ops[1]) not in slot_taint:
                        slot_taint.add(P.path(i.ops[1]))
                        changed = True
            # the foreachC iterator struct is filled from the source's table
            for i in instrs:
                if i.op == "store" and i.ops[0].kind == "reg":
                    p = P.path(i.ops[1])
                    if p.startswith("iter") and p not in iter_paths:
                        vp = P.path(i.ops[0])
                        if src in vp or i.ops[0].v in taint or "json_object_get_object" in vp or "->head" in vp or "->next" in vp or "->k" in vp or "->v" in vp:
                            iter_paths.add(p)
                            changed = True
        dstp = [nm for t, nm in f.params if t.endswith("json_object**")] + (["dst"] if fname == "json_object_copy_serializer_data" else [])
        for i in instrs:
            if i.op == "call" and i.callee in RETAIN:
                for k in RETAIN[i.callee]:
                    if k < len(i.ops):
                        n += 1
                        a = i.ops[k]
                        sig = "%s arg %d in %s" % (i.callee, k, fname)
                        if a.kind == "reg" and a.v in taint:
                            chk.refuted(rid, fname, sig, i.locstr(),
                                        "a pointer taken from the source tree (%s) is handed to %s, which retains it: the copy shares that "
                                        "node / buffer with its source" % (P.path(a), i.callee), {"call": i.raw})
                        else:
                            chk.proven(rid, fname, sig, i.locstr(), "argument %s does not come from the source tree" % P.path(a))
            elif i.op == "store" and i.ops[0].kind == "reg" and i.ops[0].v in taint:
                p = P.path(i.ops[1])
                if any(p.startswith(d) for d in dstp) or "call:json_object_new" in p:
                    n += 1
                    chk.refuted(rid, fname, "store into the copy", i.locstr(),
                                "a pointer taken from the source tree (%s) is stored into the copy at %s" % (P.path(i.ops[0]), p))
        # keys: json_object_object_add copies the key (flags-less add); the _ex form with CONSTANT_KEY would retain it
        for i in instrs:
            if i.op == "call" and i.callee == "json_object_object_add_ex":
                n += 1
                chk.refuted(rid, fname, "key retention", i.locstr(), "the copy adds members with json_object_object_add_ex: with the constant-key flag the source's key pointer would be retained")
    chk.floor(rid, n, 2, "retaining call sites in the copy functions")


def r6(chk, prog, m):
    rid = "C09.R6"
    chk.rule(rid, "the shallow copy builds an int node with the constructor of the same signedness as the source's representation tag, "
                  "and carries the serializer function over")
    f = prog.fn("json_c_shallow_copy_default")
    tags = m.enumerators("json_object_int_type")
    T_I, T_U = tags["json_object_int_type_int64"], tags["json_object_int_type_uint64"]

    class CopyPE(pe.PE):
        def should_inline(self, g, instr):
            return g.internal

        def init_mem(self, state, base, path, t):
            el, fl = pe.fields_of(path)
            return self.mem.get((base, fl), pe.TOP)

        def call_model(self, state, frame, i, args):
            nm = i.callee
            if nm and nm.startswith("json_object_new_"):
                state.trace.append(("call", nm, tuple(args)))
                return ("ptr", "copy", ())
            return None
    for tag, want in ((T_I, "json_object_new_int64"), (T_U, "json_object_new_uint64")):
        P = CopyPE(prog)
        P.mem = {("S", ()): pe.C(TYPES["int"]), ("S", (("f", "%struct.json_object_int", 1),)): pe.C(tag),
                 ("S", (("f", "%struct.json_object_int", 2),)): ("sym", "payload"), ("S", (2,)): ("ptr", "serializer", ())}
        leaves = P.run(f, [("ptr", "S", ()), pe.C(0), pe.C(0), pe.C(0), ("ptr", "out", ())], pe.State())
        sig = "int node with tag %d" % tag
        bad = None
        for l in leaves:
            calls = [e for e in l.state.trace if e[0] == "call"]
            if l.kind != "ret":
                bad = "path ends with %s" % l.kind
            elif [c[1] for c in calls] != [want]:
                bad = "copied with %s instead of %s: the value's signedness changes (e.g. 2^63 becomes negative)" % ([c[1] for c in calls], want)
            elif calls[0][2][0] != ("sym", "payload"):
                bad = "the constructor is not given the stored value"
            else:
                ser = l.state.mem.get(("copy", (("i", 0), 2)))
                if ser != ("ptr", "serializer", ()) and l.value == pe.C(1):
                    bad = "the serializer function is not carried over to the copy"
        if bad:
            chk.refuted(rid, f.name, sig, f.entry.term.locstr(), bad)
        else:
            chk.proven(rid, f.name, sig, f.entry.term.locstr(), "copied with %s, serializer carried over" % want)
