"""C15 - the nesting limit is exact and enforced for every configured depth.

R1 level-stack index invariant 0 <= depth < max_depth: the stack is allocated with exactly max_depth records, depth is
   written only by '= 0', a guarded '++' and a guarded '--' (who-may-write + linear facts at each writer)
R2 tightness: in the product of the extracted automaton with the RFC reference, a value is refused with the
   nesting-too-deep error exactly when it would be enclosed by more than D-1 containers (D = 2 quick; 2,3,4 thorough)
R3 both push sites carry the guard and set the depth error; there is no third push site; the parser is not recursive
R4 json_object_from_fd_ex hands the caller's depth to the constructor
"""
from ..ir import load_program
from ..cfg import cfg_of, CallGraph
from ..flow import Paths, dominating_conditions
from .. import lin, tokauto, tokrules, product, pe


def run(chk):
    prog = load_program("default")
    chk.variant(prog)
    r1(chk, prog)
    r3(chk, prog)
    r4(chk, prog)
    if any(o.verdict == "REFUTED" for o in chk.obls):
        chk.note("R2 (automaton product) skipped: the level stack's allocation or a push site is already refuted, so the level stack "
                 "may be indexed out of bounds and the extracted automaton would be meaningless")
        chk.rule("C15.R2", "exactness in the product with the RFC reference (skipped, see notes)")
    else:
        r2(chk, prog)
    with chk.shared():
        # the limit holds for the descriptor reader too only if it hands the whole text to one parse: a reader that parses block
        # by block and goes on after an error turns "nesting too deep" into something else (shared with C20)
        from . import c20
        mu = prog.module("json_util.c")
        chk.require(mu is not None, "json_util.c not in the build")
        c20.r2(chk, prog, mu)
        c20._confirm_shape_rules(chk, prog, mu, only={"C20.R2"})
    chk.undecided_clauses += [
        "the behavioural restatement on generated documents (accept iff nesting <= D) is the dynamic counterpart; here D ranges "
        "over the analysed limits and the inductive invariant covers every D",
    ]


def _depth_writers(prog):
    out = []
    for f in prog.all_functions():
        if f.module.srcname != "json_tokener.c":
            continue
        P = None
        for i in f.instrs():
            if i.op == "store":
                if P is None:
                    P = Paths(f, prog)
                p = P.path(i.ops[1])
                if p.endswith("->depth") or p.endswith(".depth"):
                    out.append((f, i, P))
    return out


def r1(chk, prog):
    rid = "C15.R1"
    chk.rule(rid, "0 <= tok->depth < tok->max_depth is established by the constructor/reset and preserved by every writer of depth; "
                  "the level stack has exactly max_depth records")
    # allocation: calloc(depth, sizeof(srec)) and max_depth = depth from the same value; depth < 1 refused first
    newf = prog.fn("json_tokener_new_ex")
    chk.require(newf is not None, "json_tokener_new_ex not found")
    chk.touched(newf)
    P = Paths(newf, prog)
    cfg = cfg_of(newf)
    pname = newf.params[0][1]
    callocs = [i for i in newf.instrs() if i.op == "call" and i.callee == "calloc"]
    stack_alloc = None
    for c in callocs:
        # the one whose count derives from the parameter
        if P.path(c.ops[0]) == pname:
            stack_alloc = c
    md_store = None
    for i in newf.instrs():
        if i.op == "store" and P.path(i.ops[1]).endswith("max_depth"):
            md_store = i
    ok_alloc = stack_alloc is not None and md_store is not None and P.path(md_store.ops[0]) == pname
    if ok_alloc:
        # record size must be sizeof(struct json_tokener_srec): compare with the struct layout (5 fields, 32 bytes on LP64)
        sz = stack_alloc.ops[1]
        ok_alloc = sz.kind == "int" and sz.v == _sizeof(prog, "%struct.json_tokener_srec")
    if ok_alloc:
        chk.proven(rid, newf.name, "stack allocation", stack_alloc.locstr(), "calloc(depth, sizeof(record)) and max_depth = depth use the same value")
    else:
        chk.refuted(rid, newf.name, "stack allocation", (stack_alloc or newf.entry.term).locstr(),
                    "the level stack is not allocated with exactly max_depth records of the record size")
    # depth < 1 refused before the allocation
    guard_ok = False
    if stack_alloc is not None:
        sym = lin.Sym(prog, newf)
        ok, facts, prov = lin.facts_at(sym, stack_alloc.block)
        goal = lin.const(1) - lin.atom(pname)     # 1 - depth <= 0
        atoms = {pname}
        sym.atom_type[pname] = newf.params[0][0]
        guard_ok = lin.fm_infeasible(facts + sym.range_facts(atoms) + [goal.scale(-1) + lin.const(1)])
    if guard_ok:
        chk.proven(rid, newf.name, "depth >= 1 at allocation", stack_alloc.locstr(), "the allocation is dominated by the refusal of depth < 1")
    else:
        chk.refuted(rid, newf.name, "depth >= 1 at allocation", newf.entry.term.locstr(), "a limit below 1 reaches the allocation (zero-sized or negative level stack)")
    # writers of depth
    writers = _depth_writers(prog)
    n = 2
    for f, st, P in writers:
        n += 1
        chk.touched(f)
        sym = lin.Sym(prog, f)
        v = st.ops[0]
        e = sym.expr(v)
        sig = "tok->depth = %r" % (e,)
        ok, facts, prov = lin.facts_at(sym, st.block)
        depth_atoms = [a for a in (e.atoms() if e is not None else []) if a.split("@")[0].endswith("depth") and "max_depth" not in a]
        if e is not None and e.is_const() and e.k == 0:
            chk.proven(rid, f.name, sig, st.locstr(), "reset to 0 (0 < max_depth since max_depth >= 1)")
            continue
        if e is None or len(depth_atoms) != 1:
            chk.undecided(rid, f.name, sig, st.locstr(), "stored value is not a linear function of the old depth")
            continue
        d = depth_atoms[0]
        # the max_depth atom the guards use (max_depth is never written after construction)
        md = d.split("@")[0].replace("depth", "max_depth")
        for x in facts:
            for a in x.atoms():
                if a.split("@")[0].endswith("max_depth"):
                    md = a
        sym.atom_type.setdefault(md, "i32")
        # invariant before: 0 <= d <= md - 1 ; goal after: 0 <= e <= md - 1
        inv = [lin.atom(d).scale(-1), lin.atom(d) - lin.atom(md) + lin.const(1)]
        goals = [("new depth >= 0", e.scale(-1)), ("new depth <= max_depth - 1", e - lin.atom(md) + lin.const(1))]
        atoms = set(e.atoms()) | {d, md}
        for x in facts:
            atoms |= x.atoms()
        rf = sym.range_facts(atoms)
        failed = None
        for desc, g in goals:
            if not lin.entails(sym, st.block, inv + facts + rf, g):
                failed = desc
                break
        if failed is None:
            chk.proven(rid, f.name, sig, st.locstr(), "preserves 0 <= depth < max_depth given the dominating guards", {"guards": prov})
        else:
            # the guard may have been evaluated in an earlier state of the dispatch loop (an earlier iteration or call): that is a
            # fact about the automaton, not about dominance in the CFG.  R2 decides it for the analysed limits (no reachable
            # configuration has depth >= limit); for arbitrary limits it stays undecided.
            chk.undecided(rid, f.name, sig, st.locstr(),
                          "%s is not implied by the guards that dominate this write (%s); whether an earlier state of the dispatch loop "
                          "established it is decided by R2 for the analysed limits only" % (failed, prov or "none"))
    chk.floor(rid, len(writers), 4, "writers of tok->depth")


def _sizeof(prog, sname):
    m = prog.module("json_tokener.c")
    fields = m.structs.get(sname)
    if not fields:
        return -1
    off = 0
    maxal = 1
    for t in fields:
        sz = 8 if t.endswith("*") else {"i8": 1, "i16": 2, "i32": 4, "i64": 8, "double": 8}.get(t, None)
        if sz is None:
            return -1
        off = (off + sz - 1) // sz * sz + sz
        maxal = max(maxal, sz)
    return (off + maxal - 1) // maxal * maxal


def r_safety(chk, prog, rid="C15.R2s"):
    """the level index never leaves the level stack, on the extracted automaton (shared with C04)"""
    chk.rule(rid, "level-stack safety on the extracted automaton: from no reachable parser configuration does any input byte move "
                  "tok->depth outside [0, limit), for the analysed limits, in default and strict mode")
    depths = [2] if chk.tier == "quick" else [2, 3, 4]
    n = 0
    for D in depths:
        for flags, name in ((0, "default"), (1, "strict")):
            T = tokauto.get_table(prog, flags, D)
            deep = T.stats.get("out_of_range", [])
            n += 1
            sig = "limit %d, %s: level index stays inside the stack" % (D, name)
            if deep:
                c0, nd, bs = deep[0]
                chk.refuted(rid, "json_tokener_parse_ex", sig, "json_tokener.c",
                            "from the reachable parser configuration %s the byte %r moves the level index (tok->depth) to %d with limit %d: the level "
                            "stack of %d records is indexed out of bounds" % (T.cfg_str(c0), bytes([bs[0] % 256]) if bs else b"?", nd, D, D))
            else:
                chk.proven(rid, "json_tokener_parse_ex", sig, "json_tokener.c", "%d reachable configurations, all with depth < %d" % (len(T.trans), D))
    chk.floor(rid, n, 2, "level-stack safety obligations")


def r2(chk, prog):
    rid = "C15.R2"
    chk.rule(rid, "exactness: in the product with the RFC reference, a value start is refused with the nesting-too-deep error exactly "
                  "when it would be enclosed by more than D-1 containers, in default and strict mode")
    depths = [2] if chk.tier == "quick" else [2, 3, 4]
    n = 0
    for D in depths:
        for flags, ext, name in ((0, True, "default"), (1, False, "strict")):
            T, stats, checks, parent = tokrules.get_product(prog, flags, D, ext)
            tokrules.describe_table(chk, T, "%s_d%d" % (name, D))
            # (0) safety: no reachable configuration indexes the level stack at or beyond the limit
            deep = T.stats.get("out_of_range", [])
            n += 1
            sig = "limit %d, %s: level index stays inside the stack" % (D, name)
            if deep:
                c0, nd, bs = deep[0]
                chk.refuted(rid, "json_tokener_parse_ex", sig, "json_tokener.c",
                            "from the reachable parser configuration %s the byte %r moves the level index (tok->depth) to %d with limit %d: the level "
                            "stack of %d records is indexed out of bounds" % (T.cfg_str(c0), bytes([bs[0] % 256]) if bs else b"?", nd, D, D))
            else:
                chk.proven(rid, "json_tokener_parse_ex", sig, "json_tokener.c", "%d reachable configurations, all with depth < %d" % (len(T.trans), D))
            # (a) every value start beyond the limit gives error_depth
            dep = [c for c in checks if c.get("oblig") == "depth"]
            bad = [c for c in dep if not c["holds"]]
            n += 1
            sig = "limit %d, %s: value beyond the limit" % (D, name)
            if bad:
                c = bad[0]
                chk.refuted(rid, "json_tokener_parse_ex", sig, "json_tokener.c",
                            "text %r starts a value enclosed by %d containers (limit %d) and gets status %s instead of the nesting-too-deep error"
                            % (tokrules.entry_witness(T, parent, c), len(c["ref"][1]), D, T.err_name.get(c["err"], c["err"])))
            else:
                chk.proven(rid, "json_tokener_parse_ex", sig, "json_tokener.c", "%d (configuration, byte class) combinations give error_depth" % len(dep))
            chk.floor(rid + ".%s.d%d" % (name, D), len(dep), 3, "value starts beyond the limit")
            # (b) no error_depth anywhere the reference allows the value (within the limit)
            n += 1
            early = [c for c in checks if c.get("oblig") == "must-accept" and T.err_name.get(c["err"]) == "error_depth"]
            sig = "limit %d, %s: value within the limit" % (D, name)
            if early:
                c = early[0]
                chk.refuted(rid, "json_tokener_parse_ex", sig, "json_tokener.c",
                            "text %r is within the limit (%d enclosing containers, limit %d) but is refused as too deep"
                            % (tokrules.entry_witness(T, parent, c), len(c["ref"][1]), D))
            else:
                chk.proven(rid, "json_tokener_parse_ex", sig, "json_tokener.c", "no nesting error at any position within the limit")
    chk.floor(rid, n, 6, "exactness and safety obligations")


def r3(chk, prog):
    rid = "C15.R3"
    chk.rule(rid, "depth is incremented at exactly two sites, each dominated by the limit guard whose failing branch sets the "
                  "nesting-too-deep error; json_tokener_parse_ex is not recursive (the C stack does not grow with the input)")
    f = prog.fn("json_tokener_parse_ex")
    chk.require(f is not None, "json_tokener_parse_ex not found")
    chk.touched(f)
    sym = lin.Sym(prog, f)
    incs = []
    for fw, st, P in _depth_writers(prog):
        e = lin.Sym(prog, fw).expr(st.ops[0])
        if e is not None and not e.is_const() and e.k == 1:
            incs.append((fw, st))
    errs = prog.module("json_tokener.c").enumerators("json_tokener_error")
    chk.require("json_tokener_error_depth" in errs, "json_tokener_error_depth not found")
    edepth = errs["json_tokener_error_depth"]
    if len(incs) == 2 and all(fw is f for fw, _ in incs):
        chk.proven(rid, f.name, "push sites", incs[0][1].locstr(), "exactly two increments of depth (array element, member value)")
    else:
        chk.refuted(rid, f.name, "push sites", f.entry.term.locstr(), "%d increments of tok->depth found (expected the two push sites)" % len(incs))
    P = Paths(f, prog)
    for fw, st in incs:
        # the guard: a dominating condition depth >= max_depth - 1 being false; its true edge stores error_depth
        conds = dominating_conditions(fw, st.block)
        guard = None
        for c, tr in conds:
            if getattr(c, "op", None) == "icmp":
                pa, pb = P.path(c.ops[0]), P.path(c.ops[1])
                if "depth" in pa and "max_depth" in pb:
                    guard = (c, tr)
        sig = "guard of depth++"
        if guard is None:
            chk.undecided(rid, fw.name, sig, st.locstr(), "increment of depth not dominated by a comparison of depth with max_depth in the "
                          "CFG; R2 decides safety and exactness on the automaton for the analysed limits")
            continue
        c, tr = guard
        # the other edge must store error_depth into tok->err before leaving
        br, flip = _branch_on(fw, c)
        if br is None:
            chk.undecided(rid, fw.name, sig, st.locstr(), "the comparison of depth with max_depth does not feed a branch directly; R2 decides "
                          "safety and exactness on the automaton for the analysed limits")
            continue
        t, e = br.x["targets"]
        if flip:
            t, e = e, t
        fail_blk = fw.blocks[t if not tr else e]
        sets = any(i.op == "store" and i.ops[0].kind == "int" and i.ops[0].v == edepth and P.path(i.ops[1]).endswith("err") for i in fail_blk.instrs)
        if sets:
            chk.proven(rid, fw.name, sig, c.locstr(), "failing branch of the guard stores json_tokener_error_depth")
        else:
            chk.refuted(rid, fw.name, sig, c.locstr(), "the refusing branch of the depth guard does not set the nesting-too-deep error")
    cg = CallGraph(prog)
    reach = cg.reachable([f])
    rec = any(f in cg.callees[g] for g in reach)
    if rec:
        chk.refuted(rid, f.name, "recursion", f.entry.term.locstr(), "json_tokener_parse_ex is reachable from itself: C stack use grows with the input")
    else:
        chk.proven(rid, f.name, "recursion", f.entry.term.locstr(), "not reachable from itself through %d callees" % len(reach))


def _branch_on(fw, c):
    """the conditional branch decided by comparison c, possibly through a materialised boolean (zext, != 0, == 0, xor 1):
    (branch, polarity flipped?) or (None, False)"""
    cfg = cfg_of(fw)
    work = [(c.res, False, 0)]
    while work:
        r, flip, d = work.pop()
        for u in cfg.users(r):
            if u.op == "br" and len(u.x.get("targets", ())) == 2:
                return u, flip
            if d >= 5:
                continue
            if u.op in ("zext", "sext", "trunc"):
                work.append((u.res, flip, d + 1))
            elif u.op == "xor" and any(o.kind == "int" and o.v in (1, -1, True) for o in u.ops):
                work.append((u.res, not flip, d + 1))
            elif u.op == "icmp" and u.x["pred"] in ("eq", "ne") and any(o.kind == "int" and o.v == 0 for o in u.ops):
                work.append((u.res, flip != (u.x["pred"] == "eq"), d + 1))
            elif u.op == "phi" and len(u.x["incoming"]) == 1:
                work.append((u.res, flip, d + 1))
    return None, False


class _DepthPE(pe.PE):
    def should_inline(self, g, instr):
        return False

    def init_mem(self, state, base, path, t):
        return pe.TOP

    def call_model(self, state, frame, i, args):
        nm = i.callee
        if nm == "json_tokener_new_ex":
            state.trace.append(("new_ex", args[0]))
            return "STOP"
        if nm == "json_tokener_new":
            state.trace.append(("new_ex", "default"))
            return "STOP"
        if nm in ("printbuf_new",):
            return ("ptr", "pb", ())
        if nm == "__errno_location":
            return ("ptr", "errno", ())
        return None

    def _call(self, stack, block, i, state, nextidx):
        r = super()._call(stack, block, i, state, nextidx)
        if r == [] and state.trace and state.trace[-1][0] == "new_ex":
            self.created.append((state.trace[-1][1], dict(state.roots)))
        return r


def r4(chk, prog):
    rid = "C15.R4"
    chk.rule(rid, "json_object_from_fd_ex hands the caller's depth to the parser constructor for every depth other than -1, and the "
                  "default for -1 (decision table over the depths INT_MIN, -2, -1, 0, 1, 2, 31, 32, 33, INT_MAX); a depth below 1 may "
                  "also be refused before a parser is created, never replaced by another limit")
    f = prog.fn("json_object_from_fd_ex")
    chk.require(f is not None, "json_object_from_fd_ex not found")
    chk.touched(f)
    samples = [-(1 << 31), -2, -1, 0, 1, 2, 31, 32, 33, (1 << 31) - 1]
    default = None
    for g in prog.modules:
        pass
    bad = None
    n = 0
    for d in samples:
        h = _DepthPE(prog, max_leaves=200, max_steps=50000)
        h.created = []
        leaves = h.run(f, [pe.C(3), pe.C(d)], pe.State())
        n += 1
        vals = set()
        for v, roots in h.created:
            vals.add(v[1] if (isinstance(v, tuple) and pe.is_const(v)) else ("default" if v == "default" else None))
        refused = any(lf.kind == "ret" and lf.value is not None and pe.is_const(lf.value) and lf.value[1] == 0 for lf in leaves) and not h.created
        if d == -1:
            ok = len(vals) == 1 and None not in vals and (next(iter(vals)) == "default" or (isinstance(next(iter(vals)), int) and next(iter(vals)) >= 1))
            if ok and isinstance(next(iter(vals)), int):
                default = next(iter(vals))
        elif d >= 1:
            ok = vals == {d}
        else:
            ok = vals == {d} or (refused and not vals)
        if not ok and bad is None:
            bad = (d, vals, refused)
    sig = "json_tokener_new_ex(depth)"
    if bad:
        d, vals, refused = bad
        chk.refuted(rid, f.name, sig, f.entry.term.locstr(),
                    "for the caller's depth %d the parser is created with %s%s: the configured limit is not the one enforced"
                    % (d, sorted(str(v) for v in vals) or "nothing", " (and the call is refused)" if refused else ""))
    else:
        chk.proven(rid, f.name, sig, f.entry.term.locstr(), "%d depths: the caller's limit reaches the constructor (default %s for -1)" % (n, default))
    chk.floor(rid, n, 10, "depth values evaluated")
    _r4_default_users(chk, prog, rid, default)


def _r4_default_users(chk, prog, rid, default):
    """entry points without a depth argument (json_tokener_parse, json_tokener_parse_verbose, json_object_from_fd ...) create their
    parser with the default limit, whatever text they are given"""
    from ..strpe import StrPE

    class TextDepthPE(StrPE):
        def should_inline(self, g, instr):
            return False

        def init_mem(self, state, base, path, t):
            if base == "text":
                el, fl = pe.fields_of(path)
                if not fl and isinstance(el, int) and 0 <= el <= len(self.text):
                    b = (self.text + b"\0")[el]
                    return pe.C(b if b < 128 else b - 256)
            return pe.TOP

        def call_model(self, state, frame, i, args):
            nm = i.callee
            if nm == "json_tokener_new_ex":
                self.created.append(args[0][1] if pe.is_const(args[0]) else None)
                return "STOP"
            if nm == "json_tokener_new":
                self.created.append("default")
                return "STOP"
            if nm == "__errno_location":
                return ("ptr", "errno", ())
            return self.libc_string_model(state, frame, i, args)
    # the default limit itself: what json_tokener_new passes on
    fnew = prog.fn("json_tokener_new")
    dflt = default
    if fnew is not None and not fnew.is_decl:
        h = TextDepthPE(prog, max_leaves=20, max_steps=5000)
        h.text, h.created = b"", []
        try:
            h.run(fnew, [], pe.State())
        except Exception:
            pass
        if len(h.created) == 1 and isinstance(h.created[0], int):
            dflt = h.created[0]
    texts = [b"", b"1", b"[[[", b"[[[[1", b"[{\"a\":[{\"a\":1,", b"[" * 40, b" " * 70 + b"[1]"]
    n = 0
    for f in prog.all_functions():
        if f.is_decl or f.internal or f.module.srcname not in ("json_tokener.c", "json_util.c") or f.name in ("json_tokener_new", "json_tokener_new_ex"):
            continue
        creates = [i for i in f.instrs() if i.op == "call" and i.callee in ("json_tokener_new", "json_tokener_new_ex")]
        if not creates or any(nm and "depth" in nm for t, nm in f.params if t.startswith("i")):
            continue
        if not any(t == "i8*" for t, _ in f.params):
            continue
        chk.touched(f)
        n += 1
        bad = und = None
        for tx in texts:
            h = TextDepthPE(prog, max_leaves=50, max_steps=20000)
            h.text, h.created = tx, []
            args = []
            for t, nm in f.params:
                args.append(("ptr", "text", ()) if t == "i8*" and ("ptr", "text", ()) not in args else (("ptr", "arg_" + (nm or "x"), ()) if t.endswith("*") else pe.TOP))
            try:
                h.run(f, args, pe.State())
            except Exception as e:
                und = und or "%r: %s" % (tx[:12], e)
                continue
            if not h.created:
                und = und or "%r: no parser is created on the evaluated path" % tx[:12]
                continue
            for v in h.created:
                if v is None:
                    und = und or "%r: the limit handed to the constructor is not concrete" % tx[:12]
                elif v != "default" and v != dflt and bad is None:
                    bad = "for the text %r the parser is created with the limit %s, not the default %s: the nesting limit that is enforced " \
                          "depends on the input" % (tx[:16].decode(), v, dflt)
        sig = "default limit in " + f.name
        if bad:
            chk.refuted(rid, f.name, sig, creates[0].locstr(), bad)
        elif und:
            chk.undecided(rid, f.name, sig, creates[0].locstr(), und)
        else:
            chk.proven(rid, f.name, sig, creates[0].locstr(), "default limit (%s) for every text tried" % dflt)
