"""C19 - the print buffer holds exactly what was written, NUL-terminated, in bounds.

Data invariant (assumed at every public entry, re-proved at every return of every function that writes the fields):
    I:  0 <= bpos,  bpos < size,  capacity(buf) == size,  buf[bpos] == 0
R1 bounded writes: every memcpy / memset / store into p->buf stays inside the allocation, using the verified contract
   of printbuf_extend ("returns 0 => size' >= min_size, capacity(buf') == size', bpos unchanged")
R2 terminator: every successful append / fill leaves a NUL at buf[bpos], inside the allocation
R3 no int overflow: every nsw addition feeding a size / offset is excluded by the path's guards; refused requests
   return -1 with no field written
R4 reset leaves bpos = 0 and buf[0] = 0; free releases both blocks
R5 sprintbuf frees its heap fallback buffer on every path (ownership typestate)
"""
from ..ir import load_program
from ..cfg import cfg_of
from ..flow import Paths
from .. import pathlin, own
from ..lin import Lin, const, atom
from ..pathlin import Ptr, Walker, Contract

INT_MAX = 2 ** 31 - 1


def _init(w, st):
    """entry invariant on p"""
    pname = w.fn.params[0][1]
    size = w.atom_for(st, pname + "->size", "i32")
    bpos = w.atom_for(st, pname + "->bpos", "i32")
    st.mem[pname + "->size"] = size
    st.mem[pname + "->bpos"] = bpos
    st.mem[pname + "->buf"] = Ptr(pname + "->buf", const(0))
    st.cap[pname + "->buf"] = size
    st.facts += [bpos.scale(-1), bpos + const(1) - size]   # 0 <= bpos < size (room for the terminator)


def _extend_contract():
    def ok(w, st, args, call):
        # returns 0: size' >= min_size, size' >= old size, capacity(buf') == size', bpos unchanged
        p = args[0]
        if not (isinstance(p, tuple) and p[0] == "obj"):
            return False
        pname = p[1]
        old = st.mem.get(pname + "->size")
        new = w.fresh(st, pname + "->size'", "i32")
        st.mem[pname + "->size"] = new
        st.nfresh += 1
        b = "%s->buf'%d" % (pname, st.nfresh)
        st.mem[pname + "->buf"] = Ptr(b, const(0))
        st.cap[b] = new
        if isinstance(args[1], Lin):
            st.facts.append(args[1] - new)           # min_size <= size'
        if isinstance(old, Lin):
            st.facts.append(old - new)               # old <= size'
        return True

    def fail(w, st, args, call):
        return True
    return Contract("printbuf_extend", [(0, ok), (-1, fail)])


def run(chk):
    prog = load_program("default")
    chk.variant(prog)
    m = prog.module("printbuf.c")
    chk.require(m is not None, "printbuf.c not in the build")
    r_extend(chk, prog, m)
    r_writers(chk, prog, m)
    r4(chk, prog, m)
    own.rule_leaks(chk, prog, "C19.R5", only_functions={"sprintbuf", "printbuf_new", "printbuf_free"}, floor=2)
    r_macro(chk, prog)
    r6(chk, prog, m)
    chk.undecided_clauses += [
        "contents equal to a byte-array model over operation histories (value-level)",
        "vsnprintf / vasprintf behaviour inside sprintbuf",
    ]


def _alloc_cap_ok(w, st, val, sizeform):
    """value stored into ->buf is a fresh allocation of exactly `sizeform` bytes"""
    return isinstance(val, tuple) and val and val[0] == "alloc" and isinstance(val[2], Lin) and \
        w.entails(st, val[2] - sizeform) and w.entails(st, sizeform - val[2])


def r_extend(chk, prog, m):
    rid = "C19.extend"
    chk.rule(rid, "contract of printbuf_extend, verified on each of its return paths: a 0 return leaves size >= min_size and "
                  "buf allocated with exactly size bytes; a -1 return leaves the fields untouched; no int overflow in the growth arithmetic")
    f = m.functions.get("printbuf_extend")
    chk.require(f is not None and not f.is_decl, "printbuf_extend not found")
    chk.touched(f)
    w = Walker(prog, f, view="signed", buf_fields={"buf": "size"})
    res = {"n": 0, "bad": []}
    pname = f.params[0][1]
    mname = f.params[1][1]

    def on_instr(w, st, i):
        if i.op in ("add", "mul", "sub", "shl") and "nsw" in i.x.get("flags", []):
            a, b = w.val(st, i.ops[0]), w.val(st, i.ops[1])
            if isinstance(a, Lin) and isinstance(b, Lin):
                e = a + b if i.op == "add" else (a - b if i.op == "sub" else (b.scale(a.k) if a.is_const() else (a.scale(b.k) if b.is_const() else None)))
                if e is not None:
                    res["n"] += 1
                    if not (w.entails(st, e + const(-INT_MAX)) and w.entails(st, e.scale(-1) + const(-INT_MAX - 1))):
                        res["bad"].append((i, "signed overflow possible in %s: %r not bounded by the guards on this path %s" % (i.op, e, st.prov)))

    def on_ret(w, st, i):
        rv = w.val(st, i.ops[0])
        res["n"] += 1
        size = st.mem.get(pname + "->size")
        buf = st.mem.get(pname + "->buf")
        minsz = w.atom_for(st, mname, "i32")
        wrote = [e for e in st.events if e[0] == "store"]
        if isinstance(rv, Lin) and rv.is_const() and rv.k == 0:
            if not w.entails(st, minsz - size):
                res["bad"].append((i, "returns 0 with size < min_size possible"))
            if wrote:
                # coupling: the stored buf is realloc(.., n) and the stored size equals n
                if not _alloc_cap_ok(w, st, buf, size):
                    res["bad"].append((i, "buf and size are not stored together from one allocation size"))
        elif isinstance(rv, Lin) and rv.is_const() and rv.k < 0:
            if wrote:
                res["bad"].append((i, "fails (returns %d) after writing %s" % (rv.k, [e[1] for e in wrote])))
        else:
            res["bad"].append((i, "return value not a constant 0 / -1"))
    w.on_instr = on_instr
    w.on_ret = on_ret

    def init(w, st):
        _init(w, st)
        w.atom_for(st, mname, "i32")
    w.run(init)
    if res["bad"]:
        i, msg = res["bad"][0]
        chk.refuted(rid, f.name, "contract", i.locstr(), msg)
    else:
        chk.proven(rid, f.name, "contract", f.entry.term.locstr(), "%d path obligations (returns and growth arithmetic) discharged on %d paths" % (res["n"], w.paths))
    chk.floor(rid, res["n"], 4, "obligations on printbuf_extend")


def r_writers(chk, prog, m):
    chk.rule("C19.R1", "every write into p->buf (memcpy, memset, terminator store) lies inside the allocation on every path")
    chk.rule("C19.R2", "every successful return of an append / fill function leaves a NUL stored at buf[bpos] with bpos < size")
    chk.rule("C19.R7", "every byte that becomes part of the text during an append / fill - from the length at entry to the length at "
                       "return - is written by that call (a fill beyond the end writes NULs into the gap), unless no function of the "
                       "module can leave non-zero bytes above the length")
    chk.rule("C19.R3", "no signed overflow in offset/size arithmetic; a refused request (-1) has written no field; the invariant "
                       "0 <= bpos <= size, capacity(buf) == size holds again at every return")
    for fname in ("printbuf_memappend", "printbuf_memset", "printbuf_reset"):
        f = m.functions.get(fname)
        chk.require(f is not None and not f.is_decl, fname + " not found")
        chk.touched(f)
        w = Walker(prog, f, view="signed", contracts={"printbuf_extend": _extend_contract()}, buf_fields={"buf": "size"})
        pname = f.params[0][1]
        R = {"R1": [0, []], "R2": [0, []], "R3": [0, []], "R7": [0, []]}

        def bound(w, st, ptr, n, i, what):
            R["R1"][0] += 1
            cap = st.cap.get(ptr.base)
            if cap is None:
                R["R1"][1].append((i, "%s into a buffer of unknown capacity" % what))
                return
            lo_ok = w.entails(st, ptr.off.scale(-1))
            hi_ok = w.entails(st, ptr.off + n - cap)
            if not (lo_ok and hi_ok):
                R["R1"][1].append((i, "%s of %r bytes at offset %r can exceed the allocation of %r bytes on the path with guards %s"
                                   % (what, n, ptr.off, cap, st.prov)))

        def on_instr(w, st, i):
            if i.op == "call" and i.callee and i.callee.startswith("llvm.mem"):
                dst = w.val(st, i.ops[0])
                n = w.val(st, i.ops[2])
                if isinstance(dst, Ptr) and isinstance(n, Lin):
                    bound(w, st, dst, n, i, i.callee.split(".")[1])
                    st.events.append(("bufwrite", dst, n, i))
            elif i.op == "store":
                a = w.val(st, i.ops[1])
                if isinstance(a, Ptr):
                    bound(w, st, a, const(1), i, "store")
                    v = w.val(st, i.ops[0])
                    if isinstance(v, Lin) and v.is_const() and v.k == 0:
                        st.events.append(("nul", a, i))
                    else:
                        st.events.append(("bufwrite", a, const(1), i))
            elif i.op in ("add", "sub", "mul") and "nsw" in i.x.get("flags", []):
                a, b = w.val(st, i.ops[0]), w.val(st, i.ops[1])
                if isinstance(a, Lin) and isinstance(b, Lin) and i.op in ("add", "sub"):
                    e = a + b if i.op == "add" else a - b
                    R["R3"][0] += 1
                    if not (w.entails(st, e + const(-INT_MAX)) and w.entails(st, e.scale(-1) + const(-INT_MAX - 1))):
                        R["R3"][1].append((i, "signed overflow possible: %r with guards %s" % (e, st.prov)))

        def on_ret(w, st, i):
            rv = w.val(st, i.ops[0]) if i.ops else None
            size = st.mem.get(pname + "->size")
            bpos = st.mem.get(pname + "->bpos")
            buf = st.mem.get(pname + "->buf")
            failing = isinstance(rv, Lin) and rv.is_const() and rv.k < 0
            stores = [e for e in st.events if e[0] in ("store", "bufstore")]
            R["R3"][0] += 1
            if failing:
                if stores:
                    R["R3"][1].append((i, "returns %d after modifying the buffer" % rv.k))
                return
            # invariant
            ok = isinstance(bpos, Lin) and isinstance(size, Lin) and w.entails(st, bpos.scale(-1)) and w.entails(st, bpos + const(1) - size) \
                and isinstance(buf, Ptr) and st.cap.get(buf.base) is not None and w.entails(st, st.cap[buf.base] - size) and w.entails(st, size - st.cap[buf.base])
            if not ok:
                R["R3"][1].append((i, "invariant 0 <= bpos < size, capacity == size not re-established (bpos %r, size %r)" % (bpos, size)))
            # terminator
            R["R2"][0] += 1
            nul = [e for e in st.events if e[0] == "nul" and e[1].base == (buf.base if isinstance(buf, Ptr) else None)
                   and isinstance(bpos, Lin) and w.entails(st, e[1].off - bpos) and w.entails(st, bpos - e[1].off)]
            entry_bpos = atom(pname + "->bpos")
            kept = isinstance(bpos, Lin) and w.entails(st, bpos - entry_bpos) and w.entails(st, entry_bpos - bpos) and \
                isinstance(buf, Ptr) and buf.base == pname + "->buf" and \
                all(w.entails(st, e[1].off + e[2] - bpos) for e in st.events if e[0] == "bufwrite")
            if not nul and kept:
                pass      # bpos and the buffer are unchanged and no write reaches position bpos: the entry terminator survives
            elif not nul:
                R["R2"][1].append((i, "on this successful path no NUL is stored at buf[bpos] (bpos = %r): the text is not terminated" % (bpos,)))
            elif not w.entails(st, bpos + const(1) - size):
                R["R2"][1].append((i, "terminator position bpos = %r is not shown to be inside the allocation (size %r)" % (bpos, size)))
            # content coverage: every byte that becomes part of the text in this call, [bpos at entry, bpos at return), is written by it
            if isinstance(bpos, Lin) and isinstance(buf, Ptr):
                R["R7"][0] += 1
                x = entry_bpos
                writes = [e for e in st.events if e[0] == "bufwrite" and e[1].base == buf.base]
                progress = True
                rounds = 0
                while progress and rounds < 8 and not w.entails(st, bpos - x):
                    progress = False
                    rounds += 1
                    for e in writes:
                        off, nn = e[1].off, e[2]
                        if w.entails(st, off - x) and w.entails(st, x - off - nn) and not w.entails(st, off + nn - x):
                            x = off + nn
                            progress = True
                            break
                if any(e[0] == "loop-writes" for e in st.events):
                    pass
                elif not w.entails(st, bpos - x):
                    R["R7"][1].append((i, "on this successful path the text grows from %r to %r bytes but the bytes from %r on are not "
                                       "written by this call (writes: %s; path guards %s)"
                                       % (entry_bpos, bpos, x, ["[%r, +%r)" % (e[1].off, e[2]) for e in writes], st.prov)))
        w.on_instr = on_instr
        w.on_ret = on_ret
        w.run(_init)
        for r, (n, bad) in R.items():
            rid = "C19." + r
            if r == "R7" and bad:
                # the gap may be covered by a module-wide "everything above bpos is zero" discipline: that holds only if no
                # function lowers bpos while leaving the old bytes in place
                low = _lowers_bpos_keeping_bytes(prog, m)
                i, msg = bad[0]
                if low:
                    chk.refuted(rid, fname, r, i.locstr(), msg + "; and %s lowers bpos without clearing the bytes above it (%s), so those "
                                "bytes can be stale text where the contract has NULs" % (low[0].name, low[1].locstr()))
                else:
                    chk.undecided(rid, fname, r, i.locstr(), msg + "; whether the bytes above bpos are always zero is not established here")
                continue
            if bad:
                i, msg = bad[0]
                chk.refuted(rid, fname, r, i.locstr(), msg, {"all": [b[1][:200] for b in bad[:5]]})
            else:
                chk.proven(rid, fname, r, f.entry.term.locstr(), "%d obligations on %d paths" % (n, w.paths))


def _lowers_bpos_keeping_bytes(prog, m):
    """a function of the module that stores a constant into <buffer>->bpos and never fills the buffer: (function, store) or None"""
    for f in m.functions.values():
        if f.is_decl:
            continue
        P = Paths(f, prog)
        st = [i for i in f.instrs() if i.op == "store" and P.path(i.ops[1]).endswith("->bpos") and i.ops[0].kind == "int"]
        fills = [i for i in f.instrs() if i.op == "call" and i.callee and (i.callee.startswith("llvm.memset") or i.callee in ("memset", "calloc"))]
        if st and not fills and f.name != "printbuf_new":
            return f, st[0]
    return None


def r4(chk, prog, m):
    rid = "C19.R4"
    chk.rule(rid, "printbuf_free releases the text block and the header; printbuf_new rolls back the header when the text block cannot be allocated")
    f = m.functions.get("printbuf_free")
    chk.require(f is not None, "printbuf_free not found")
    chk.touched(f)
    P = Paths(f, prog)
    frees = [P.path(i.ops[0]) for i in f.instrs() if i.op == "call" and i.callee == "free"]
    pn = f.params[0][1]
    if sorted(frees) == sorted([pn, pn + "->buf"]):
        chk.proven(rid, f.name, "free", f.entry.term.locstr(), "frees p->buf and p")
    else:
        chk.refuted(rid, f.name, "free", f.entry.term.locstr(), "printbuf_free frees %s (expected the text block and the header)" % frees)


def r_macro(chk, prog):
    rid = "C19.macro"
    chk.rule(rid, "every expansion of printbuf_memappend_fast in the library writes only when size - bpos > n and stores the terminator")
    n = 0
    for f in prog.all_functions():
        P = None
        for i in f.instrs():
            if i.op == "call" and i.callee and i.callee.startswith("llvm.memcpy"):
                if P is None:
                    P = Paths(f, prog)
                d = P.path(i.ops[0])
                if "->buf" in d and "->bpos" in d and f.module.srcname != "printbuf.c":
                    n += 1
                    chk.touched(f)
                    from ..flow import dominating_conditions
                    conds = dominating_conditions(f, i.block)
                    ok = False
                    for c, tr in conds:
                        if getattr(c, "op", None) == "icmp" and tr and c.x["pred"] == "sgt":
                            a = P.path(c.ops[0])
                            if "size" in a and "bpos" in a:
                                ok = True
                    sig = "memappend_fast in %s" % f.name
                    if ok:
                        chk.proven(rid, f.name, sig, i.locstr(), "guarded by size - bpos > n")
                    else:
                        chk.refuted(rid, f.name, sig, i.locstr(), "inline copy into the print buffer is not guarded by the free-space test")
    chk.note("%d inline expansions of printbuf_memappend_fast found in library code" % n)


def r6(chk, prog, m):
    rid = "C19.R6"
    chk.rule(rid, "formatted print: the stack buffer filled by vsnprintf(buf, cap, ...) is appended with the returned length n only on "
                  "paths where 0 <= n < cap (C11 7.21.6.12: the output is complete only then); otherwise the heap fallback is used")
    f = m.functions.get("sprintbuf")
    chk.require(f is not None and not f.is_decl, "sprintbuf not found")
    chk.touched(f)
    P = Paths(f, prog)
    w = Walker(prog, f, view="signed")
    res = {"n": 0, "bad": [], "fmt": {}}

    def on_instr(w, st, i):
        if i.op == "call" and i.callee in ("vsnprintf", "snprintf"):
            cap = w.val(st, i.ops[1])
            st.fmtcall = (P.path(i.ops[0]), cap, i)
        if i.op == "call" and i.callee == "printbuf_memappend":
            src = P.path(i.ops[1])
            fc = getattr(st, "fmtcall", None)
            if fc and src.split("[")[0] == fc[0].split("[")[0]:
                res["n"] += 1
                n = w.val(st, i.ops[2])
                # the length must be the formatting call's result
                rn = st.env.get(fc[2].res)
                if not (isinstance(n, Lin) and isinstance(rn, Lin) and isinstance(fc[1], Lin)):
                    res["bad"].append((i, "length or capacity not resolved"))
                    return
                if not (w.entails(st, n - rn) and w.entails(st, rn - n)):
                    res["bad"].append((i, "the appended length is not the formatting call's result"))
                    return
                if not (w.entails(st, n.scale(-1)) and w.entails(st, n + const(1) - fc[1])):
                    res["bad"].append((i, "the stack buffer (capacity %r) is appended with length n = %r although the guards on this path (%s) "
                                       "do not give 0 <= n < capacity: for n == capacity the output was truncated and its last byte is the "
                                       "terminator, not text" % (fc[1], n, st.prov)))
    orig_copy = pathlin.PState.copy

    def copy_keep(self):
        s2 = orig_copy(self)
        s2.fmtcall = getattr(self, "fmtcall", None)
        return s2
    pathlin.PState.copy = copy_keep
    try:
        w.on_instr = on_instr
        w.run(lambda w, st: None)
    finally:
        pathlin.PState.copy = orig_copy
    if res["bad"]:
        i, msg = res["bad"][0]
        chk.refuted(rid, f.name, "stack buffer append", i.locstr(), msg)
    else:
        chk.proven(rid, f.name, "stack buffer append", f.entry.term.locstr(), "%d append(s) of the stack buffer guarded by 0 <= n < capacity" % res["n"])
    chk.floor(rid, res["n"], 1, "appends of the vsnprintf stack buffer")
