"""C17 - the tree visitor performs the documented traversal for any tree and callback.

The per-node behaviour of _json_c_visit is extracted as a complete decision table by finite-domain partial
evaluation: the user callback's and the recursive calls' return codes range over the five documented codes, their
neighbours and arbitrary other values; the node is a leaf of each type or a container with 0..3 children.  Every
path of the code is compared, for every assignment of codes in its class, with the reference traversal written from
json_visit.h.  Whole-tree behaviour follows by structural induction (the recursive call is the same function).
"""
from itertools import product

from ..ir import load_program
from .. import pe

CONT, SKIP, POP, STOP, ERR = 0, 7547, 767, 7867, -1
CODES = sorted({CONT, SKIP, POP, STOP, ERR, 1, 2, -2, 766, 768, 7546, 7548, 7866, 7868, 12345, -(1 << 31), (1 << 31) - 1})
SECOND = 2
TYPES = {"null": 0, "boolean": 1, "double": 2, "int": 3, "object": 4, "array": 5, "string": 6}
NMAX = 3


def ref_visit(is_container, n, codes):
    """reference traversal of one node (json_visit.h): returns (events, result); codes is an iterator supplying the
    callback's / the children's return codes in call order"""
    ev = []
    it = iter(codes)
    r = next(it)
    ev.append(("user", 0))
    if r == CONT:
        pass
    elif r in (SKIP, POP, STOP, ERR):
        return ev, r
    else:
        return ev, ERR
    if not is_container:
        return ev, CONT
    for k in range(n):
        c = next(it)
        ev.append(("child", k))
        if c == POP:
            break
        if c in (STOP, ERR):
            return ev, c
        if c not in (CONT, SKIP):
            return ev, ERR
    s = next(it)
    ev.append(("user", SECOND))
    if s in (CONT, SKIP, POP):
        return ev, CONT
    if s in (STOP, ERR):
        return ev, s
    return ev, ERR


class VisitPE(pe.PE):
    def __init__(self, prog, tname, n):
        super().__init__(prog, max_leaves=200000, max_steps=3000000)
        self.tname = tname
        self.n = n
        self.max_visits = NMAX + 3
        self.loop_widen = 1000

    def should_inline(self, g, instr):
        return g.internal and g.name != "_json_c_visit"

    def init_mem(self, state, base, path, t):
        # symbolic insertion-ordered list: table.head -> entry0 -> entry1 ...
        el, fl = pe.fields_of(path)
        if base == "table" and el == 0 and fl == (2,):
            return ("ptr", "entry0", ()) if self.n > 0 else pe.C(0)
        if base.startswith("entry") and el == 0:
            k = int(base[5:])
            if fl == (3,):
                return ("ptr", "entry%d" % (k + 1), ()) if k + 1 < self.n else pe.C(0)
            if fl == ():
                return ("sym", "key", k)
            if fl == (2,):
                return ("sym", "val", k)
        return pe.TOP

    def call_model(self, state, frame, i, args):
        nm = i.callee
        if nm is None:
            r = self.fresh_root(state, "user", CODES)
            state.trace.append(("user", args, r, i))
            return r
        if nm == "_json_c_visit":
            r = self.fresh_root(state, "child", CODES)
            state.trace.append(("child", args, r, i))
            return r
        if nm == "json_object_get_type":
            return pe.C(TYPES[self.tname])
        if nm == "json_object_get_object":
            return ("ptr", "table", ())
        if nm == "json_object_array_length":
            return pe.C(self.n)
        if nm == "json_object_array_get_idx":
            return ("sym", "elem", args[1])
        if nm == "fprintf":
            return pe.TOP
        return None


def run(chk):
    prog = load_program("default")
    chk.variant(prog)
    m = prog.module("json_visit.c")
    chk.require(m is not None, "json_visit.c not in the build")
    f = m.functions.get("_json_c_visit")
    chk.require(f is not None and not f.is_decl, "_json_c_visit not found")
    chk.touched(f)
    rid = "C17.R1-3"
    chk.rule(rid, "per-node decision table of _json_c_visit equals the reference traversal: pre-visit dispatch, child-result handling "
                  "in the object and array loops (sibling agreement), second visit only for containers with the SECOND flag")
    chk.rule("C17.R5", "children are visited in document order with (child, this node, key | &index) arguments; the second visit "
                       "repeats the first visit's parent/key/index arguments")
    LOCAL_FRAMES.clear()
    LOCAL_FRAMES.update(g.name for g in m.functions.values() if not g.is_decl and (g.internal or g.name == "_json_c_visit"))
    total_paths = 0
    total_assign = 0
    params = [("ptr", "jso", ()), ("ptr", "parent", ()), ("ptr", "key", ()), ("ptr", "index", ())]
    params += [("ptr", nm or "arg%d" % k, ()) for k, (t, nm) in enumerate(f.params) if k >= 4]
    for tname in TYPES:
        is_container = tname in ("object", "array")
        for n in (range(NMAX + 1) if is_container else [0]):
            h = VisitPE(prog, tname, n)
            st = pe.State()
            leaves = h.run(f, params, st)
            bad = None
            order_bad = None
            npaths = len(leaves)
            nassign = 0
            for lf in leaves:
                if lf.kind != "ret":
                    bad = ("path ends with %s at %s" % (lf.kind, lf.at.locstr() if lf.at else "?"), None)
                    break
                events = [e for e in lf.state.trace if e[0] in ("user", "child")]
                roots = [e[2][1] for e in events]
                doms = [sorted(lf.state.roots[r]) for r in roots]
                got_events = []
                ci = 0
                for e in events:
                    if e[0] == "user":
                        flag = e[1][1]
                        got_events.append(("user", flag[1] if pe.is_const(flag) else None))
                    else:
                        got_events.append(("child", ci))
                        ci += 1
                for vals in product(*doms):
                    nassign += 1
                    env = dict(zip(roots, vals))
                    want_events, want_ret = ref_visit(is_container, n, list(vals) + [CONT] * 8)
                    try:
                        got_ret = pe.ev(lf.value, env) if lf.value is not None else None
                    except (pe.Unknown, KeyError):
                        got_ret = None
                    if got_events != want_events or got_ret != want_ret:
                        bad = ("codes %s: code performs %s and returns %s; reference performs %s and returns %s"
                               % (_names(vals), got_events, _name(got_ret), want_events, _name(want_ret)), lf)
                        break
                if bad:
                    break
                # argument / ordering checks on this path
                ob = _check_args(tname, events)
                if ob and order_bad is None:
                    order_bad = (ob, lf)
            total_paths += npaths
            total_assign += nassign
            sig = "%s node, %d children" % (tname, n) if is_container else "%s leaf" % tname
            loc = f.entry.term.locstr()
            if bad:
                chk.refuted(rid, f.name, sig, bad[1].at.locstr() if bad[1] is not None and bad[1].at else loc,
                            "traversal of a %s deviates from the documented one: %s" % (sig, bad[0]))
            else:
                chk.proven(rid, f.name, sig, loc, "%d paths, %d code assignments agree with the reference traversal" % (npaths, nassign))
            if is_container and n > 0:
                if order_bad:
                    chk.refuted("C17.R5", f.name, sig, loc, order_bad[0])
                else:
                    chk.proven("C17.R5", f.name, sig, loc, "child k receives element/member k, this node as parent and key|&index; second visit repeats the first visit's arguments")
    chk.floor(rid, total_paths, 60, "paths of _json_c_visit across node shapes")
    chk.tables["paths"] = total_paths
    chk.tables["assignments_checked"] = total_assign
    r4(chk, prog, m)
    chk.undecided_clauses += [
        "containers with more than %d children are covered by uniformity of the loop body (same code per iteration), not enumerated" % NMAX,
        "call-by-call comparison on generated trees (the dynamic counterpart)",
    ]


def _name(v):
    return {CONT: "CONTINUE", SKIP: "SKIP", POP: "POP", STOP: "STOP", ERR: "ERROR"}.get(v, str(v))


def _names(vals):
    return [_name(v) for v in vals]


LOCAL_FRAMES = set()


def _check_args(tname, events):
    """document order and argument discipline on one path"""
    first = None
    k = 0
    for e in events:
        args = e[1]
        if e[0] == "user":
            if first is None:
                first = args
                if not (pe.is_const(args[1]) and args[1][1] == 0):
                    return "first visit is not called with flags 0"
                if args[0] != ("ptr", "jso", ()):
                    return "first visit does not pass the node itself"
            else:
                if not (pe.is_const(args[1]) and args[1][1] == SECOND):
                    return "second visit is not flagged JSON_C_VISIT_SECOND"
                if args[0] != first[0] or args[2:5] != first[2:5]:
                    return "second visit does not repeat the first visit's node/parent/key/index arguments"
        else:
            if args[1] != ("ptr", "jso", ()):
                return "child %d is not given this node as its parent" % k
            if tname == "object":
                if args[0] != ("sym", "val", k) or args[2] != ("sym", "key", k) or args[3] != pe.C(0):
                    return "object member %d visited out of insertion order or with wrong key/index arguments: %r" % (k, args[:4])
            else:
                if args[0] != ("sym", "elem", pe.C(k)) or args[2] != pe.C(0) or args[3][0] != "ptr":
                    return "array element %d visited out of order or with wrong key/index arguments: %r" % (k, args[:4])
                # the index lives in storage of this activation: a slot shared between the levels of the recursion is overwritten
                # by every array visited below an element before that element's second visit reads it
                if not (args[3][1].split(".")[0] in LOCAL_FRAMES):
                    return ("array element %d is given an index pointer into %s, storage that is not local to this activation of the "
                            "traversal: arrays visited below the element overwrite it, and the element's second visit (a container "
                            "inside an array) reports the wrong index" % (k, args[3][1]))
            k += 1
    return None


class TopPE(pe.PE):
    def call_model(self, state, frame, i, args):
        if i.callee == "_json_c_visit":
            r = self.fresh_root(state, "visit", CODES)
            state.trace.append(("visit", args, r, i))
            return r
        return None

    def should_inline(self, g, instr):
        return False


def r4(chk, prog, m):
    rid = "C17.R4"
    chk.rule(rid, "json_c_visit maps the root visit's CONTINUE/SKIP/POP/STOP to 0 and anything else to -1, and starts with no parent/key/index")
    f = m.functions.get("json_c_visit")
    chk.require(f is not None and not f.is_decl, "json_c_visit not found")
    chk.touched(f)
    bad = None
    n = 0
    # the root may be any tree, including the one-node tree that is JSON null (a NULL json_object pointer)
    for rootval, rootname in ((("ptr", "jso", ()), "a node"), (pe.C(0), "JSON null (NULL)")):
        h = TopPE(prog)
        leaves = h.run(f, [rootval, pe.TOP, ("ptr", "userfunc", ()), ("ptr", "userarg", ())], pe.State())
        for lf in leaves:
            ev = [e for e in lf.state.trace if e[0] == "visit"]
            if lf.kind != "ret" or len(ev) != 1:
                bad = "with the root being %s, json_c_visit %s (result %s): every tree, including a single null, is visited" % (
                    rootname, "performs %d root visits" % len(ev) if lf.kind == "ret" else "ends with " + lf.kind,
                    lf.value[1] if lf.value is not None and pe.is_const(lf.value) else "?")
                break
            args = ev[0][1]
            if args[0] != rootval or args[1] != pe.C(0) or args[2] != pe.C(0) or args[3] != pe.C(0):
                bad = "root visit not started with (jso, NULL, NULL, NULL)"
                break
            root = ev[0][2][1]
            for v in lf.state.roots[root]:
                n += 1
                want = 0 if v in (CONT, SKIP, POP, STOP) else -1
                got = pe.ev(lf.value, {root: v})
                if got != want:
                    bad = "root visit result %s is mapped to %d, documented result is %d" % (_name(v), got, want)
                    break
            if bad:
                break
        if bad:
            break
    if bad:
        chk.refuted(rid, f.name, "result mapping", f.entry.term.locstr(), bad)
    else:
        chk.proven(rid, f.name, "result mapping", f.entry.term.locstr(), "%d result codes mapped as documented" % n)
    if not bad:
        chk.floor(rid, n, len(CODES), "result codes")
