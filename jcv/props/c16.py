"""C16 - strict mode rejects every documented extension anywhere; default mode accepts it.

Decided on the product of the tokener automaton extracted from the IR (jcv.tokauto: one step = one byte, all 256
byte values, every reachable parser configuration up to the analysed nesting limit) with the RFC 8259 reference
automaton (jcv.rfcref): at every product-reachable grammar position, not at one example.
"""
from ..ir import load_program
from .. import tokauto, product, rfcref, tokrules
from ..tokrules import F_STRICT, F_TRAILING, KIND_NAMES


def run(chk):
    prog = load_program("default")
    chk.variant(prog)
    f = prog.fn("json_tokener_parse_ex")
    chk.require(f is not None, "json_tokener_parse_ex not found")
    chk.touched(f)
    depths = [2] if chk.tier == "quick" else [2, 3]
    for D in depths:
        strict_rejects(chk, prog, D)
        default_accepts(chk, prog, D)
    x4(chk, prog, depths[0])
    x7(chk, prog, depths[0])
    x8(chk, prog, depths[0])
    x9_comment_at_end(chk, prog, depths[0])
    from .. import numrules
    numrules.rule_strict_numbers(chk, prog, "C16.X6")
    numrules.rule_trailing_after_number(chk, prog, "C16.X8n")
    numrules.rule_literals(chk, prog, None, "C16.X4.strict", "C16.X4.default")
    with chk.shared():
        # strict mode stays strict: the reset that must follow every error keeps the flags (shared with C04)
        from . import c04
        c04.r5(chk, prog, [(tokauto.get_table(prog, 0, 2), "default")])
    chk.undecided_clauses += [
        "number tokens are decided by X6 with strtod / strtoll / strtoull taken at their ISO C contracts and digit runs collapsed "
        "(integer part: 0, 00, 05, 5, 55; other runs: 5); whether an in-range integer is converted exactly is libc's",
        "that default mode yields the original document's *value* for the value-neutral forms (only acceptance and return to "
        "the same parser configuration are decided)",
        "the Infinity literal (its own state, no token buffer) is covered by the reachability rule X4 only; strict mode accepts the "
        "case-exact NaN and Infinity, which the property does not list among the forms strict mode must reject",
    ]
    chk.assumptions.append("feeding one byte per call is observationally the same as any other chunking (property C03)")


def strict_rejects(chk, prog, D):
    rid = "C16.strict"
    chk.rule(rid, "under JSON_TOKENER_STRICT, at every product-reachable grammar position, each byte that starts a documented "
                  "extension (comment '/', single quote, ']' or '}' after a comma, control character in a string) is a fatal error")
    T, stats, checks, parent = tokrules.get_product(prog, F_STRICT, D, False)
    tokrules.describe_table(chk, T, "strict_d%d" % D)

    def kind(c):
        return tokrules.ext_kind_of(c["ref"], c["bytes"][0], D)
    groups = {}
    for c in checks:
        if c.get("oblig") != "must-reject":
            continue
        # split the byte class by extension kind
        by = {}
        for b in c["bytes"]:
            by.setdefault(tokrules.ext_kind_of(c["ref"], b, D), []).append(b)
        for k, bs in by.items():
            g = groups.setdefault((k, tokrules.pos_name(c["ref"])), [0, []])
            g[0] += 1
            if not c["holds"]:
                g[1].append((c, bs))
    n = 0
    for (k, pos), (cnt, bad) in sorted(groups.items(), key=lambda x: (str(x[0][0]), x[0][1])):
        n += 1
        label = KIND_NAMES.get(k, "other non-RFC byte")
        sig = "%s at %s (limit %d)" % (label, pos, D)
        loc = "json_tokener.c"
        if not bad:
            chk.proven(rid, "json_tokener_parse_ex", sig, loc, "%d (configuration, byte class) combinations all end in a fatal error" % cnt)
            continue
        c, bs = bad[0]
        w = product.show(product.witness(parent, c["pair"], bs[0]))
        msg = ("strict mode accepts %s at grammar position %s: text %r is not rejected (parser configuration %s, status %s)"
               % (label, pos, w, T.cfg_str(c["cfg"]), T.err_name.get(c["err"], c["err"])))
        if k in KIND_NAMES:
            chk.refuted(rid, "json_tokener_parse_ex", sig, loc, msg, {"witness_text": w, "bytes": product.show(bytes(bs[:16]))})
        else:
            chk.undecided(rid, "json_tokener_parse_ex", sig, loc, "not one of the documented extensions: " + msg)
    chk.floor(rid + ".d%d" % D, n, 20, "(extension kind, grammar position) groups in strict mode")


def default_accepts(chk, prog, D):
    rid = "C16.default"
    chk.rule(rid, "in default mode the same bytes are accepted at every position where the extension can occur, and a comment "
                  "returns the parser to exactly the configuration it started from (value-neutral)")
    T, stats, checks, parent = tokrules.get_product(prog, 0, D, True)
    tokrules.describe_table(chk, T, "default_d%d" % D)
    groups = {}
    for c in checks:
        if c.get("oblig") == "must-accept" and c.get("ext_kind"):
            g = groups.setdefault((c["ext_kind"], tokrules.pos_name(c["ref"])), [0, []])
            g[0] += 1
            if not c["holds"]:
                g[1].append(c)
            if c.get("comment_neutral") is False:
                g[1].append(c)
    n = 0
    for (k, pos), (cnt, bad) in sorted(groups.items()):
        n += 1
        sig = "%s at %s (limit %d)" % (KIND_NAMES.get(k, k), pos, D)
        if not bad:
            chk.proven(rid, "json_tokener_parse_ex", sig, "json_tokener.c", "%d combinations accepted" % cnt)
            continue
        c = bad[0]
        w = tokrules.entry_witness(T, parent, c)
        if c.get("comment_neutral") is False:
            chk.refuted(rid, "json_tokener_parse_ex", sig, "json_tokener.c",
                        "after the comment in %r the parser is in configuration %s instead of %s: the comment is not value-neutral"
                        % (w, T.cfg_str(c["outcome"].next), T.cfg_str(c["comment_origin"])), {"witness_text": w})
        else:
            chk.refuted(rid, "json_tokener_parse_ex", sig, "json_tokener.c",
                        "default mode rejects %s at position %s: text %r gives %s" % (KIND_NAMES.get(k, k), pos, w, T.err_name.get(c["err"], c["err"])),
                        {"witness_text": w})
    chk.floor(rid + ".d%d" % D, n, 20, "(extension kind, grammar position) groups in default mode")


def x9_comment_at_end(chk, prog, D):
    rid = "C16.X9"
    chk.rule(rid, "in default mode a '//' comment that runs to the end of a NUL-terminated text is value-neutral at the end of the "
                  "text too: from every reachable configuration whose current level is inside such a comment, the step on the "
                  "terminating NUL ends with the same status and value presence as the step on the terminating NUL from the "
                  "configuration the comment was entered from")
    T = tokauto.get_table(prog, 0, D)
    eol = [v for v, k in T.state_name.items() if k == "comment_eol"]
    chk.require(eol, "state comment_eol not found")
    eol = eol[0]
    ws = [v for v, k in T.state_name.items() if k == "eatws"]
    chk.require(ws, "state eatws not found")
    ws = ws[0]

    def nul(cfg):
        return frozenset((o.err, bool(o.ret_nonnull)) for o in T.step(cfg, byte_domain=[0], length=-1))
    n = 0
    bad = None
    for cfg in T.trans:
        depth, levels = cfg[0], cfg[1]
        top = levels[depth]
        if top[0] != eol:
            continue
        # a comment is entered from the white-space state and returns to it, keeping the saved state: that configuration is
        # the origin (it is walked here even where the one-byte-per-call exploration did not visit it)
        origins = [(depth, levels[:depth] + ((ws, top[1]) + tuple(top[2:]),) + levels[depth + 1:]) + tuple(cfg[2:])]
        n += 1
        here = nul(cfg)
        if all(nul(c) != here for c in origins) and bad is None:
            bad = (cfg, origins[0], here, nul(origins[0]))
    sig = "'//' comment ended by the end of the text"
    if bad:
        cfg, org, a, b = bad

        def show(x):
            return sorted("%s%s" % (T.err_name.get(e, e), " with a value" if v else "") for e, v in x)
        chk.refuted(rid, "json_tokener_parse_ex", sig, "json_tokener.c",
                    "configuration %s (inside a '//' comment entered from %s): the terminating NUL gives %s, but from the "
                    "configuration before the comment it gives %s: a document followed by '// text' without a final newline "
                    "is not treated like the document" % (T.cfg_str(cfg), T.cfg_str(org), show(a), show(b)))
    elif n == 0:
        chk.undecided(rid, "json_tokener_parse_ex", sig, "json_tokener.c", "no configuration inside a '//' comment with a known origin was reached")
    else:
        chk.proven(rid, "json_tokener_parse_ex", sig, "json_tokener.c", "%d configurations inside a '//' comment end like their origin on the terminating NUL" % n)
    chk.floor(rid, n, 3, "configurations inside a '//' comment")


def x4(chk, prog, D):
    rid = "C16.X4"
    chk.rule(rid, "under STRICT the case-insensitive literal comparison and the inverted-case Infinity table are unreachable; "
                  "in default mode they are reachable (literals in another case accepted)")
    Ts = tokauto.get_table(prog, F_STRICT, D)
    Td = tokauto.get_table(prog, 0, D)

    def uses(T, what):
        hits = []
        for cfg, outs in T.trans.items():
            for o in outs:
                if what(o):
                    hits.append(cfg)
                    break
        return hits
    s1 = uses(Ts, lambda o: "strncasecmp" in o.calls)
    s2 = uses(Ts, lambda o: any("invert" in g for g in o.gloads))
    d1 = uses(Td, lambda o: "strncasecmp" in o.calls)
    d2 = uses(Td, lambda o: any("invert" in g for g in o.gloads))
    if s1:
        chk.refuted(rid, "json_tokener_parse_ex", "strncasecmp under STRICT", "json_tokener.c",
                    "strict mode reaches the case-insensitive literal comparison in configuration %s: 'TRUE'/'Null' would be accepted" % Ts.cfg_str(s1[0]))
    else:
        chk.proven(rid, "json_tokener_parse_ex", "strncasecmp under STRICT", "json_tokener.c", "no strict-mode transition calls strncasecmp (%d configurations)" % len(Ts.trans))
    if s2:
        chk.refuted(rid, "json_tokener_parse_ex", "inverted Infinity table under STRICT", "json_tokener.c",
                    "strict mode reads the inverted-case Infinity table in configuration %s" % Ts.cfg_str(s2[0]))
    else:
        chk.proven(rid, "json_tokener_parse_ex", "inverted Infinity table under STRICT", "json_tokener.c", "never read in strict mode")
    chk.floor(rid, len(d1) + len(d2), 2, "default-mode configurations that use the case-insensitive comparison / inverted table")
    if d1 and d2:
        chk.proven(rid, "json_tokener_parse_ex", "case-insensitive literals in default mode", "json_tokener.c",
                   "reachable in %d + %d default-mode configurations" % (len(d1), len(d2)))
    else:
        chk.refuted(rid, "json_tokener_parse_ex", "case-insensitive literals in default mode", "json_tokener.c",
                    "default mode never compares literals case-insensitively: non-lowercase literals would be rejected")


def x7(chk, prog, D):
    rid = "C16.X7"
    chk.rule(rid, "the trimming of a dangling exponent / sign (direct writes into the token buffer) is unreachable under STRICT and "
                  "reachable in default mode")
    Ts = tokauto.get_table(prog, F_STRICT, D)
    Td = tokauto.get_table(prog, 0, D)
    s = [cfg for cfg, outs in Ts.trans.items() if any(o.pbstores for o in outs)]
    d = [cfg for cfg, outs in Td.trans.items() if any(o.pbstores for o in outs)]
    if s:
        chk.refuted(rid, "json_tokener_parse_ex", "token-buffer trimming under STRICT", "json_tokener.c",
                    "strict mode reaches the code that trims a trailing 'e'/'+'/'-' from the number text (configuration %s): '1e' would be accepted" % Ts.cfg_str(s[0]))
    else:
        chk.proven(rid, "json_tokener_parse_ex", "token-buffer trimming under STRICT", "json_tokener.c", "no strict-mode transition writes the token buffer directly")
    if d:
        chk.proven(rid, "json_tokener_parse_ex", "token-buffer trimming in default mode", "json_tokener.c", "reachable from %d configurations" % len(d))
    else:
        chk.refuted(rid, "json_tokener_parse_ex", "token-buffer trimming in default mode", "json_tokener.c", "default mode never trims a dangling exponent")
    chk.floor(rid, len(d), 1, "default-mode configurations reaching the trimming loop")


def x8(chk, prog, D):
    rid = "C16.X8"
    chk.rule(rid, "trailing bytes after a complete top-level value: STRICT without ALLOW_TRAILING_CHARS fails; with it, and in "
                  "default mode, the value is returned and the reported end position is the value's end")
    ws = {0x20, 0x09, 0x0A, 0x0D}
    n = 0
    from ..tokrules import F_UTF8
    # the decision depends on STRICT and ALLOW_TRAILING_CHARS only: an unrelated flag (UTF-8 validation) must not change it
    for flags, name in ((F_STRICT, "strict"), (F_STRICT | F_TRAILING, "strict+allow_trailing"), (0, "default"),
                        (F_STRICT | F_UTF8, "strict+validate_utf8"), (F_STRICT | F_TRAILING | F_UTF8, "strict+allow_trailing+validate_utf8"),
                        (F_UTF8, "default+validate_utf8")):
        T = tokauto.Table(prog, flags, D)
        st = T.states
        # a complete top-level value followed by more bytes of the same buffer: depth 0, state eatws, saved_state finish
        cfg = (0, ((st["json_tokener_state_eatws"], st["json_tokener_state_finish"], 1, 0),), 0, 0, 0, 0)
        outs = T.step(cfg)
        bad = None
        cnt = 0
        for o in outs:
            for sb in o.bytes:
                b = sb % 256
                if b == 0 or b in ws or (b == 0x2F and not (flags & F_STRICT)):
                    continue
                if (flags & F_UTF8) and b >= 0x80:
                    continue          # with UTF-8 validation every input byte is validated, trailing ones included

                cnt += 1
                err = T.err_name.get(o.err, o.err)
                if flags & (F_STRICT | F_TRAILING) == F_STRICT:
                    good = o.err not in (0, 1) and not o.ret_nonnull
                else:
                    good = o.err == 0 and o.ret_nonnull and o.consumed == 0
                if not good and bad is None:
                    bad = (b, err, o)
        n += 1
        sig = "trailing byte, %s" % name
        if bad:
            b, err, o = bad
            chk.refuted(rid, "json_tokener_parse_ex", sig, "json_tokener.c",
                        "after a complete top-level value, byte %r in %s mode gives status %s, value returned: %s, bytes consumed: %s"
                        % (chr(b), name, err, o.ret_nonnull, o.consumed))
        else:
            chk.proven(rid, "json_tokener_parse_ex", sig, "json_tokener.c",
                       "%d non-whitespace bytes: %s" % (cnt, "fatal error" if flags & (F_STRICT | F_TRAILING) == F_STRICT else "value returned, end position at the value's end"))
    chk.floor(rid, n, 3, "flag combinations")
