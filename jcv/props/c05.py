"""C05 - every node is destroyed exactly once, exactly when its last owner releases it.

R1 release-once per removal operation: replacing a member, deleting a table entry, overwriting / deleting array slots and
   destroying a container each hand the removed occupant to the container's release function exactly once (shared rules with
   C06 / C07); the release functions of the two containers drop exactly one reference per child (and the key copy)
R2 destroy cascade of json_object_put over node type x reference count (E3): at count 1 -> 0 the user delete callback runs
   first (if set), then exactly the type's release steps, and 1 is returned; otherwise nothing is released and 0 is returned
R3 consume-on-success contracts: for every consuming API, on a failing return the value was not stored anywhere (ownership
   stays with the caller); on a successful return it was stored (or handed to a callee with the same contract)
R4 replacing userdata invokes the old callback with the old argument before either field is overwritten
R5 no use after release inside the library
"""
from ..ir import load_program
from ..cfg import cfg_of
from ..flow import Paths, derived_values
from .. import pe, own
from . import c06, c07

TYPES = {"null": 0, "boolean": 1, "double": 2, "int": 3, "object": 4, "array": 5, "string": 6}
# struct json_object { o_type, _ref_count, _to_json_string, _pb, _user_delete, _userdata }
JF = {"o_type": 0, "_ref_count": 1, "_to_json_string": 2, "_pb": 3, "_user_delete": 4, "_userdata": 5}


def run(chk):
    prog = load_program("default")
    chk.variant(prog)
    m = prog.module("json_object.c")
    chk.require(m is not None, "json_object.c not in the build")
    chk.require(m.struct_fields("%struct.json_object") == list(JF), "struct json_object layout changed")
    r1(chk, prog, m)
    r2(chk, prog, m)
    r3(chk, prog)
    r4(chk, prog, m)
    r5(chk, prog)
    # the array container's slots hold owned references: every slot below length was written by the operation that raised
    # length, and an occupied slot is released before it is overwritten (shared with C07)
    ma = prog.module("arraylist.c")
    chk.require(ma is not None, "arraylist.c not in the build")
    with chk.shared():
        from .. import heapuse
        heapuse.rule_free_const_param(chk, prog, "C08.R5")
        heapuse.rule_dangling_fields(chk, prog, "C08.R6")
        c07.r_expand(chk, prog, ma)
        c07.r_functions(chk, prog, ma)
    r7_user_delete(chk, prog)
    own.rule_leaks(chk, prog, "C05.R6", acquirers=own.NODE_ACQUIRERS, floor=25,
                   text="no orphaned node: a node reference held by a local of a library function (a constructor's result, a "
                        "reference taken with json_object_get, the slot a copy was built into) is released, returned or handed to a "
                        "container on every path to a return, including every failure path, so a failed operation leaves nothing that no "
                        "owner can reach")
    chk.undecided_clauses += [
        "the exact moment of destruction over arbitrary API call histories (only per-operation release counts and the cascade are decided)",
        "that no memory remains when every reference is released (global accounting is dynamic)",
        "reference-count overflow",
    ]


def r1(chk, prog, m):
    # shared structural rules, registered under this property's ids by their own modules' rule names
    with chk.shared():
        c06.r2(chk, prog)
        c06.r3_delete(chk, prog, prog.module("linkhash.c"))
    chk.rule("C05.R1", "the release functions the containers are created with drop exactly one reference of the child (and free the "
                       "copied key unless it is constant); container destruction walks every live entry once")
    f = m.functions.get("json_object_lh_entry_free")
    chk.require(f is not None, "json_object_lh_entry_free not found")
    chk.touched(f)
    P = Paths(f, prog)
    puts = [i for i in f.instrs() if i.op == "call" and i.callee == "json_object_put"]
    frees = [i for i in f.instrs() if i.op == "call" and i.callee == "free"]
    ok = len(puts) == 1 and P.path(puts[0].ops[0]).endswith("->v") and len(frees) == 1 and P.path(frees[0].ops[0]).endswith("->k")
    from ..flow import dominating_conditions
    guarded = frees and any(getattr(c, "op", None) == "icmp" and "k_is_constant" in P.path(c.ops[0]) for c, tr in dominating_conditions(f, frees[0].block))
    if ok and guarded:
        chk.proven("C05.R1", f.name, "object member release", puts[0].locstr(), "one json_object_put(value); free(key) unless constant")
    else:
        chk.refuted("C05.R1", f.name, "object member release", f.entry.term.locstr(),
                    "the member release function does not drop exactly one reference of the value and free the non-constant key")
    f = m.functions.get("json_object_array_entry_free")
    chk.require(f is not None, "json_object_array_entry_free not found")
    chk.touched(f)
    puts = [i for i in f.instrs() if i.op == "call" and i.callee == "json_object_put"]
    others = [i for i in f.instrs() if i.op == "call" and i.callee not in ("json_object_put",) and not (i.callee or "").startswith("llvm.")]
    if len(puts) == 1 and not others:
        chk.proven("C05.R1", f.name, "array element release", puts[0].locstr(), "one json_object_put(element)")
    else:
        chk.refuted("C05.R1", f.name, "array element release", f.entry.term.locstr(), "the element release function does not drop exactly one reference")
    # the containers are created with these release functions
    for ctor, callee, rel, argi in (("json_object_new_object", "lh_kchar_table_new", "json_object_lh_entry_free", 1),
                                    ("json_object_new_array_ext", "array_list_new2", "json_object_array_entry_free", 0)):
        f = m.functions.get(ctor)
        chk.require(f is not None, ctor + " not found")
        chk.touched(f)
        calls = [i for i in f.instrs() if i.op == "call" and i.callee == callee]
        from ..ir import strip_casts
        okc = calls and strip_casts(calls[0].ops[argi]).kind == "global" and strip_casts(calls[0].ops[argi]).v == rel
        (chk.proven if okc else chk.refuted)("C05.R1", ctor, "container release function", (calls[0] if calls else f.entry.term).locstr(),
                                             "created with %s" % rel if okc else "the container is not created with %s as its release function" % rel)
    # destruction walks the list / the slots once
    lf = prog.fn("lh_table_free")
    af = prog.fn("array_list_free")
    for f, what in ((lf, "free_fn"), (af, "free_fn")):
        chk.touched(f)
        P = Paths(f, prog)
        cfg = cfg_of(f)
        rel = [i for i in f.instrs() if i.op == "call" and i.callee is None and P.path(i.x["callee"]).endswith(what)]
        in_loop = False
        for a, h in cfg.back_edges():
            body = {h}
            work = [a]
            while work:
                b = work.pop()
                if b in body:
                    continue
                body.add(b)
                work.extend(b.preds)
            if rel and rel[0].block in body:
                in_loop = True
        if len(rel) == 1 and in_loop:
            chk.proven("C05.R1", f.name, "container destruction", rel[0].locstr(), "one release call per live entry, in a single loop over the entries")
        else:
            chk.refuted("C05.R1", f.name, "container destruction", f.entry.term.locstr(), "container destruction does not release each live entry exactly once")


class PutPE(pe.PE):
    def __init__(self, prog, tname, refs, has_cb, strlen):
        super().__init__(prog, max_leaves=2000, max_steps=200000)
        self.tname, self.refs, self.has_cb, self.strlen = tname, refs, has_cb, strlen

    def should_inline(self, g, instr):
        return g.internal

    def init_mem(self, state, base, path, t):
        el, fl = pe.fields_of(path)
        k = fl[0] if fl else 0
        if base == "jso" and el == 0:
            if len(fl) <= 1:
                if k == JF["o_type"]:
                    return pe.C(TYPES[self.tname])
                if k == JF["_ref_count"]:
                    return pe.C(self.refs)
                if k == JF["_user_delete"]:
                    return ("ptr", "userdel", ()) if self.has_cb else pe.C(0)
                if k == JF["_userdata"]:
                    return ("ptr", "userdata", ())
                if k == JF["_pb"]:
                    return ("ptr", "pb", ())
            if fl and isinstance(fl[0], tuple) and fl[0][0] == "f":
                # a field of the typed extension (struct json_object_<type>): index 1 is the first field after the base
                _, sty, idx = fl[0]
                if idx == 1 and self.tname == "object":
                    return ("ptr", "table", ())
                if idx == 1 and self.tname == "array":
                    return ("ptr", "alist", ())
                if idx == 1 and self.tname == "string":
                    return pe.C(self.strlen)
                if idx == 2 and self.tname == "string":
                    return ("ptr", "pdata", ())
            return pe.TOP
        return pe.TOP

    def call_model(self, state, frame, i, args):
        nm = i.callee
        if nm is None:
            state.trace.append(("indirect", self.val(frame, i.x["callee"], state), tuple(args)))
            return pe.TOP
        if nm in ("free", "printbuf_free", "lh_table_free", "array_list_free"):
            state.trace.append(("call", nm, tuple(args)))
            return pe.C(0)
        return None


def r2(chk, prog, m):
    rid = "C05.R2"
    chk.rule(rid, "json_object_put decision table over node type x reference count x user callback: at 1 -> 0 the user delete callback (if any) "
                  "runs first with (node, userdata), then exactly the type's release steps (children container, token buffer, the node; a "
                  "string's separate block iff len < 0), and 1 is returned; at a higher count nothing is released and 0 is returned")
    f = prog.fn("json_object_put")
    chk.require(f is not None, "json_object_put not found")
    chk.touched(f)
    n = 0
    for tname in TYPES:
        for refs in (1, 2, 7):
            for has_cb in (False, True):
                for strlen in ((-5, 3) if tname == "string" else (0,)):
                    n += 1
                    P = PutPE(prog, tname, refs, has_cb, strlen)
                    leaves = P.run(f, [("ptr", "jso", ())], pe.State())
                    sig = "%s node, count %d, %s callback%s" % (tname, refs, "with" if has_cb else "no",
                                                                (", len %d" % strlen) if tname == "string" else "")
                    bad = None
                    if len(leaves) != 1 or leaves[0].kind != "ret":
                        bad = "%d paths / %s" % (len(leaves), [l.kind for l in leaves])
                    else:
                        lf = leaves[0]
                        tr = [e for e in lf.state.trace if e[0] in ("call", "indirect")]
                        names = [(e[1] if e[0] == "call" else "user_delete") for e in tr]
                        if refs > 1:
                            want = []
                            wret = 0
                        else:
                            want = (["user_delete"] if has_cb else [])
                            if tname == "object":
                                want += ["lh_table_free"]
                            elif tname == "array":
                                want += ["array_list_free"]
                            elif tname == "string" and strlen < 0:
                                want += ["free"]
                            want += ["printbuf_free", "free"]
                            wret = 1
                        if names != want:
                            bad = "release steps are %s, expected %s" % (names, want)
                        elif lf.value != pe.C(wret):
                            bad = "returns %r, expected %d" % (lf.value, wret)
                        elif refs == 1:
                            # arguments: callback (jso, userdata); last free is the node itself; container/pdata arguments
                            for e in tr:
                                if e[0] == "indirect" and (e[2][0] != ("ptr", "jso", ()) or e[2][1] != ("ptr", "userdata", ())):
                                    bad = "user delete callback not called with (node, userdata)"
                            last = tr[-1]
                            if last[2][0] != ("ptr", "jso", ()):
                                bad = "the final free() is not of the node itself"
                            cnt = lf.state.mem.get(("jso", ((("i", 0), JF["_ref_count"]))))
                        else:
                            cnt = lf.state.mem.get(("jso", (("i", 0), JF["_ref_count"])))
                            if cnt != pe.C(refs - 1):
                                bad = "count after release is %r, expected %d" % (cnt, refs - 1)
                    if bad:
                        chk.refuted(rid, f.name, sig, f.entry.term.locstr(), "destruction of a %s: %s" % (sig, bad))
                    else:
                        chk.proven(rid, f.name, sig, f.entry.term.locstr(), "as specified")
    chk.floor(rid, n, 40, "rows of the destroy decision table")


def r3(chk, prog):
    rid = "C05.R3"
    chk.rule(rid, "consume-on-success: in every consuming API the value parameter is stored (or passed on under the same contract) on each "
                  "successful return and untouched on each failing return, so a failed operation leaves ownership with the caller")
    n = 0
    for name, params in sorted(own.CONSUMERS.items()):
        f = prog.fn(name)
        if f is None or not params:
            continue
        for k, pred in params.items():
            if k >= len(f.params) or not f.params[k][0].endswith("*"):
                continue
            if name.startswith("lh_table_insert") and k == 1:
                continue    # the key: owned by the table only through the caller's convention (constant-key flag)
            n += 1
            chk.touched(f)
            eng = own.Engine(prog, f)
            res = eng.param_resource(k)
            exits = eng.run_by_return_value(res)
            sig = "%s(%s)" % (name, f.params[k][1])
            bad = None
            for val, st, where in exits:
                toks = {t if isinstance(t, str) else t[0] for t in st}
                cls = _classify(val, pred)
                if cls == "fail" and toks - {"O", "N"}:
                    bad = ("on the failing return at %s the value has already been %s: the caller, who still owns it, would release "
                           "it a second time or see it inside the container" % (where.locstr(), "stored / released" if "D" in toks else sorted(toks)), where)
                elif cls == "ok" and toks - {"D", "N"}:
                    if toks <= {"D", "N", "P"}:
                        continue
                    bad = ("on the successful return at %s the value may not have been stored (%s): the reference the caller gave away "
                           "is lost" % (where.locstr(), sorted(toks)), where)
                elif cls == "delegated":
                    if toks - {"P", "D", "N", "O"}:
                        bad = ("return value of a callee with another contract", where)
            if bad:
                chk.refuted(rid, name, sig, bad[1].locstr(), bad[0])
            else:
                chk.proven(rid, name, sig, f.entry.term.locstr(), "%d return edges consistent with consume-on-success" % len(exits))
    chk.floor(rid, n, 10, "consuming APIs defined in the library")


def _classify(val, pred):
    if val is None:
        return "unknown"
    if val.kind == "int":
        if val.v in pred["ok"]:
            return "ok"
        return "fail"
    if val.kind == "null":
        return "fail" if 0 in pred["fail"] else "ok"
    return "delegated"


def r4(chk, prog, m):
    rid = "C05.R4"
    chk.rule(rid, "json_object_set_userdata calls the previous delete callback with (node, previous userdata) before it overwrites either field")
    f = prog.fn("json_object_set_userdata")
    chk.require(f is not None, "json_object_set_userdata not found")
    chk.touched(f)
    P = Paths(f, prog)
    cfg = cfg_of(f)
    calls = [i for i in f.instrs() if i.op == "call" and i.callee is None and P.path(i.x["callee"]).endswith("_user_delete")]
    stores = [i for i in f.instrs() if i.op == "store" and (P.path(i.ops[1]).endswith("_userdata") or P.path(i.ops[1]).endswith("_user_delete"))]
    ok = len(calls) == 1 and len(stores) == 2 and P.path(calls[0].ops[1]).endswith("_userdata") and \
        all(not (calls[0].block in cfg.reachable_from(s.block) and not (s.block is calls[0].block and s.idx > calls[0].idx)) or
            (s.block is calls[0].block and s.idx > calls[0].idx) for s in stores)
    # simpler: no store can execute before the call
    before = [s for s in stores if calls and (calls[0].block in cfg.reachable_from(s.block) and not (s.block is calls[0].block and s.idx > calls[0].idx))]
    if len(calls) == 1 and len(stores) == 2 and not before and P.path(calls[0].ops[1]).endswith("_userdata"):
        chk.proven(rid, f.name, "old callback first", calls[0].locstr(), "callback(node, old userdata) precedes both stores")
    else:
        chk.refuted(rid, f.name, "old callback first", f.entry.term.locstr(),
                    "the previous userdata is not released through the previous callback before the fields are overwritten")


def r5(chk, prog):
    rid = "C05.R5"
    chk.rule(rid, "no use after release inside the library: after free(x), and after json_object_put(x) where this function holds no "
                  "other reference to x, x is not dereferenced or passed on")
    n = 0
    for f in prog.all_functions():
        cfg = cfg_of(f)
        P = None
        for i in f.instrs():
            if i.op != "call" or i.callee not in ("free", "json_object_put", "printbuf_free", "lh_table_free", "array_list_free", "json_tokener_free"):
                continue
            a = i.ops[0]
            if a.kind != "reg":
                continue
            n += 1
            chk.touched(f)
            regs = _cast_aliases(f, a.v)
            if i.callee == "json_object_put":
                # another reference taken in this function on the same value keeps it alive
                if P is None:
                    P = Paths(f, prog)
                ap = P.path(a)
                if any(g.op == "call" and g.callee == "json_object_get" and (P.path(g.ops[0]) == ap or (g.res in regs)) and cfg.dominates(g, i)
                       for g in f.instrs()):
                    chk.proven(rid, f.name, "%s(%s)" % (i.callee, ap), i.locstr(), "a reference taken earlier in this function keeps the node alive")
                    continue
            after = []
            for b in cfg.reachable_from(i.block):
                for u in b.instrs:
                    if b is i.block and u.idx <= i.idx:
                        continue
                    if u is i:
                        continue
                    if u.op in ("icmp", "phi", "br"):
                        continue
                    ops = list(u.ops)
                    if any(o.kind == "reg" and o.v in regs for o in ops):
                        if u.op == "store" and u.ops[0].kind == "reg" and u.ops[0].v in regs and not (u.ops[1].kind == "reg" and u.ops[1].v in regs):
                            after.append(u)     # the dangling pointer is stored somewhere
                        elif u.op in ("load", "getelementptr", "call", "store", "ret"):
                            after.append(u)
            # a use in a *previous* loop iteration position is not after: require that the use is not also before via the same block only
            after = [u for u in after if not (u.block is i.block and u.idx < i.idx)]
            if P is None:
                P = Paths(f, prog)
            sig = "%s(%s)" % (i.callee, P.path(a))
            # loops: the value is re-loaded each iteration when it comes from a load; SSA registers defined inside the loop are fresh
            d = f.defs.get(a.v)
            fresh_each_iter = d is not None and d.block in cfg.reachable_from(i.block) and d.op in ("load", "phi", "call")
            real = [u for u in after if not (fresh_each_iter and cfg.dominates(d, u) and d.block in cfg.reachable_from(i.block) and _passes(cfg, i, d, u))]
            if real:
                chk.refuted(rid, f.name, sig, i.locstr(), "the released value is used again at %s (%s)" % (real[0].locstr(), real[0].op), {"use": real[0].raw})
            else:
                chk.proven(rid, f.name, sig, i.locstr(), "no later use of the released value")
    chk.floor(rid, n, 40, "release call sites")


def _cast_aliases(f, reg):
    """registers that are the same pointer through casts only (not through phi: that is path dependent)"""
    cfg = cfg_of(f)
    regs = {reg}
    work = [reg]
    while work:
        r = work.pop()
        for u in cfg.users(r):
            if u.op in ("bitcast", "ptrtoint", "inttoptr") and u.res not in regs:
                regs.add(u.res)
                work.append(u.res)
        d = f.defs.get(r)
        if d is not None and d.op in ("bitcast",) and d.ops[0].kind == "reg" and d.ops[0].v not in regs:
            regs.add(d.ops[0].v)
            work.append(d.ops[0].v)
    return regs


def _passes(cfg, rel, d, use):
    """every path from the release to `use` re-executes the definition d (the value is a new one)"""
    seen = set()
    work = [(rel.block, rel.idx + 1)]
    while work:
        b, k = work.pop()
        stop = False
        for u in b.instrs[k:]:
            if u is d:
                stop = True
                break
            if u is use:
                return False
        if stop:
            continue
        for s in b.succs:
            if s not in seen:
                seen.add(s)
                work.append((s, 0))
    return True


def r7_user_delete(chk, prog):
    """the destruction callback runs whenever one is registered"""
    from ..flow import Paths, dominating_conditions
    rid = "C05.R7"
    chk.rule(rid, "the user's destruction callback (_user_delete) is called whenever it is non-NULL: no call through it is guarded by a "
                  "test of the user data pointer, which may legitimately be NULL")
    m = prog.module("json_object.c")
    chk.require(m is not None, "json_object.c not in the build")
    n = 0
    for f in [g for g in m.functions.values() if not g.is_decl]:
        P = None
        for i in f.instrs():
            if i.op != "call" or i.callee is not None:
                continue
            c = i.x.get("callee")
            if c is None:
                continue
            if P is None:
                P = Paths(f, prog)
            if not P.path(c).endswith("_user_delete"):
                continue
            n += 1
            chk.touched(f)
            guards = []
            for cm, tr in dominating_conditions(f, i.block):
                if getattr(cm, "op", None) == "icmp" and any(P.path(o).endswith("_userdata") for o in cm.ops if o.kind == "reg"):
                    guards.append(cm)
            sig = "call of _user_delete in " + f.name
            if guards:
                chk.refuted(rid, f.name, sig, i.locstr(),
                            "the destruction callback is called only when the user data pointer passes the test at %s: a callback "
                            "registered with NULL user data (which the API allows) never runs, neither at the last release nor when it "
                            "is replaced" % guards[0].locstr())
            else:
                chk.proven(rid, f.name, sig, i.locstr(), "guarded by the callback pointer only")
    chk.floor(rid, n, 2, "calls through _user_delete")
