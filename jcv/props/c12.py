"""C12 - JSON Pointer get/set resolve exactly per RFC 6901.

R1 array-index grammar: decision table of is_valid_index over string-shape classes (E3)
R2 JSON null is a value: no failing return is control-dependent on the null-ness of a node fetched from a container
R3 every reference token that names an object member is unescaped ("~1" then "~0") before it is used as a key,
   in lookups and in set
R4 the caller's pointer string is never written; working copies are freed on every path (E7 + E2)
R5 array access uses only an index validated by R1 and range-checked against the length
"""
from ..ir import load_program, strip_casts
from ..cfg import cfg_of
from ..flow import Paths, derived_values, null_tests
from .. import pe, own
from ..strpe import StrPE
from .c13 import _member_name
from .c18 import _failure_only


def run(chk):
    prog = load_program("default")
    chk.variant(prog)
    m = prog.module("json_pointer.c")
    chk.require(m is not None, "json_pointer.c not in the build")
    r1(chk, prog, m)
    r2(chk, prog, m)
    r3(chk, prog, m)
    r4(chk, prog, m)
    r5(chk, prog, m)
    r6(chk, prog, m)
    r7(chk, prog, m)
    r8(chk, prog, m, "C12.R8")
    r9(chk, prog, m)
    r10_null_target(chk, prog, m)
    r11_array_range(chk, prog, m)
    chk.undecided_clauses += [
        "agreement with an RFC 6901 evaluator on generated trees and pointers (needs execution)",
        "json_pointer_getf/setf formatting (vasprintf on data)",
        "numeric value of a multi-digit index (strtoull on data)",
    ]


class _IdxPE(pe.PE):
    def init_mem(self, state, base, path, t):
        if base == "path" and path == ():
            return pe.R("p0")
        return pe.TOP

    def call_model(self, state, frame, i, args):
        if i.callee == "strlen":
            return pe.R("len")
        if i.callee == "__errno_location":
            return ("ptr", "errno", ())
        return None


def r1(chk, prog, m):
    from itertools import product
    rid = "C12.R1"
    chk.rule(rid, "is_valid_index, evaluated on every token of up to 4 characters over '0', '5', 'a' (zero digit, other digit, "
                  "non-digit): accepts exactly \"0\" and the digit strings that do not start with a zero; rejects the empty token, "
                  "a leading zero and anything with a non-digit")
    f = m.functions.get("is_valid_index")
    chk.require(f is not None and not f.is_decl, "is_valid_index not found")
    chk.touched(f)

    class _TokPE(_UnescPE):
        def call_model(self, state, frame, i, args):
            if i.callee in ("strtoull", "strtoul", "strtoll", "strtol", "atoi"):
                return pe.C(0)
            if i.callee == "__errno_location":
                return ("ptr", "errno", ())
            return self.libc_string_model(state, frame, i, args)
    classes = [("empty token", lambda t: t == b""), ("'0'", lambda t: t == b"0"), ("single digit 1-9", lambda t: t == b"5"),
               ("single non-digit", lambda t: t == b"a"), ("leading zero, length >= 2", lambda t: len(t) >= 2 and t[:1] == b"0"),
               ("digit 1-9 first, length >= 2, all digits", lambda t: len(t) >= 2 and t[:1] == b"5" and b"a" not in t),
               ("a non-digit somewhere, length >= 2", lambda t: len(t) >= 2 and t[:1] != b"0" and b"a" in t)]
    results = {name: [0, None, 0] for name, _ in classes}
    for ln in range(0, 5):
        for tup in product(b"05a", repeat=ln):
            tok = bytes(tup)
            want = 1 if (tok == b"0" or (tok and tok[:1] != b"0" and b"a" not in tok)) else 0
            h = _TokPE(prog, tok)
            leaves = h.run(f, [("ptr", "token", ()), ("ptr", "idx", ())], pe.State())
            got = set()
            for lf in leaves:
                got.add(lf.value[1] if (lf.kind == "ret" and lf.value is not None and pe.is_const(lf.value)) else None)
            for name, pred in classes:
                if pred(tok):
                    r = results[name]
                    r[0] += 1
                    if None in got:
                        r[2] += 1
                    elif got != {want} and r[1] is None:
                        r[1] = (tok, got, want)
                    break
    for name, _ in classes:
        n, bad, unk = results[name]
        sig = "token class: " + name
        loc = f.entry.term.locstr()
        if bad:
            tok, got, want = bad
            chk.refuted(rid, f.name, sig, loc,
                        "is_valid_index returns %s for the token %r; RFC 6901 array indices are \"0\" or a digit string without a "
                        "leading zero, so it must return %d" % (sorted(got), tok.decode(), want))
        elif unk:
            chk.undecided(rid, f.name, sig, loc, "the return value could not be evaluated for %d token(s)" % unk)
        else:
            chk.proven(rid, f.name, sig, loc, "%d tokens decided as required" % n)
    chk.floor(rid, sum(r[0] for r in results.values()), 100, "tokens evaluated")


def r2(chk, prog, m):
    rid = "C12.R2"
    chk.rule(rid, "in pointer resolution no failing return is control-dependent on the null-ness of a node fetched from a "
                  "container (a JSON null member/element is a valid target); presence is decided by range / key lookup only")
    n = 0
    for f in [g for g in m.functions.values() if not g.is_decl]:
        P = Paths(f, prog)
        cfg = cfg_of(f)
        for i in f.instrs():
            if i.op != "call" or i.callee not in ("json_object_array_get_idx", "json_object_object_get_ex", "json_object_object_get"):
                continue
            n += 1
            chk.touched(f)
            regs = set()
            if i.callee == "json_object_object_get_ex":
                slot = P.path(i.ops[2])
                for ld in f.instrs():
                    if ld.op == "load" and P.path(ld.ops[0]) == slot:
                        regs |= derived_values(f, ld.res)[0]
            elif i.res:
                regs |= derived_values(f, i.res)[0]
            bad = None
            for br, nn, nl in null_tests(f, regs):
                if nn is nl:
                    continue
                # does the null edge lead only to failing returns while the other edge can succeed?
                if _edge_failure_only(f, br.block, nl) and not _edge_failure_only(f, br.block, nn):
                    bad = br
            sig = "%s(%s)" % (i.callee, ", ".join(P.path(a) for a in i.ops[:2]))
            if bad is not None:
                chk.refuted(rid, f.name, sig, bad.locstr(),
                            "the node returned by %s is tested for NULL and the NULL branch fails the lookup: a JSON null stored there "
                            "is reported as 'not found' although RFC 6901 makes it a valid target" % i.callee, {"test": bad.raw})
            else:
                chk.proven(rid, f.name, sig, i.locstr(), "no failing return depends on the fetched node being NULL")
    chk.floor(rid, n, 2, "container fetches in json_pointer.c")


def _edge_failure_only(f, src, dst):
    """all returns reachable through edge src->dst return a negative constant"""
    cfg = cfg_of(f)
    reach = cfg.reachable_from(dst)
    saw = False
    for b in reach:
        t = b.term
        if t.op != "ret":
            continue
        saw = True
        if not t.ops:
            return False
        v = t.ops[0]
        vals = []
        if v.kind == "reg" and v.v in f.defs and f.defs[v.v].op == "phi" and f.defs[v.v].block is b:
            for val, lab in f.defs[v.v].x["incoming"]:
                pb = f.blocks[lab]
                if pb in reach or (pb is src and dst is b):
                    vals.append(val)
        else:
            vals.append(v)
        for val in vals:
            if not (val.kind == "int" and val.v < 0):
                return False
    return saw


def _unescape_calls(f, P):
    out = []
    for i in f.instrs():
        if i.op == "call" and i.callee == "string_replace_all_occurrences_with_char":
            lit = _member_name(f, i)
            out.append((i, eval(lit) if lit else None, i.ops[2].v if i.ops[2].kind == "int" else None, P.path(i.ops[0])))
    return out


_unesc_cache = {}


def _is_unescape_routine(prog, g):
    """g(char *token) rewrites the token to its RFC 6901 decoding: evaluated on every token of up to 3 characters over ~ 0 1 / a"""
    from itertools import product
    if g is None or g.is_decl or len(g.params) != 1 or not g.params[0][0].endswith("*"):
        return False
    if g.name in _unesc_cache:
        return _unesc_cache[g.name]
    ok = True
    try:
        for ln in range(0, 4):
            for tup in product(b"~01/a", repeat=ln):
                tok = bytes(tup)
                want = tok.replace(b"~1", b"/").replace(b"~0", b"~")
                h = _UnescPE(prog, tok)
                leaves = h.run(g, [("ptr", "token", ())], pe.State())
                got = {h._cstr(lf.state, ("ptr", "token", ())) if lf.kind == "ret" else None for lf in leaves}
                if got != {want}:
                    ok = False
                    break
            if not ok:
                break
    except Exception:
        ok = False
    _unesc_cache[g.name] = ok
    return ok


def r3(chk, prog, m):
    rid = "C12.R3"
    chk.rule(rid, "every use of a reference token as an object member name (lookup or add) is preceded, on every path and on the "
                  "same buffer, by the replacement of \"~1\" with '/' and then of \"~0\" with '~', in line or through a routine that "
                  "is evaluated to be RFC 6901's decoding")
    n = 0
    for f in [g for g in m.functions.values() if not g.is_decl]:
        P = Paths(f, prog)
        cfg = cfg_of(f)
        un = _unescape_calls(f, P)
        for i in f.instrs():
            if i.op != "call" or i.callee not in ("json_object_object_get_ex", "json_object_object_add", "json_object_object_add_ex",
                                                    "json_object_object_del", "json_object_object_get"):
                continue
            n += 1
            chk.touched(f)
            key = P.path(i.ops[1])
            sig = "%s(%s, %s)" % (i.callee, P.path(i.ops[0]), key)
            first = [u for u in un if u[1] == "~1" and u[2] == 47 and u[3] == key and cfg.dominates(u[0], i)]
            second = [u for u in un if u[1] == "~0" and u[2] == 126 and u[3] == key and cfg.dominates(u[0], i)]
            routine = [u for u in f.instrs() if u.op == "call" and u.callee and u.callee != "string_replace_all_occurrences_with_char"
                       and u.ops and u.ops[0].kind == "reg" and P.path(u.ops[0]) == key and cfg.dominates(u, i)
                       and _is_unescape_routine(prog, prog.resolve(u.callee, f.module))]
            if routine:
                chk.proven(rid, f.name, sig, i.locstr(), "token passed through %s (evaluated: RFC 6901 decoding) before use as a member name" % routine[0].callee)
            elif first and second and cfg.dominates(first[0][0], second[0][0]):
                chk.proven(rid, f.name, sig, i.locstr(), "token unescaped (~1 -> '/', then ~0 -> '~') before use as a member name")
            elif first and second:
                chk.refuted(rid, f.name, sig, i.locstr(),
                            "\"~0\" is replaced before \"~1\": the token \"~01\" would become \"/\" instead of \"~1\" (RFC 6901 section 4 order)")
            else:
                chk.refuted(rid, f.name, sig, i.locstr(),
                            "the reference token is used as an object member name without being unescaped in this function: a pointer whose "
                            "token contains \"~1\" or \"~0\" addresses the member with the raw, escaped name", {"call": i.raw})
    chk.floor(rid, n, 2, "member-name uses of reference tokens")


def _written_params(prog, m):
    """(function name, param index) whose pointee is written (directly or through callees)"""
    written = {("string_replace_all_occurrences_with_char", 0)} if False else set()
    libc_w = {("memmove", 0), ("memcpy", 0), ("strcpy", 0), ("strcat", 0), ("llvm.memmove.p0i8.p0i8.i64", 0),
              ("llvm.memcpy.p0i8.p0i8.i64", 0), ("llvm.memset.p0i8.i64", 0), ("free", 0)}
    written |= libc_w
    derive_ret = {"strchr", "strrchr", "strstr"}     # result points into argument 0
    changed = True
    fns = [g for g in m.functions.values() if not g.is_decl]
    while changed:
        changed = False
        for f in fns:
            cfg = cfg_of(f)
            for k, (t, nm) in enumerate(f.params):
                if nm is None or not t.endswith("*") or (f.name, k) in written:
                    continue
                regs = {nm}
                work = [nm]
                hit = False
                while work and not hit:
                    r = work.pop()
                    for u in cfg.users(r):
                        if u.op in ("bitcast", "getelementptr", "phi", "select", "ptrtoint", "inttoptr") and u.res not in regs:
                            if u.op == "getelementptr" and not (u.ops[0].kind == "reg" and u.ops[0].v == r):
                                continue
                            regs.add(u.res)
                            work.append(u.res)
                        elif u.op == "store" and u.ops[1].kind == "reg" and u.ops[1].v == r:
                            hit = True
                        elif u.op == "call" and u.callee:
                            for ai, a in enumerate(u.ops):
                                if a.kind == "reg" and a.v == r:
                                    if (u.callee, ai) in written:
                                        hit = True
                                    if u.callee in derive_ret and ai == 0 and u.res and u.res not in regs:
                                        regs.add(u.res)
                                        work.append(u.res)
                if hit:
                    written.add((f.name, k))
                    changed = True
    return written


def r4(chk, prog, m):
    rid = "C12.R4"
    chk.rule(rid, "no public json_pointer_* function writes through (or frees) its caller-supplied pointer string, directly or "
                  "via a callee; every working copy (strdup / vasprintf) is freed on every path")
    written = _written_params(prog, m)
    n = 0
    for f in [g for g in m.functions.values() if not g.is_decl and not g.internal]:
        for k, (t, nm) in enumerate(f.params):
            if t != "i8*" or nm is None or "path" not in nm:
                continue
            n += 1
            chk.touched(f)
            sig = "parameter %s" % nm
            if (f.name, k) in written:
                chk.refuted(rid, f.name, sig, f.entry.term.locstr(),
                            "the caller's pointer string '%s' is written through (token splitting / unescaping must work on a private copy)" % nm)
            else:
                chk.proven(rid, f.name, sig, f.entry.term.locstr(), "never the target of a store, directly or through a callee")
    chk.floor(rid, n, 4, "public pointer-string parameters")
    chk.tables["written_params"] = sorted("%s#%d" % x for x in written if not x[0].startswith("llvm") and x[0] not in ("memmove", "memcpy", "strcpy", "strcat", "free"))
    own.rule_leaks(chk, prog, "C12.R4b", only_functions={g.name for g in m.functions.values() if not g.is_decl}, floor=3)


def r5(chk, prog, m):
    rid = "C12.R5"
    chk.rule(rid, "array element access in pointer resolution uses an index produced by is_valid_index on the success path and "
                  "compared against the array length before the fetch")
    f = m.functions.get("json_pointer_get_single_path")
    chk.require(f is not None, "json_pointer_get_single_path not found")
    chk.touched(f)
    P = Paths(f, prog)
    cfg = cfg_of(f)
    n = 0
    from ..flow import dominating_conditions
    for i in f.instrs():
        if i.op == "call" and i.callee == "json_object_array_get_idx":
            n += 1
            idxp = P.path(i.ops[1])
            conds = dominating_conditions(f, i.block)
            valid = False
            ranged = False
            arr = P.path(i.ops[0])

            def is_len(q):
                # the length of the fetched array: the public accessor, or - when the accessor is a plain field getter that the
                # path summary sees through - the length field of that array's backing list
                return bool(q) and ("json_object_array_length" in q or (arr is not None and q.startswith(arr + "->") and q.endswith("->length")))
            for c, tr in conds:
                if getattr(c, "op", None) != "icmp":
                    continue
                a, b = c.ops
                # is_valid_index(...) != 0
                for x in (a, b):
                    if x.kind == "reg" and x.v in f.defs and f.defs[x.v].op == "call" and f.defs[x.v].callee == "is_valid_index":
                        other = b if x is a else a
                        if other.kind == "int" and other.v == 0 and ((c.x["pred"] == "ne") == tr):
                            valid = True
                pa = P.path(a) if a.kind == "reg" else None
                pb = P.path(b) if b.kind == "reg" else None
                if pa == idxp and is_len(pb):
                    if (c.x["pred"], tr) in (("uge", False), ("ult", True)):
                        ranged = True
                if pb == idxp and is_len(pa):
                    # the same test written from the other side: length <= idx is false / length > idx is true
                    if (c.x["pred"], tr) in (("ule", False), ("ugt", True)):
                        ranged = True
            sig = "json_object_array_get_idx(%s, %s)" % (P.path(i.ops[0]), idxp)
            if valid and ranged:
                chk.proven(rid, f.name, sig, i.locstr(), "dominated by is_valid_index() != 0 and index < length")
            elif valid:
                # a length comparison the rule does not recognise is not evidence of a missing one, unless there is no comparison
                # with the length at all on the way to the fetch
                anylen = any(getattr(c, "op", None) == "icmp" and any(o.kind == "reg" and is_len(P.path(o)) for o in c.ops)
                             for c, tr in conds)
                if anylen:
                    chk.undecided(rid, f.name, sig, i.locstr(), "the index is compared with the array length in a form this rule does not classify")
                else:
                    chk.refuted(rid, f.name, sig, i.locstr(), "array fetch dominated by index validation but by no comparison of the index with the array length")
            else:
                chk.refuted(rid, f.name, sig, i.locstr(), "array fetch not dominated by index validation (%s) and range check (%s)" % (valid, ranged))
    chk.floor(rid, n, 1, "array fetches in pointer resolution")


def r6(chk, prog, m):
    rid = "C12.R6"
    chk.rule(rid, "the numeric value of an array index comes from the saturating library conversion or from arithmetic that cannot "
                  "wrap: an accumulation carried around a loop must be guarded, otherwise a long digit string aliases a small index")
    f = m.functions.get("is_valid_index")
    chk.require(f is not None, "is_valid_index not found")
    cfg = cfg_of(f)
    idxp = f.params[1][1]
    stores = [i for i in f.instrs() if i.op == "store" and i.ops[1].kind == "reg" and i.ops[1].v == idxp]
    chk.require(stores, "no store through the index out-parameter")
    headers = {h for _, h in cfg.back_edges()}
    n = 0
    for st in stores:
        n += 1
        v = st.ops[0]
        sig = "*idx = ..."
        verdict = _index_value_kind(f, cfg, headers, v, set())
        if verdict[0] == "ok":
            chk.proven(rid, f.name, sig, st.locstr(), verdict[1])
        elif verdict[0] == "wrap":
            chk.refuted(rid, f.name, sig, st.locstr(),
                        "the index is accumulated in a loop (%s) with no guard against wrap-around: a canonical decimal token of 20 or more "
                        "digits denotes a number >= 2^64, which RFC 6901 evaluation cannot resolve, but here it is reduced modulo 2^64 and "
                        "addresses a small index" % verdict[1], {"store": st.raw})
        else:
            chk.undecided(rid, f.name, sig, st.locstr(), verdict[1])
    chk.floor(rid, n, 2, "stores of the index value")


def _index_value_kind(f, cfg, headers, v, seen):
    if v.kind == "int":
        return ("ok", "constant")
    if v.kind != "reg" or v.v in seen:
        return ("unknown", "cyclic or non-register value")
    seen = seen | {v.v}
    d = f.defs.get(v.v)
    if d is None:
        return ("unknown", "parameter")
    if d.op == "call":
        if d.callee in ("strtoull", "strtoul", "strtoumax"):
            return ("ok", "%s saturates at the type maximum on overflow" % d.callee)
        return ("unknown", "result of %s" % d.callee)
    if d.op in ("sext", "zext", "trunc"):
        return _index_value_kind(f, cfg, headers, d.ops[0], seen)
    if d.op == "load" and d.type == "i8":
        return ("ok", "a single character")
    if d.op in ("add", "sub") and all((o.kind == "int") or _index_value_kind(f, cfg, headers, o, seen)[0] == "ok" for o in d.ops):
        # character arithmetic: bounded by the character range
        if not any(_has_loop_phi(f, headers, o, set()) for o in d.ops):
            return ("ok", "character arithmetic")
    if d.op == "phi" or _has_loop_phi(f, headers, v, set()):
        # recurrence through a loop header: look for a multiplication by a constant >= 2 in the cycle and for a guard
        phi = _find_loop_phi(f, headers, v, set())
        if phi is None:
            return ("unknown", "merged value")
        mul = _recurrence_mul(f, phi)
        if mul is None:
            return ("unknown", "loop-carried value without a multiplicative update")
        guarded = False
        for u in cfg.users(phi.res):
            if u.op == "icmp" and u.x["pred"] in ("ugt", "uge", "ult", "ule", "sgt", "sge", "slt", "sle"):
                guarded = True
        for u in cfg.users(mul.res):
            if u.op == "icmp":
                guarded = True
        if any(i.op == "call" and i.callee and "overflow" in i.callee for i in f.instrs()):
            guarded = True
        if guarded:
            return ("unknown", "accumulation with a comparison on the accumulator: tightness of the guard not decided")
        return ("wrap", "x = x * %d + digit" % mul.ops[1].v if mul.ops[1].kind == "int" else "x = x * k + digit")
    return ("unknown", d.raw[:60])


def _has_loop_phi(f, headers, v, seen):
    return _find_loop_phi(f, headers, v, seen) is not None


def _find_loop_phi(f, headers, v, seen):
    if v.kind != "reg" or v.v in seen or len(seen) > 20:
        return None
    seen.add(v.v)
    d = f.defs.get(v.v)
    if d is None:
        return None
    if d.op == "phi" and d.block in headers:
        return d
    if d.op in ("phi", "add", "sub", "mul", "shl", "sext", "zext", "trunc"):
        for o in d.ops:
            r = _find_loop_phi(f, headers, o, seen)
            if r is not None:
                return r
    return None


def _recurrence_mul(f, phi):
    """a mul/shl by a constant >= 2 of the phi's value that flows back into the phi"""
    cfg = cfg_of(f)
    for u in cfg.users(phi.res):
        if u.op == "mul" and any(o.kind == "int" and abs(o.v) >= 2 for o in u.ops):
            if u.ops[1].kind != "int":
                u.ops = [u.ops[1], u.ops[0]]
            return u
        if u.op == "shl" and u.ops[1].kind == "int" and u.ops[1].v >= 1:
            return u
    return None


# ---------------------------------------------------------------------------
# R7 the unescape routine computes RFC 6901's decoding on every token over the relevant characters
class _UnescPE(StrPE):
    def __init__(self, prog, token):
        super().__init__(prog, max_leaves=50, max_steps=100000)
        self.token = token
        self.loop_widen = 1000
        self.max_visits = 64

    def should_inline(self, g, instr):
        return g.internal

    def init_mem(self, state, base, path, t):
        if base == "token":
            el, fl = pe.fields_of(path)
            if not fl and isinstance(el, int) and 0 <= el <= len(self.token):
                b = (self.token + b"\0")[el]
                return pe.C(b if b < 128 else b - 256)
        return pe.TOP

    def call_model(self, state, frame, i, args):
        return self.libc_string_model(state, frame, i, args)


def _unescape_fn(m, prog=None):
    """the routine that turns a reference token into a member name: the function whose callees replace "~1" and "~0"; failing
    that, any one-argument function of the module that is evaluated to be RFC 6901's decoding on short tokens"""
    for f in m.functions.values():
        if f.is_decl:
            continue
        lits = [_member_name(f, i) for i in f.instrs() if i.op == "call"]
        lits = [l for l in lits if l]
        if "'~1'" in lits and "'~0'" in lits and len(f.params) == 1:
            return f
    if prog is not None:
        cands = [f for f in m.functions.values() if not f.is_decl and len(f.params) == 1 and f.params[0][0] == "i8*"]
        cands.sort(key=lambda f: (0 if "unescape" in f.name else 1, f.name))
        for f in cands:
            if _is_unescape_routine(prog, f):
                return f
    return None


def r7(chk, prog, m):
    from itertools import product
    rid = "C12.R7"
    chk.rule(rid, "the token unescape routine, partially evaluated on every token of length 0..5 over the characters '~' '0' '1' '/' 'a' "
                  "(all that the routine distinguishes), yields RFC 6901's decoding: each \"~1\" of the token becomes '/', then each "
                  "\"~0\" becomes '~', every escape is decoded once and produced characters are never decoded again")
    f = _unescape_fn(m, prog)
    if f is None:
        # no dedicated routine is recognisable (by its replacements or by evaluation): the uses of tokens as member names are
        # decided one by one by the member-name rule; nothing to say about "the" routine
        chk.undecided(rid, m.srcname, "unescape routine", "%s:1:1" % m.srcname,
                      "no function of %s is recognisable as the token unescape routine (none replaces both \"~1\" and \"~0\", and no "
                      "one-argument string function evaluates to RFC 6901's decoding)" % m.srcname)
        return
    chk.touched(f)
    n = 0
    bad = None
    und = 0
    for ln in range(0, 6):
        for tup in product(b"~01/a", repeat=ln):
            tok = bytes(tup)
            want = tok.replace(b"~1", b"/").replace(b"~0", b"~")
            h = _UnescPE(prog, tok)
            st = pe.State()
            leaves = h.run(f, [("ptr", "token", ())], st)
            n += 1
            got = set()
            for lf in leaves:
                if lf.kind != "ret":
                    got.add(None)
                    continue
                got.add(h._cstr(lf.state, ("ptr", "token", ())))
            if len(got) != 1 or None in got:
                und += 1
                continue
            (g,) = got
            if g != want and bad is None:
                bad = (tok, g, want)
    sig = "unescape(token)"
    if bad is not None:
        tok, g, want = bad
        chk.refuted(rid, f.name, sig, f.entry.term.locstr(),
                    "the token %r is unescaped to %r; RFC 6901 section 4 gives %r" % (tok.decode(), g.decode("latin-1"), want.decode()),
                    {"token": tok.decode(), "got": g.decode("latin-1"), "rfc6901": want.decode()})
    elif und:
        chk.undecided(rid, f.name, sig, f.entry.term.locstr(), "%d tokens could not be evaluated" % und)
    else:
        chk.proven(rid, f.name, sig, f.entry.term.locstr(), "%d tokens decoded as RFC 6901 requires" % n)
    chk.floor(rid, n, 3000, "tokens evaluated")


# ---------------------------------------------------------------------------
# R8 member names by evaluation: what string reaches the object API for a given reference token
NAME_APIS = {"json_object_object_get_ex": 1, "json_object_object_add": 1, "json_object_object_add_ex": 1,
             "json_object_object_del": 1, "json_object_object_get": 1, "lh_table_lookup_ex": 1, "lh_table_lookup_entry": 1}
RESOLVERS = ("json_pointer_get_internal",)


def rfc6901_decode(tok):
    return tok.replace(b"~1", b"/").replace(b"~0", b"~")


class _NamePE(StrPE):
    """one function that turns a reference token into a member name, run on one concrete token.  conv 'token': the function's
    string parameter (or the key recorded in its resolution-result parameter) is the token itself; conv 'pointer': the string
    parameter is the one-token pointer "/<token>" and the resolver is answered with a result whose key points into it"""
    model_alloc = True

    def __init__(self, prog, fn, token, conv):
        super().__init__(prog, max_leaves=60, max_steps=400000)
        self.fn0 = fn
        self.token = token
        self.conv = conv
        self.text = token if conv == "token" else b"/" + token
        self.loop_widen = 100000
        self.max_visits = 1500
        self.captured = []
        self.opaque = []
        self.mods = {fn.module}
        for nm in ("json_pointer.c", "json_patch.c"):
            mm = prog.module(nm)
            if mm is not None:
                self.mods.add(mm)

    def should_inline(self, g, instr):
        if g.internal:
            return True
        # string helpers of the pointer / patch modules with external linkage (the unescape routine)
        return g.module in self.mods and not g.is_decl and g.name not in NAME_APIS and g.name not in RESOLVERS and \
            all(t in ("i8*", "i8", "i32", "i64") for t, _ in g.params) and g is not self.fn0

    def _result_fields(self):
        for mm in self.prog.modules:
            fn = mm.struct_fields("%struct.json_pointer_get_result")
            if fn:
                return fn
        return None

    def init_mem(self, state, base, path, t):
        el, fl = pe.fields_of(path)
        if base == "text":
            if not fl and isinstance(el, int) and 0 <= el <= len(self.text):
                b = (self.text + b"\0")[el]
                return pe.C(b if b < 128 else b - 256)
            return pe.TOP
        if base == "errno" and not path:
            return pe.C(0)
        if base == "resp" and not path:
            return ("ptr", "parent", ())
        if base == "jp":
            names = self._result_fields()
            idx = None
            q = [x for x in path if x != ("i", 0)]
            if not q:
                idx = 0
            elif len(q) == 1 and isinstance(q[0], int):
                idx = q[0]
            elif len(q) == 1 and isinstance(q[0], tuple) and q[0][0] == "f":
                idx = q[0][2]
            if names is None or idx is None or idx >= len(names):
                return pe.TOP
            return self._result_value(names[idx])
        return pe.TOP

    def _result_value(self, name):
        if name == "parent":
            return ("ptr", "parent", ())
        if name == "obj":
            return ("ptr", "child", ())
        if name == "key_in_parent":
            return ("ptr", "text", (("i", 0 if self.conv == "token" else 1),))
        if name == "index_in_parent":
            return pe.C(0)
        return pe.TOP

    def call_model(self, state, frame, i, args):
        nm = i.callee
        if nm in NAME_APIS:
            k = NAME_APIS[nm]
            if len(i.ops) > k and strip_casts(i.ops[k]).kind in ("global", "cexpr"):
                return None           # a fixed member name of the patch document
            key = self._cstr(state, args[k]) if len(args) > k and args[k][0] == "ptr" else None
            self.captured.append((nm, key, i))
            return "STOP"
        if nm == "__errno_location":
            return ("ptr", "errno", ())
        if nm in ("json_object_is_type", "json_object_get_type"):
            if args and args[0] == ("ptr", "parent", ()):
                if nm == "json_object_get_type":
                    return pe.C(4)
                return pe.C(int(pe.is_const(args[1]) and args[1][1] == 4)) if pe.is_const(args[1]) else None
            return None
        if nm in RESOLVERS and self.conv == "pointer" and len(args) >= 3 and args[2][0] == "ptr":
            # the resolver is answered from the script only for the scripted pointer string
            if args[1] != ("ptr", "text", ()):
                return None
            names = self._result_fields()
            if names is None:
                return None
            for idx, fname in enumerate(names):
                self.store(state, self._gep(args[2], [pe.C(0), pe.C(idx)], "%struct.json_pointer_get_result"), self._result_value(fname))
            return pe.C(0)
        r = self.libc_string_model(state, frame, i, args)
        if r is not None:
            return r
        if nm and not nm.startswith("llvm."):
            self.opaque.append(nm)
        return None


def _name_carriers(f):
    return [k for k, (t, nm) in enumerate(f.params) if t in ("i8*", "%struct.json_pointer_get_result*")]


def _name_args(f, carrier):
    """arguments for one run with parameter number `carrier` carrying the token"""
    args = []
    for k, (t, nm) in enumerate(f.params):
        if k == carrier:
            args.append(("ptr", "text", ()) if t == "i8*" else ("ptr", "jp", ()))
        elif t == "%struct.json_object*":
            args.append(("ptr", "parent", ()))
        elif t == "%struct.json_object**":
            args.append(("ptr", "resp", ()))
        elif t.endswith("*"):
            args.append(("ptr", "arg_" + (nm or "x"), ()))
        else:
            args.append(pe.TOP)
    return args


def _boundary_lengths(f):
    """lengths at which a fixed-size buffer or a length comparison in the function could bite"""
    out = set()
    for i in f.instrs():
        if i.op == "alloca":
            from ..ir import array_elem
            ae = array_elem(i.x.get("type", "") if isinstance(i.x, dict) else "") if False else None
        if i.op == "alloca" and (i.type or "").startswith("["):
            try:
                n = int((i.type or "")[1:].split("x")[0])
            except ValueError:
                continue
            if 2 <= n <= 300:
                out |= {n - 2, n - 1, n, n + 1}
        if i.op == "icmp":
            for o in i.ops:
                if o.kind == "int" and 8 <= o.v <= 300:
                    out |= {o.v - 1, o.v, o.v + 1}
    return sorted(x for x in out if x >= 0)


def r8(chk, prog, m, rid):
    from itertools import product
    chk.rule(rid, "member names by evaluation: every function of the module that hands a string to the object API (lookup, add, delete) "
                  "and takes a reference token - directly, as the key of a resolution result, or as a one-token pointer - is run on "
                  "every token of up to 4 characters over '~' '0' '1' '/' 'a' and on tokens whose length straddles each buffer size / "
                  "length constant in the function; the string that reaches the object API must be the RFC 6901 decoding of the token "
                  "(whole, escapes decoded once, ~1 before ~0).  A function whose token interface cannot be calibrated on the plain "
                  "token \"ab\" is undecided")
    toks = []
    for ln in range(0, 6 if chk.tier == "thorough" else 5):
        toks += [bytes(t) for t in product(b"~01/a", repeat=ln)]
    n = 0
    nf = 0
    for f in [g for g in m.functions.values() if not g.is_decl]:
        apis = [i for i in f.instrs() if i.op == "call" and i.callee in NAME_APIS and
                not (len(i.ops) > NAME_APIS[i.callee] and strip_casts(i.ops[NAME_APIS[i.callee]]).kind in ("global", "cexpr"))]
        if not apis:
            continue          # only fixed member names ("op", "path", "value"): not a use of a reference token
        nf += 1
        chk.touched(f)
        sig = "member name reaching %s" % "/".join(sorted({i.callee for i in apis}))
        conv = None
        carrier = None
        why = "no parameter carries a token"
        for cr in _name_carriers(f):
            for cv in ("token", "pointer"):
                h = _NamePE(prog, f, b"ab", cv)
                try:
                    h.run(f, _name_args(f, cr), pe.State())
                except Exception as e:       # budget
                    why = str(e)
                    continue
                if h.captured and all(k == b"ab" for _, k, _ in h.captured):
                    conv, carrier = cv, cr
                    break
                why = "on the token \"ab\" the object API is %s%s" % (
                    "not reached" if not h.captured else "given %r" % [k for _, k, _ in h.captured],
                    (" (calls outside the model: %s)" % ", ".join(sorted(set(h.opaque)))) if h.opaque else "")
            if conv:
                break
        if conv is None:
            chk.undecided(rid, f.name, sig, apis[0].locstr(), "token interface not calibrated: " + why)
            continue
        extra = []
        for ln in _boundary_lengths(f):
            extra.append(b"a" * ln)
            if ln >= 2:
                extra.append(b"a" * (ln - 2) + b"~1")
        bad = None
        und = None
        cnt = 0
        for tk in toks + extra:
            if conv == "pointer" and b"/" in tk:
                continue          # more than one token
            h = _NamePE(prog, f, tk, conv)
            try:
                h.run(f, _name_args(f, carrier), pe.State())
            except Exception as e:
                und = und or (tk, str(e))
                continue
            n += 1
            cnt += 1
            want = rfc6901_decode(tk)
            if not h.captured:
                und = und or (tk, "the object API is not reached")
                continue
            for api, key, ins in h.captured:
                if key is None:
                    und = und or (tk, "the string handed to %s is not concrete" % api)
                elif key != want and bad is None:
                    bad = (tk, api, key, want, ins)
        if bad:
            tk, api, key, want, ins = bad
            show = lambda b: (b.decode("latin1") if len(b) <= 24 else "%s...(%d bytes)" % (b[:12].decode("latin1"), len(b)))
            chk.refuted(rid, f.name, sig, ins.locstr(),
                        "for the reference token %r the member name handed to %s is %r; RFC 6901 names the member %r"
                        % (show(tk), api, show(key), show(want)), {"token": tk.decode("latin1")})
        elif und:
            chk.undecided(rid, f.name, sig, apis[0].locstr(), "token %r: %s" % (und[0].decode("latin1")[:24], und[1]))
        else:
            chk.proven(rid, f.name, sig, apis[0].locstr(), "RFC 6901 decoding of the token on %d tokens (%s in)" % (cnt, conv))
    return nf, n


# ---------------------------------------------------------------------------
# R9 every entry point refuses a pointer that does not begin with '/'
class _EntryPE(StrPE):
    """a public entry of the pointer module on one concrete pointer string and an object root; the formatted variants get the
    string as the result of their vasprintf"""
    model_alloc = True

    def __init__(self, prog, fn, text):
        super().__init__(prog, max_leaves=80, max_steps=200000)
        self.fn0 = fn
        self.text = text
        self.loop_widen = 100000
        self.max_visits = 400
        self.lookups = []
        self.opaque = []

    def should_inline(self, g, instr):
        return (g.internal or g.module is self.fn0.module) and not g.is_decl and g.name not in NAME_APIS and g is not self.fn0

    def init_mem(self, state, base, path, t):
        el, fl = pe.fields_of(path)
        if base == "text":
            if not fl and isinstance(el, int) and 0 <= el <= len(self.text):
                b = (self.text + b"\0")[el]
                return pe.C(b if b < 128 else b - 256)
            return pe.TOP
        if base == "errno" and not path:
            return pe.C(0)
        if base == "resp" and not path:
            return ("ptr", "root", ())
        return pe.TOP

    def call_model(self, state, frame, i, args):
        nm = i.callee
        if nm in NAME_APIS or nm in ("json_object_array_get_idx", "json_object_array_length", "json_object_array_put_idx",
                                     "json_object_array_add", "json_object_array_insert_idx"):
            self.lookups.append((nm, i))
            return "STOP"
        if nm == "__errno_location":
            return ("ptr", "errno", ())
        if nm in ("vasprintf", "asprintf") and args and args[0][0] == "ptr":
            state.nfresh += 1
            p = ("ptr", "heap#%d" % state.nfresh, ())
            self._write(state, p, self.text + b"\0")
            self.store(state, args[0], p)
            return pe.C(len(self.text))
        if nm in ("json_object_is_type", "json_object_get_type"):
            if args and args[0] == ("ptr", "root", ()):
                if nm == "json_object_get_type":
                    return pe.C(4)
                return pe.C(int(args[1][1] == 4)) if pe.is_const(args[1]) else None
            return None
        if nm in ("json_object_put", "json_object_get"):
            return args[0] if nm == "json_object_get" else pe.C(0)
        if (nm or "").startswith("llvm.va_"):
            return pe.C(0)
        r = self.libc_string_model(state, frame, i, args)
        if r is not None:
            return r
        if nm and not nm.startswith("llvm."):
            self.opaque.append(nm)
        return None


def r9(chk, prog, m):
    from ..cfg import CallGraph
    rid = "C12.R9"
    chk.rule(rid, "every public function of the pointer module that takes a pointer string (or formats one) and can reach a member "
                  "lookup / an array access refuses a non-empty pointer that does not begin with '/': evaluated on \"a\", \"ab/c\", "
                  "\"0\" with an object root, it returns a failure and performs no lookup (the formatted variants are given the string "
                  "as the result of their vasprintf)")
    cg = CallGraph(prog)
    sinks = set(NAME_APIS) | {"json_object_array_get_idx"}
    n = 0
    for f in [g for g in m.functions.values() if not g.is_decl and not g.internal]:
        if not any(t == "i8*" for t, _ in f.params):
            continue
        reach = cg.reachable([f])
        if not any(isinstance(g, str) and g[4:] in sinks or (not isinstance(g, str) and g.name in sinks) for r_ in reach for g in cg.callees[r_]):
            continue
        chk.touched(f)
        n += 1
        sig = "malformed pointer at " + f.name
        bad = und = None
        for tx in (b"a", b"ab/c", b"0"):
            args = []
            used = False
            for t, nm in f.params:
                if t == "i8*" and not used:
                    args.append(("ptr", "text", ()))
                    used = True
                elif t == "%struct.json_object*":
                    args.append(("ptr", "root", ()))
                elif t == "%struct.json_object**":
                    args.append(("ptr", "resp", ()) if not used else ("ptr", "outp", ()))
                elif t.endswith("*"):
                    args.append(("ptr", "arg_" + (nm or "x"), ()))
                else:
                    args.append(pe.TOP)
            h = _EntryPE(prog, f, tx)
            try:
                leaves = h.run(f, args, pe.State())
            except Exception as e:
                und = und or "%r: %s" % (tx.decode(), e)
                continue
            if h.lookups:
                api, ins = h.lookups[0]
                bad = bad or (ins, "%s(\"%s\") reaches %s: a pointer that does not start with '/' is not refused but resolved "
                                   "(its first character is skipped or taken as part of a token)" % (f.name, tx.decode(), api))
                continue
            rets = [lf for lf in leaves if lf.kind == "ret"]
            if not rets or any(lf.value is None or not pe.is_const(lf.value) for lf in rets) or len(rets) != len(leaves):
                und = und or "%r: the evaluation does not end in concrete returns%s" % (
                    tx.decode(), (" (calls outside the model: %s)" % ", ".join(sorted(set(h.opaque)))) if h.opaque else "")
            elif any(lf.value[1] == 0 for lf in rets):
                bad = bad or (f.entry.term, "%s(\"%s\") returns success for a pointer that does not start with '/'" % (f.name, tx.decode()))
        if bad:
            chk.refuted(rid, f.name, sig, bad[0].locstr(), bad[1])
        elif und:
            chk.undecided(rid, f.name, sig, f.entry.term.locstr(), und)
        else:
            chk.proven(rid, f.name, sig, f.entry.term.locstr(), "refused without a lookup on 3 malformed pointers")
    chk.floor(rid, n, 3, "public entry points taking a pointer string")


# ---------------------------------------------------------------------------
# R10 a member that holds JSON null is found by every lookup entry
class _NullTargetPE(_EntryPE):
    """like _EntryPE, but the member lookup is answered: the key "a" is present in the root object and holds JSON null"""

    def call_model(self, state, frame, i, args):
        nm = i.callee
        if nm in ("json_object_object_get_ex", "lh_table_lookup_ex") and len(args) >= 3:
            key = self._cstr(state, args[1]) if args[1][0] == "ptr" else None
            self.lookups.append((nm, key))
            if key == b"a":
                if args[2][0] == "ptr":
                    self.store(state, args[2], pe.C(0))
                return pe.C(1)
            if args[2][0] == "ptr":
                self.store(state, args[2], pe.C(0))
            return pe.C(0)
        if nm == "json_object_object_get":
            return pe.C(0)
        return super().call_model(state, frame, i, args)


def r10_null_target(chk, prog, m):
    from ..cfg import CallGraph
    rid = "C12.R10"
    chk.rule(rid, "a member that is present and holds JSON null is a valid target of every lookup entry: each public function of the "
                  "module that resolves a pointer for reading, evaluated on \"/a\" with the root's member a present and null, reports "
                  "success (the printf variant is given the string as the result of its vasprintf)")
    cg = CallGraph(prog)
    n = 0
    for f in [g for g in m.functions.values() if not g.is_decl and not g.internal]:
        ptypes = [t for t, _ in f.params]
        if "i8*" not in ptypes:
            continue
        # reading entries: no value to store (exactly one node parameter) and somewhere to put the result
        if not ptypes or ptypes[0] != "%struct.json_object*" or ptypes.count("%struct.json_object*") != 1 or \
                not any(t in ("%struct.json_object**", "%struct.json_pointer_get_result*") for t in ptypes):
            continue
        reach = cg.reachable([f])
        if not any((isinstance(g, str) and g[4:] in NAME_APIS) or (not isinstance(g, str) and g.name in NAME_APIS) for r_ in reach for g in cg.callees[r_]):
            continue
        chk.touched(f)
        n += 1
        args = []
        used = False
        for t, nm in f.params:
            if t == "i8*" and not used:
                args.append(("ptr", "text", ()))
                used = True
            elif t == "%struct.json_object*":
                args.append(("ptr", "root", ()))
            elif t.endswith("*"):
                args.append(("ptr", "out_" + (nm or "x"), ()))
            else:
                args.append(pe.TOP)
        h = _NullTargetPE(prog, f, b"/a")
        sig = "null member through " + f.name
        try:
            leaves = h.run(f, args, pe.State())
        except Exception as e:
            chk.undecided(rid, f.name, sig, f.entry.term.locstr(), str(e))
            continue
        rets = [lf for lf in leaves if lf.kind == "ret"]
        if not rets or len(rets) != len(leaves) or any(lf.value is None or not pe.is_const(lf.value) for lf in rets) or \
                not any(k == b"a" for _, k in h.lookups):
            chk.undecided(rid, f.name, sig, f.entry.term.locstr(), "the evaluation does not end in concrete returns after looking up \"a\"%s"
                          % ((" (calls outside the model: %s)" % ", ".join(sorted(set(h.opaque)))) if h.opaque else ""))
        elif any(lf.value[1] != 0 for lf in rets):
            chk.refuted(rid, f.name, sig, f.entry.term.locstr(),
                        "%s(\"/a\") fails (returns %d) although the member a exists and holds JSON null: null is a value, not an "
                        "absent member" % (f.name, [lf.value[1] for lf in rets if lf.value[1] != 0][0]))
        else:
            chk.proven(rid, f.name, sig, f.entry.term.locstr(), "success with the null value")
    chk.floor(rid, n, 2, "lookup entry points")


# ---------------------------------------------------------------------------
# R11 an array index resolves exactly when it is below the length
class _ArrayTokPE(_EntryPE):
    def call_model(self, state, frame, i, args):
        nm = i.callee
        if nm in ("json_object_is_type", "json_object_get_type") and args and args[0] == ("ptr", "root", ()):
            if nm == "json_object_get_type":
                return pe.C(5)
            return pe.C(int(args[1][1] == 5)) if pe.is_const(args[1]) else None
        if nm == "json_object_array_length":
            return pe.C(self.n)
        if nm == "json_object_array_get_idx":
            if not pe.is_const(args[1]):
                self.opaque.append(nm)
                return None
            k = args[1][1] % (1 << 64)
            self.lookups.append((nm, k))
            return ("ptr", "elem%d" % k, ()) if k < self.n else pe.C(0)
        if nm in ("strtoull", "strtoul", "strtoll", "strtol") and args and args[0][0] == "ptr":
            t = self._cstr(state, args[0])
            if t is None:
                return None
            j = 0
            while j < len(t) and 48 <= t[j] <= 57:
                j += 1
            if len(args) > 1 and args[1][0] == "ptr":
                self.store(state, args[1], self._at(args[0], j))
            return pe.C(int(t[:j]) if j else 0)
        return super().call_model(state, frame, i, args)


def r11_array_range(chk, prog, m):
    rid = "C12.R11"
    chk.rule(rid, "an array index resolves exactly when it is below the array's length: every function of the module that fetches an "
                  "array element for a reference token, evaluated on arrays of 0, 1 and 2 elements with the tokens \"0\", \"1\", \"2\", "
                  "succeeds for index < length and fails otherwise (in particular for every index into an empty array)")
    n = 0
    for f in [g for g in m.functions.values() if not g.is_decl]:
        if not any(i.op == "call" and i.callee == "json_object_array_get_idx" for i in f.instrs()):
            continue
        if not any(t == "i8*" for t, _ in f.params) or not any(t == "%struct.json_object*" for t, _ in f.params):
            continue
        chk.touched(f)
        bad = und = None
        for length in (0, 1, 2):
            for tok in (b"0", b"1", b"2"):
                args = []
                used = False
                for t, nm in f.params:
                    if t == "i8*" and not used:
                        args.append(("ptr", "text", ()))
                        used = True
                    elif t == "%struct.json_object*":
                        args.append(("ptr", "root", ()))
                    elif t.endswith("*"):
                        args.append(("ptr", "out_" + (nm or "x"), ()))
                    else:
                        args.append(pe.TOP)
                h = _ArrayTokPE(prog, f, tok)
                h.n = length
                try:
                    leaves = h.run(f, args, pe.State())
                except Exception as e:
                    und = und or str(e)
                    continue
                n += 1
                rets = [lf for lf in leaves if lf.kind == "ret"]
                if not rets or len(rets) != len(leaves) or any(lf.value is None or not pe.is_const(lf.value) for lf in rets):
                    und = und or "token %r, length %d: the evaluation does not end in concrete returns%s" % (
                        tok.decode(), length, (" (calls outside the model: %s)" % ", ".join(sorted(set(h.opaque)))) if h.opaque else "")
                    continue
                idx = int(tok)
                ok = all((lf.value[1] == 0) == (idx < length) for lf in rets)
                if not ok and bad is None:
                    bad = "%s resolves the token \"%s\" in an array of %d element(s) with result %s; RFC 6901 evaluation %s" % (
                        f.name, tok.decode(), length, sorted({lf.value[1] for lf in rets}),
                        "succeeds" if idx < length else "fails (no such element)")
        sig = "array index range in " + f.name
        if bad:
            chk.refuted(rid, f.name, sig, f.entry.term.locstr(), bad)
        elif und:
            chk.undecided(rid, f.name, sig, f.entry.term.locstr(), und)
        else:
            chk.proven(rid, f.name, sig, f.entry.term.locstr(), "index < length on 9 (length, token) pairs")
    chk.floor(rid, n, 5, "(length, token) evaluations")
