"""C14 - parse/serialize are locale-independent and leave the caller's locale untouched.

R1 install/restore pairing of the thread (or process) locale in json_tokener_parse_ex, and release of every
   locale object it creates (typestate / must-pass-through on the CFG)
R2 inventory of LC_NUMERIC-sensitive libc calls reachable from the parse and serialize entry points: each is
   inside the C-locale region (parser) or followed by the ','->'.' fix-up (serializer)
"""
from collections import deque

from ..ir import load_program, strip_casts
from ..cfg import cfg_of, CallGraph
from ..flow import Paths
from .. import own

NUMERIC_SENSITIVE = {"strtod", "strtof", "strtold", "atof", "sscanf", "fscanf", "scanf", "vsscanf", "localeconv",
                     "strfmon", "__isoc99_sscanf", "__strtod_internal"}
PRINTF_FAMILY = {"snprintf": 2, "sprintf": 1, "vsnprintf": 2, "printf": 0, "fprintf": 1, "asprintf": 1, "vasprintf": 1,
                 "sprintbuf": 1, "dprintf": 1}


def paths_to_ret_avoiding(fn, start, is_stop):
    """BFS over instructions from just after `start`; returns a ret instr reachable without executing an
    instruction for which is_stop(i) holds, or None"""
    seen = set()
    dq = deque([(start.block, start.idx + 1)])
    while dq:
        b, k = dq.popleft()
        stopped = False
        for i in b.instrs[k:]:
            if is_stop(i):
                stopped = True
                break
            if i.op == "ret":
                return i
        if stopped:
            continue
        for s in b.succs:
            if s not in seen:
                seen.add(s)
                dq.append((s, 0))
    return None


def run(chk):
    variants = ["default"] + (["setlocale"] if chk.tier == "thorough" else [])
    for v in variants:
        prog = load_program(v)
        chk.variant(prog)
        r1(chk, prog, v)
        r2(chk, prog, v)
        if v == "default":
            with chk.shared():
                # the bytes produced depend on the locale in force *during the call* only: the library keeps no process-wide state
                # besides its listed configuration globals (shared with C18) - a separator or format sampled once and cached
                # would be such a state
                from . import c18
                c18.r3(chk, prog, v)
    chk.undecided_clauses += [
        "byte-identical results under a synthesized comma locale (needs execution under such a locale)",
        "behaviour of libc's uselocale/newlocale themselves",
    ]


def r1(chk, prog, variant):
    rid = "C14.R1"
    chk.rule(rid, "after the parser installs the C numeric locale, every path to a return restores the locale read at entry; "
                  "every locale object / saved locale string the parser creates is released or consumed on every path")
    f = prog.fn("json_tokener_parse_ex")
    chk.require(f is not None, "json_tokener_parse_ex not found")
    chk.touched(f)
    P = Paths(f, prog)
    calls = [i for i in f.instrs() if i.op == "call" and i.callee in ("uselocale", "setlocale")]
    chk.require(calls, "no uselocale/setlocale call in json_tokener_parse_ex for variant %s" % variant)
    n = 0
    if any(c.callee == "uselocale" for c in calls):
        # entry read: uselocale(NULL)
        reads = [c for c in calls if c.callee == "uselocale" and c.ops[0].kind == "null"]
        installs = [c for c in calls if c.callee == "uselocale" and c.ops[0].kind != "null"]
        chk.require(len(reads) >= 1, "no uselocale(NULL) read of the caller's locale")
        rd = reads[0]
        from ..flow import local_copies
        old_regs = local_copies(f, P, rd.res)     # the value read at entry, also after a round trip through a local slot / struct
        cfg = cfg_of(f)
        # an install is a uselocale(x) where x is not the saved old locale
        real_installs = [c for c in installs if not (c.ops[0].kind == "reg" and c.ops[0].v in old_regs)]
        restores = [c for c in installs if c.ops[0].kind == "reg" and c.ops[0].v in old_regs]
        chk.require(real_installs, "no install of the C locale found")
        for inst in real_installs:
            n += 1
            sig = "uselocale(%s)" % P.path(inst.ops[0])
            # the old locale must have been read before the install
            if not cfg.dominates(rd, inst):
                chk.refuted(rid, f.name, sig, inst.locstr(), "the caller's locale is not read before the C locale is installed", variant=variant)
                continue
            bad = paths_to_ret_avoiding(f, inst, lambda i: i in restores)
            if bad is not None:
                chk.refuted(rid, f.name, sig, inst.locstr(),
                            "a return at %s is reachable after installing the C locale without restoring the caller's locale "
                            "(uselocale(<locale read at entry>))" % bad.locstr(), {"install": inst.raw, "return": bad.locstr()}, variant=variant)
            else:
                chk.proven(rid, f.name, sig, inst.locstr(),
                           "every path from the install to a return passes uselocale(old) (%d restore site(s))" % len(restores), variant=variant)
            # the installed locale is the one newlocale() built with the LC_NUMERIC mask and "C"
            d = f.defs.get(inst.ops[0].v) if inst.ops[0].kind == "reg" else None
            if d is not None and d.op != "call":
                # the installed value may have been kept in a local slot since newlocale() returned it
                for c2 in f.instrs():
                    if c2.op == "call" and c2.callee == "newlocale" and c2.res is not None and inst.ops[0].v in local_copies(f, P, c2.res):
                        d = c2
                        break
            n += 1
            ok = False
            if d is not None and d.op == "call" and d.callee == "newlocale":
                name = strip_casts(d.ops[1])
                g = None
                while name.kind == "cexpr" and name.args:
                    name = name.args[0]
                if name.kind == "global":
                    g = f.module.globals.get(name.v)
                ok = g is not None and g.bytes == b"C\0" and d.ops[0].kind == "int" and (d.ops[0].v & (1 << 1)) != 0
            # newlocale() modifies or releases the object it is given as base: that must be the parser's own duplicate (or none),
            # never the caller's locale as read at entry
            if d is not None and d.op == "call" and d.callee == "newlocale" and len(d.ops) > 2:
                from ..heapuse import _may_derive_from
                n += 1
                if _may_derive_from(f, d.ops[2], set(old_regs)):
                    chk.refuted(rid, f.name, "base of newlocale", d.locstr(),
                                "the base object handed to newlocale() may be the caller's own locale (the value uselocale(NULL) "
                                "returned) instead of a duplicate: newlocale() changes or frees its base, so a thread-specific locale "
                                "installed by the caller is modified / released by the parse", variant=variant)
                else:
                    chk.proven(rid, f.name, "base of newlocale", d.locstr(), "the base is not the caller's locale object", variant=variant)
            if ok:
                chk.proven(rid, f.name, "installed locale", inst.locstr(), 'installed locale is newlocale(mask including LC_NUMERIC, "C", ...)', variant=variant)
            else:
                chk.refuted(rid, f.name, "installed locale", inst.locstr(), 'installed locale is not newlocale(LC_NUMERIC_MASK, "C", ...)', variant=variant)
    else:
        # setlocale fallback: setlocale(LC_NUMERIC, "C") install; setlocale(LC_NUMERIC, saved) restore
        sets = [c for c in calls if c.callee == "setlocale"]
        query = [c for c in sets if c.ops[1].kind == "null"]
        installs = []
        restores = []
        for c in sets:
            a = c.ops[1]
            if a.kind == "null":
                continue
            a0 = strip_casts(a)
            root = a0
            while root.kind == "cexpr" and root.args:
                root = root.args[0]
            if root.kind == "global":
                installs.append(c)
            else:
                restores.append(c)
        chk.require(installs, "no setlocale(LC_NUMERIC, \"C\") install found")
        for inst in installs:
            n += 1
            sig = "setlocale(LC_NUMERIC, \"C\")"
            bad = paths_to_ret_avoiding(f, inst, lambda i: i in restores)
            if bad is not None:
                chk.refuted(rid, f.name, sig, inst.locstr(),
                            "a return at %s is reachable after installing the C locale without restoring the saved one" % bad.locstr(), variant=variant)
            else:
                chk.proven(rid, f.name, sig, inst.locstr(), "every path from the install to a return passes setlocale(LC_NUMERIC, saved)", variant=variant)
        # the restore argument must be the strdup'ed copy of the queried name
        for rs in restores:
            n += 1
            p = P.path(rs.ops[1])
            ok = "strdup" in p or p.startswith("phi:")
            (chk.proven if ok else chk.refuted)(rid, f.name, "restore argument", rs.locstr(),
                                                "restore uses the saved copy (%s)" % p, variant=variant)
    # locale objects / saved strings created by the parser: ownership typestate
    eng = own.Engine(prog, f)
    ress = [r for r in eng.acquisitions() if r.acq.callee in ("duplocale", "newlocale", "strdup") and
            (r.acq.callee != "strdup" or variant == "setlocale")]
    for r in ress:
        if r.acq.callee == "strdup" and "setlocale" not in eng.P.path(r.acq.ops[0]):
            continue
        n += 1
        problems, exits = eng.run(r, ress)
        sig = "%s(%s)" % (r.acq.callee, ", ".join(eng.P.path(a) for a in r.acq.ops))
        leaks = [(ret, t) for ret, st in exits for t in st if (t if isinstance(t, str) else t[0]) in ("O", "P", "A", "M")]
        if leaks or problems:
            where = leaks[0][0] if leaks else problems[0].instr
            chk.refuted(rid, f.name, sig, r.acq.locstr(), "%s is not released on the path returning at %s" % (r.label, where.locstr()), variant=variant)
        else:
            chk.proven(rid, f.name, sig, r.acq.locstr(), "released or consumed on all %d return paths" % len(exits), variant=variant)
    chk.floor(rid + "." + variant, n, 3, "install/restore/locale-object obligations")


def _format_has_float(mod, v):
    """True/False if the format literal has a floating conversion; None if the format is not a literal"""
    v = strip_casts(v) if v.kind == "cexpr" else v
    while v.kind == "cexpr" and v.args:
        v = v.args[0]
    if v.kind != "global":
        return None
    g = mod.globals.get(v.v)
    if g is None or g.bytes is None:
        return None
    s = g.bytes
    i = 0
    while i < len(s):
        if s[i] == 0x25:
            j = i + 1
            while j < len(s) and chr(s[j]) in "0123456789.-+ #*lhzjtLq'":
                j += 1
            if j < len(s) and chr(s[j]) in "fFeEgGaA":
                return True
            i = j
        i += 1
    return False


def r2(chk, prog, variant):
    rid = "C14.R2"
    chk.rule(rid, "every LC_NUMERIC-sensitive libc call reachable from the parse entry point executes inside the parser's "
                  "C-locale region; every floating-point printf-family call reachable from the serialize entry point has its "
                  "output passed through the ','->'.' fix-up before it is appended")
    cg = CallGraph(prog, indirect_targets=lambda i: _serializer_targets(prog, i))
    pe = prog.fn("json_tokener_parse_ex")
    cfg = cfg_of(pe)
    P = Paths(pe, prog)
    calls = [i for i in pe.instrs() if i.op == "call" and i.callee in ("uselocale", "setlocale")]
    from ..flow import local_copies
    olds = set()
    for c in calls:
        if c.callee == "uselocale" and c.ops[0].kind == "null" and c.res is not None:
            olds |= local_copies(pe, P, c.res)
    installs = [c for c in calls if (c.callee == "uselocale" and c.ops[0].kind != "null" and not P.path(c.ops[0]).startswith("call:uselocale")
                                     and not (c.ops[0].kind == "reg" and c.ops[0].v in olds))
                or (c.callee == "setlocale" and c.ops[1].kind != "null" and strip_casts(c.ops[1]).kind != "reg")]
    restores = [c for c in calls if c not in installs and not (c.ops[0].kind == "null" or (c.callee == "setlocale" and c.ops[1].kind == "null"))]
    chk.require(installs and restores, "install/restore sites not found for the region computation")
    inst = installs[0]
    n = 0

    leaf_cache = {}

    def leaves_of(g, stack):
        """numeric-sensitive leaf call instructions reachable inside g (transitively)"""
        if id(g) in leaf_cache:
            return leaf_cache[id(g)]
        if id(g) in stack:
            return []
        stack = stack | {id(g)}
        out = []
        for i in g.instrs():
            if i.op != "call" or not i.callee:
                continue
            nm = i.callee
            if nm in NUMERIC_SENSITIVE:
                out.append(i)
            elif nm in PRINTF_FAMILY and nm != "sprintbuf":
                k = PRINTF_FAMILY[nm]
                hf = _format_has_float(g.module, i.ops[k]) if k < len(i.ops) else None
                has_double_arg = any(a.type == "double" for a in i.ops)
                if hf or (hf is None and has_double_arg):
                    out.append(i)
            else:
                h = prog.resolve(nm, g.module)
                if h is not None:
                    out += leaves_of(h, stack)
        leaf_cache[id(g)] = out
        return out

    def sensitive_in(fn, seen):
        """(call site in fn, leaf) for every call site in fn that reaches a numeric-sensitive libc call"""
        for i in fn.instrs():
            if i.op != "call" or not i.callee:
                continue
            nm = i.callee
            h = prog.resolve(nm, fn.module)
            if h is None:
                if nm in NUMERIC_SENSITIVE:
                    yield i, i
                elif nm in PRINTF_FAMILY and nm != "sprintbuf":
                    k = PRINTF_FAMILY[nm]
                    hf = _format_has_float(fn.module, i.ops[k]) if k < len(i.ops) else None
                    if hf or (hf is None and any(a.type == "double" for a in i.ops)):
                        yield i, i
            elif h is not fn:
                for leaf in leaves_of(h, frozenset([id(fn)])):
                    yield i, leaf
    # parser side
    for top, leaf in sensitive_in(pe, {id(pe)}):
        n += 1
        chk.touched(leaf.fn)
        sig = "%s via %s" % (leaf.callee, top.callee)
        inside = cfg.dominates(inst, top) and all(top.block not in cfg.reachable_from(r.block) or
                                                    (top.block is r.block and top.idx < r.idx) for r in restores)
        if inside:
            chk.proven(rid, pe.name, sig, top.locstr(), "locale-sensitive %s at %s runs between the install and the restore" % (leaf.callee, leaf.locstr()), variant=variant)
        else:
            chk.refuted(rid, pe.name, sig, top.locstr(),
                        "locale-sensitive %s (%s) is reachable outside the C-locale region: its result depends on the caller's LC_NUMERIC"
                        % (leaf.callee, leaf.locstr()), variant=variant)
    # the static helpers that contain the leaf must have no caller outside parse_ex's region
    cgd = CallGraph(prog)
    for top, leaf in sensitive_in(pe, {id(pe)}):
        g = leaf.fn
        if g is pe:
            continue
        others = [c for c in cgd.callers[g] if c is not pe and not _only_called_from(cgd, c, pe)]
        n += 1
        if g.internal and not others:
            chk.proven(rid, g.name, "callers of " + g.name, leaf.locstr(), "static helper called only from inside the parser's region", variant=variant)
        else:
            chk.refuted(rid, g.name, "callers of " + g.name, leaf.locstr(),
                        "%s contains a locale-sensitive call and is callable from outside the C-locale region (%s)" % (g.name, [c.name for c in others] or "exported"), variant=variant)
    # serializer side
    entry = prog.fn("json_object_to_json_string_ext")
    chk.require(entry is not None, "json_object_to_json_string_ext not found")
    reach = cg.reachable([entry])
    for g in sorted(reach, key=lambda x: x.name):
        for i in g.instrs():
            if i.op != "call" or i.callee not in PRINTF_FAMILY or i.callee == "sprintbuf":
                continue
            k = PRINTF_FAMILY[i.callee]
            hf = _format_has_float(g.module, i.ops[k]) if k < len(i.ops) else None
            has_double_arg = any(a.type == "double" for a in i.ops)
            if not (hf or (hf is None and has_double_arg)):
                continue
            n += 1
            chk.touched(g)
            Pg = Paths(g, prog)
            buf = Pg.path(i.ops[0])
            sig = "%s(%s, ..., double)" % (i.callee, buf)
            # fix-up: strchr(buf, ',') whose non-null result is stored '.'; must be passed on every path from the
            # call to any append of buf
            fix = None
            for c in g.instrs():
                if c.op == "call" and c.callee == "strchr" and Pg.path(c.ops[0]) == buf and c.ops[1].kind == "int" and c.ops[1].v == 44:
                    for u in cfg_of(g).users(c.res):
                        pass
                    for s in g.instrs():
                        if s.op == "store" and s.ops[0].kind == "int" and s.ops[0].v == 46 and Pg.path(s.ops[1]) == Pg.path(_reg(c)):
                            fix = (c, s)
            appends = [c for c in g.instrs() if c.op == "call" and c.callee in ("printbuf_memappend",) and Pg.path(c.ops[1]) == buf]
            if fix is None:
                # not the strchr idiom: decide by evaluating the emitter with a conversion result that has a decimal comma
                ev = _fixup_by_evaluation(prog, g)
                if ev is True:
                    chk.proven(rid, g.name, sig, i.locstr(),
                               "evaluated with the conversion results '5,25', '-5,5e+05' and '5': a decimal comma is emitted as '.'", variant=variant)
                elif ev is None:
                    chk.undecided(rid, g.name, sig, i.locstr(), "no strchr(buf, ',') fix-up and the emitter could not be evaluated", variant=variant)
                else:
                    chk.refuted(rid, g.name, sig, i.locstr(),
                                "floating-point text produced under the caller's locale is appended without a ','->'.' fix-up "
                                "(evaluated: the conversion result %r is emitted as %r)" % ev, variant=variant)
                continue
            bad = None
            cfg_g = cfg_of(g)
            for ap in appends:
                # every path from the snprintf to the append passes the strchr fix-up
                hit = _reach_instr_avoiding(g, i, ap, fix[0])
                if hit:
                    bad = ap
            if bad is not None:
                chk.refuted(rid, g.name, sig, i.locstr(), "the append at %s is reachable from the formatting call without passing the ','->'.' fix-up" % bad.locstr(), variant=variant)
            else:
                chk.proven(rid, g.name, sig, i.locstr(),
                           "every path from the formatting call to the %d append(s) of the buffer passes strchr(buf, ',') with '.' stored through a non-null result" % len(appends), variant=variant)
    chk.floor(rid + "." + variant, n, 3, "locale-sensitive call sites")


def _fixup_by_evaluation(prog, g):
    """True / (text, emitted) / None"""
    from . import c02
    from .. import pe as _pe
    if len(g.params) != 5:
        return None
    try:
        for txt, want in ((b"5,25", b"5.25"), (b"-5,5e+05", b"-5.5e+05"), (b"5", None)):
            h = c02.FmtPE(prog, txt, 0)
            leaves = h.run(g, [("ptr", "jso", ()), ("ptr", "pb", ()), _pe.C(0), _pe.C(0), _pe.C(0)], _pe.State())
            outs = set()
            for lf in leaves:
                if lf.kind != "ret" or not any(e[0] == "formatted" for e in lf.state.trace):
                    continue
                o = [e for e in lf.state.trace if e[0] == "out"]
                outs.add(tuple(e[1] for e in o))
            if len(outs) != 1:
                return None
            (seq,) = outs
            if len(seq) != 1 or seq[0] is None:
                return None
            if b"," in seq[0] or (want is not None and seq[0] != want):
                return (txt.decode(), seq[0].decode("latin-1"))
        return True
    except Exception:
        return None


def _reg(c):
    from ..ir import Val
    return Val("reg", c.type, c.res)


def _reach_instr_avoiding(fn, start, target, avoid):
    """is `target` reachable from just after `start` without executing `avoid`?  Edges are pruned when the branch condition is
    decided by constants that phi nodes picked up on this very path (e.g. an inlined helper's `return -1` followed by the
    caller's `if (rc < 0) return`), so correlated tests do not produce infeasible paths."""
    def ev(v, env, depth=0):
        if v.kind == "int":
            return v.v
        if v.kind == "null":
            return 0
        if v.kind != "reg" or depth > 6:
            return None
        if v.v in env:
            return env[v.v]
        d = fn.defs.get(v.v)
        if d is None:
            return None
        if d.op in ("zext", "sext", "trunc", "bitcast"):
            return ev(d.ops[0], env, depth + 1)
        if d.op == "icmp":
            x, y = ev(d.ops[0], env, depth + 1), ev(d.ops[1], env, depth + 1)
            if x is None or y is None:
                return None
            bits = 64
            p = d.x["pred"]
            if p[0] == "u":
                x, y = x % (1 << bits), y % (1 << bits)
            return int({"eq": x == y, "ne": x != y, "slt": x < y, "sle": x <= y, "sgt": x > y, "sge": x >= y,
                        "ult": x < y, "ule": x <= y, "ugt": x > y, "uge": x >= y}[p])
        if d.op in ("xor", "and", "or"):
            x, y = ev(d.ops[0], env, depth + 1), ev(d.ops[1], env, depth + 1)
            if x is None or y is None:
                return None
            return {"xor": x ^ y, "and": x & y, "or": x | y}[d.op]
        return None

    seen = set()
    dq = deque([(start.block, start.idx + 1, None, ())])
    while dq:
        b, k, prev, envt = dq.popleft()
        env = dict(envt)
        if k == 0 and prev is not None:
            for i in b.instrs:
                if i.op != "phi":
                    break
                env.pop(i.res, None)
                for val, lab in i.x["incoming"]:
                    if lab == prev.name:
                        c = ev(val, env) if val.kind != "reg" or val.v in env else env.get(val.v)
                        if c is not None:
                            env[i.res] = c
        stop = False
        for i in b.instrs[k:]:
            if i is avoid:
                stop = True
                break
            if i is target:
                return True
        if stop:
            continue
        t = b.term
        succs = list(b.succs)
        if t.op == "br" and len(t.x["targets"]) == 2 and t.ops and t.x["targets"][0] != t.x["targets"][1]:
            c = ev(t.ops[0], env)
            if c is not None:
                succs = [fn.blocks[t.x["targets"][0] if c else t.x["targets"][1]]]
        for s_ in succs:
            key = (s_.name, b.name, tuple(sorted(env.items())))
            if key not in seen and len(seen) < 20000:
                seen.add(key)
                dq.append((s_, 0, b, tuple(sorted(env.items()))))
    return False


def _only_called_from(cg, c, pe):
    """every call chain into c starts from pe (c is a static helper used only by the parser)"""
    seen = set()
    work = [c]
    while work:
        x = work.pop()
        if x in seen:
            continue
        seen.add(x)
        if x is pe:
            continue
        if not x.internal:
            return False
        callers = cg.callers[x]
        if not callers:
            return False
        work.extend(callers)
    return True


_ser_cache = {}


def _serializer_targets(prog, i):
    """indirect calls through _to_json_string resolve to every function whose address is stored as a serializer"""
    key = id(prog)
    if key not in _ser_cache:
        tg = []
        for f in prog.all_functions():
            if f.name.endswith("_to_json_string") or f.name.endswith("to_json_string_default") or "to_json_string" in f.name:
                if len(f.params) == 4:
                    tg.append(f)
        _ser_cache[key] = tg
    c = i.x.get("callee")
    if c is None or c.kind != "reg":
        return []
    p = Paths(i.fn, prog).path(c)
    if p.endswith("_to_json_string"):
        return _ser_cache[key]
    return []
