"""C20 - file-descriptor I/O is complete and exact under arbitrary short reads and writes.

R1 write loop dataflow: the count returned by write() is tested for failure (failing return with a message) and otherwise
   advances the very position from which the next call's buffer and remaining count are computed; success is returned only
   when nothing remains
R2 read loop: every chunk read is appended with the count just returned and a checked result; a negative count fails with a
   message; the text is parsed once, after the loop, over the accumulated bytes, with the caller's depth limit
R3 every failing return for a read error, parse error or unopenable file is preceded by the error-message setter
R4 the print buffer, the parser and the descriptor are released on every path (ownership typestate)
"""
from ..ir import load_program
from ..cfg import cfg_of
from ..flow import Paths, derived_values
from .. import own, pe


def run(chk):
    prog = load_program("default")
    chk.variant(prog)
    m = prog.module("json_util.c")
    chk.require(m is not None, "json_util.c not in the build")
    r1(chk, prog, m)
    r2(chk, prog, m)
    _confirm_shape_rules(chk, prog, m)
    r3(chk, prog, m)
    r5(chk, prog, m)
    r6(chk, prog, m)
    r7(chk, prog, m)
    own.rule_leaks(chk, prog, "C20.R4", only_functions={"json_object_from_fd_ex", "json_object_from_file", "json_object_to_file_ext",
                                                         "_json_object_to_fd", "json_object_to_fd"}, floor=4)
    chk.undecided_clauses += [
        "scripted counts are evaluated on a 6-byte text / at most 4 reads with results from {-1, 0, 1 or 3, full}; other sizes follow from loop uniformity",
        "a serialization failure inside json_object_to_fd returns -1 without a message (not one of the failure classes the property lists)",
    ]


def _strip(f, v):
    """look through integer casts"""
    while v.kind == "reg" and v.v in f.defs and f.defs[v.v].op in ("sext", "zext", "trunc", "bitcast"):
        v = f.defs[v.v].ops[0]
    return v


def r1(chk, prog, m):
    rid = "C20.R1"
    chk.rule(rid, "write loop: buffer = text + pos and count = size - pos use the same position; the returned count is tested (< 0 fails with "
                  "a message) and added to that position; the loop runs while pos < size and success is returned only from its exit")
    f = m.functions.get("_json_object_to_fd")
    chk.require(f is not None and not f.is_decl, "_json_object_to_fd not found")
    chk.touched(f)
    cfg = cfg_of(f)
    P = Paths(f, prog)
    ws = [i for i in f.instrs() if i.op == "call" and i.callee == "write"]
    chk.require(len(ws) == 1, "expected one write() call, found %d" % len(ws))
    w = ws[0]
    n = 0

    def ob(ok, sig, msg_ok, msg_bad, loc=None):
        nonlocal n
        n += 1
        (chk.proven if ok else chk.refuted)(rid, f.name, sig, (loc or w).locstr(), msg_ok if ok else msg_bad)
    # position phi
    buf = f.defs.get(w.ops[1].v) if w.ops[1].kind == "reg" else None
    cnt = f.defs.get(_strip(f, w.ops[2]).v) if _strip(f, w.ops[2]).kind == "reg" else None
    pos_b = _strip(f, buf.ops[1]) if buf is not None and buf.op == "getelementptr" else None
    pos_c = _strip(f, cnt.ops[1]) if cnt is not None and cnt.op == "sub" else None
    size_c = _strip(f, cnt.ops[0]) if cnt is not None and cnt.op == "sub" else None
    same = pos_b is not None and pos_c is not None and pos_b.kind == "reg" and pos_c.kind == "reg" and pos_b.v == pos_c.v
    ob(same, "buffer and count use one position", "write(fd, text + pos, size - pos) with the same pos",
       "the buffer offset and the remaining count are not computed from the same position: bytes are repeated or skipped after a short write")
    phi = f.defs.get(pos_b.v) if same else None
    is_phi = phi is not None and phi.op == "phi"
    # text base: the serializer's result; size: strlen of it
    base_ok = buf is not None and P.path(buf.ops[0]).startswith("call:json_object_to_json_string_ext")
    size_def = f.defs.get(size_c.v) if size_c is not None and size_c.kind == "reg" else None
    size_ok = size_def is not None and size_def.op == "call" and size_def.callee == "strlen" and P.path(size_def.ops[0]).startswith("call:json_object_to_json_string_ext")
    ob(base_ok and size_ok, "what is written", "the serialization of the object and its strlen", "the written text or its size is not the object's serialization")
    # advance by the returned count
    adv = False
    if is_phi:
        for v, lab in phi.x["incoming"]:
            d = f.defs.get(v.v) if v.kind == "reg" else None
            if d is not None and d.op == "add":
                ops = [_strip(f, o) for o in d.ops]
                if any(o.kind == "reg" and o.v == phi.res for o in ops) and any(o.kind == "reg" and o.v == w.res for o in ops):
                    adv = True
        init0 = any(v.kind == "int" and v.v == 0 for v, lab in phi.x["incoming"])
    else:
        init0 = False
    ob(adv and init0, "position advances by the returned count", "pos starts at 0 and becomes pos + ret after each write",
       "the position is not advanced by exactly the count write() returned: a short write loses or repeats bytes")
    # failure test on the result
    regs, cons = derived_values(f, w.res)
    fail_ok = False
    for u, r in cons:
        if u.op == "icmp" and u.x["pred"] == "slt" and u.ops[1].kind == "int" and u.ops[1].v == 0:
            for br in cfg.users(u.res):
                if br.op == "br" and len(br.x["targets"]) == 2:
                    fb = f.blocks[br.x["targets"][0]]
                    has_msg = any(i.op == "call" and i.callee == "_json_c_set_last_err" for i in fb.instrs)
                    reaches_fail = _returns_only(f, fb, lambda v: v.kind == "int" and v.v < 0)
                    if has_msg and reaches_fail:
                        fail_ok = True
    ob(fail_ok, "write failure", "ret < 0 sets the error message and returns -1", "a failing write() is not turned into a failing return with a message")
    # loop condition and success
    loop_ok = False
    if is_phi:
        from ..own import _icmp
        for u in cfg.users(phi.res):
            if u.op != "icmp":
                continue
            a, b = _strip(f, u.ops[0]), _strip(f, u.ops[1])
            ids = [x.v if x.kind == "reg" else None for x in (a, b)]
            if size_c is None or set(ids) != {phi.res, size_c.v}:
                continue

            def val(x, pos, size):
                return pos if x.kind == "reg" and x.v == phi.res else size
            # the loop must continue exactly while pos < size: evaluate the condition on representative pairs
            table = {}
            for pos, size in ((0, 5), (4, 5), (5, 5)):
                table[(pos, size)] = _icmp(u.x["pred"], val(a, pos, size), val(b, pos, size))
            for br in cfg.users(u.res):
                if br.op == "br" and len(br.x["targets"]) == 2:
                    cont_when = table[(0, 5)]
                    if table[(4, 5)] == cont_when and table[(5, 5)] != cont_when:
                        exitb = f.blocks[br.x["targets"][1] if cont_when else br.x["targets"][0]]
                        if _returns_only(f, exitb, lambda v: v.kind == "int" and v.v == 0):
                            loop_ok = True
    # success (0) is returned only through the loop exit
    zero_preds = _ret_preds(f, lambda v: v.kind == "int" and v.v == 0)
    only_exit = loop_ok and all(cfg.dominates_block(phi.block, b) for b in zero_preds)
    ob(loop_ok and only_exit, "completion", "the loop runs while pos < size; 0 is returned only after it", "success can be returned while bytes remain unwritten")
    chk.floor(rid, n, 5, "write-loop obligations")


def _ret_preds(f, pred):
    out = []
    for b in f.blocks.values():
        t = b.term
        if t.op != "ret" or not t.ops:
            continue
        v = t.ops[0]
        if v.kind == "reg" and v.v in f.defs and f.defs[v.v].op == "phi" and f.defs[v.v].block is b:
            for val, lab in f.defs[v.v].x["incoming"]:
                if pred(val):
                    out.append(f.blocks[lab])
        elif pred(v):
            out.append(b)
    return out


def _returns_only(f, blk, pred):
    """every return reachable from blk (flowing through it) returns a value satisfying pred"""
    cfg = cfg_of(f)
    reach = cfg.reachable_from(blk)
    ok = False
    for b in reach:
        t = b.term
        if t.op != "ret" or not t.ops:
            continue
        v = t.ops[0]
        if v.kind == "reg" and v.v in f.defs and f.defs[v.v].op == "phi" and f.defs[v.v].block is b:
            for val, lab in f.defs[v.v].x["incoming"]:
                if f.blocks[lab] in reach or f.blocks[lab] is blk:
                    if not pred(val):
                        return False
                    ok = True
        else:
            if not pred(v):
                return False
            ok = True
    return ok


def r2(chk, prog, m):
    rid = "C20.R2"
    chk.rule(rid, "read loop: each chunk is appended from the read buffer with the count read() just returned and the append's result is "
                  "checked; a negative count fails; the parse happens once after the loop on the accumulated text with the caller's depth")
    f = m.functions.get("json_object_from_fd_ex")
    chk.require(f is not None and not f.is_decl, "json_object_from_fd_ex not found")
    chk.touched(f)
    cfg = cfg_of(f)
    P = Paths(f, prog)
    rd = [i for i in f.instrs() if i.op == "call" and i.callee == "read"]
    chk.require(len(rd) == 1, "expected one read() call")
    r = rd[0]
    n = 0

    def ob(ok, sig, a, b, loc=None):
        nonlocal n
        n += 1
        (chk.proven if ok else chk.refuted)(rid, f.name, sig, (loc or r).locstr(), a if ok else b)
    aps = [i for i in f.instrs() if i.op == "call" and i.callee == "printbuf_memappend"]
    ap = aps[0] if aps else None
    ok = ap is not None and P.path(ap.ops[1]) == P.path(r.ops[1]) and _strip(f, ap.ops[2]).kind == "reg" and _strip(f, ap.ops[2]).v == r.res
    ob(ok, "append what was read", "printbuf_memappend(pb, buf, ret) with read()'s buffer and count",
       "the bytes appended are not exactly the bytes read() just returned (buffer or count differs): short reads corrupt the text")
    # the append runs only when ret > 0, and its failure fails the call
    from ..flow import dominating_conditions
    gt0 = ap is not None and any(getattr(c, "op", None) == "icmp" and _strip(f, c.ops[0]).kind == "reg" and _strip(f, c.ops[0]).v == r.res and
                                 ((c.x["pred"] == "sgt" and tr and c.ops[1].kind == "int" and c.ops[1].v == 0)) for c, tr in dominating_conditions(f, ap.block))
    ob(gt0, "loop condition", "chunks are appended while read() returns > 0", "the append is not guarded by ret > 0")
    from .. import flow
    fates = flow.result_fates(f, ap) if ap is not None else set()
    ob("test" in fates, "append result", "checked", "the result of the append is dropped: an out-of-memory truncates the text silently")
    # negative count fails with message
    neg_ok = False
    regs, cons = derived_values(f, r.res)
    for u, rr in cons:
        if u.op == "icmp" and u.x["pred"] == "slt" and u.ops[1].kind == "int" and u.ops[1].v == 0:
            for br in cfg.users(u.res):
                if br.op == "br" and len(br.x["targets"]) == 2:
                    fb = f.blocks[br.x["targets"][0]]
                    if any(i.op == "call" and i.callee == "_json_c_set_last_err" for i in fb.instrs) and _returns_only(f, fb, lambda v: v.kind == "null"):
                        neg_ok = True
    ob(neg_ok, "read error", "ret < 0 sets the message and returns NULL", "a failing read() is not reported")
    # the loop is left only when read() returned <= 0 (end of input / error) or through a failing return
    body = None
    for a_, h in cfg.back_edges():
        bset = {h}
        work = [a_]
        while work:
            b = work.pop()
            if b in bset:
                continue
            bset.add(b)
            work.extend(b.preds)
        if r.block in bset:
            body = bset
    exits_ok = body is not None
    bad_exit = None
    if body is not None:
        for b in body:
            for s_ in b.succs:
                if s_ in body:
                    continue
                # allowed: the false edge of (ret > 0); or an edge into code that only returns NULL
                t = b.term
                allowed = False
                if t.op == "br" and t.ops and t.ops[0].kind == "reg":
                    d = f.defs.get(t.ops[0].v)
                    if d is not None and d.op == "icmp" and _strip(f, d.ops[0]).kind == "reg" and _strip(f, d.ops[0]).v == r.res \
                            and d.ops[1].kind == "int" and d.ops[1].v == 0 and d.x["pred"] == "sgt" and s_.name == t.x["targets"][1]:
                        allowed = True
                if not allowed and _returns_only(f, s_, lambda v: v.kind == "null"):
                    allowed = True
                if not allowed:
                    exits_ok = False
                    bad_exit = t
    ob(exits_ok, "loop exits", "the read loop ends only when read() returns <= 0 or on a failing return",
       "the read loop has another way out (%s): it can stop while the descriptor still has data, e.g. after a short read, and "
       "parse a truncated text" % (bad_exit.locstr() if bad_exit is not None else "no loop found"), bad_exit)
    # parse once after the loop
    ps = [i for i in f.instrs() if i.op == "call" and i.callee == "json_tokener_parse_ex"]
    headers = {h for _, h in cfg.back_edges()}
    in_loop = False
    if ps:
        for a, h in cfg.back_edges():
            body = {h}
            work = [a]
            while work:
                b = work.pop()
                if b in body:
                    continue
                body.add(b)
                work.extend(b.preds)
            if ps[0].block in body:
                in_loop = True
    pargs = ps and P.path(ps[0].ops[1]).endswith("->buf") and P.path(ps[0].ops[2]).endswith("->bpos") and cfg.dominates(r, ps[0])
    ob(len(ps) == 1 and not in_loop and bool(pargs), "single parse of the whole text", "json_tokener_parse_ex(tok, pb->buf, pb->bpos) once, after the loop",
       "the accumulated text is not parsed exactly once after the read loop over (buf, bpos)")
    chk.floor(rid, n, 5, "read-loop obligations")


def _sets_message_on_failure(m, g, seen=None):
    """every failing return of g is preceded on its path by the message setter"""
    seen = seen or set()
    if g is None or g.is_decl or g.name in seen:
        return False
    setters = {i.block for i in g.instrs() if i.op == "call" and i.callee == "_json_c_set_last_err"}
    fail = (lambda v: v.kind == "null") if g.ret_type.endswith("*") else (lambda v: v.kind == "int" and v.v < 0)
    for pb in _ret_preds(g, fail):
        work, vis = [g.entry], set()
        while work:
            b = work.pop()
            if b in vis or b in setters:
                continue
            vis.add(b)
            if b is pb:
                return False
            work.extend(b.succs)
    return True


def _failure_of_message_setting_callee(prog, m, f, pb):
    """the block is reached only when a call to a function of this module that reports its own failures returned a failure"""
    from ..flow import dominating_conditions
    for cnd, tr in dominating_conditions(f, pb):
        if getattr(cnd, "op", None) != "icmp":
            continue
        a, b = cnd.ops
        if a.kind != "reg":
            continue
        d = f.defs.get(a.v)
        hops = 0
        while d is not None and d.op in ("sext", "zext", "trunc", "bitcast") and hops < 4:
            a = d.ops[0]
            d = f.defs.get(a.v) if a.kind == "reg" else None
            hops += 1
        if d is None or d.op != "call" or not d.callee:
            continue
        g = m.functions.get(d.callee)
        if g is None or g.is_decl:
            continue      # only failures of this module's own functions are propagated; they answer for their own messages
        p = cnd.x["pred"]
        failed = (b.kind == "int" and ((p == "slt" and b.v == 0 and tr) or (p == "sge" and b.v == 0 and not tr) or (p == "eq" and b.v == -1 and tr)
                                       or (p == "ne" and b.v == 0 and tr))) or (b.kind == "null" and (p == "eq") == tr)
        if failed:
            return True
    return False


def r3(chk, prog, m):
    rid = "C20.R3"
    chk.rule(rid, "every failing return (NULL / -1) caused by a read error, a parse error, an allocation failure or an unopenable file is "
                  "preceded on its path by a call of the error-message setter")
    n = 0
    for fname in ("json_object_from_fd_ex", "json_object_from_file", "json_object_to_file_ext", "json_object_to_fd"):
        f = m.functions.get(fname)
        chk.require(f is not None and not f.is_decl, fname + " not found")
        chk.touched(f)
        cfg = cfg_of(f)
        setters = {i.block for i in f.instrs() if i.op == "call" and i.callee == "_json_c_set_last_err"}
        fail = (lambda v: v.kind == "null") if f.ret_type.endswith("*") else (lambda v: v.kind == "int" and v.v < 0)
        preds = _ret_preds(f, fail)
        for pb in preds:
            n += 1
            # reachable from entry without passing a setter block?
            seen = set()
            work = [f.entry]
            silent = False
            while work:
                b = work.pop()
                if b in seen or b in setters:
                    continue
                seen.add(b)
                if b is pb:
                    silent = True
                    break
                work.extend(b.succs)
            sig = "failing return via %s" % pb.name
            if silent and _failure_of_message_setting_callee(prog, m, f, pb):
                chk.proven(rid, fname, sig, pb.term.locstr(), "propagates the failure of one of this module's own functions (which answers for its own message)")
            elif silent:
                chk.refuted(rid, fname, sig, pb.term.locstr(), "a failing return is reachable without any error message having been set")
            else:
                chk.proven(rid, fname, sig, pb.term.locstr(), "message set on every path to this failing return")
    # a NULL result of the parse is reported with a message before it is returned
    f = m.functions["json_object_from_fd_ex"]
    from ..flow import null_tests
    ps = [i for i in f.instrs() if i.op == "call" and i.callee == "json_tokener_parse_ex"]
    ok = False
    if ps:
        regs, _ = derived_values(f, ps[0].res)
        for br, nn, nl in null_tests(f, regs):
            if any(i.op == "call" and i.callee == "_json_c_set_last_err" for i in nl.instrs):
                ok = True
    n += 1
    (chk.proven if ok else chk.refuted)(rid, f.name, "parse error", (ps[0] if ps else f.entry.term).locstr(),
                                        "a NULL parse result sets the message" if ok else "a parse error is returned as NULL without a retrievable message")
    chk.floor(rid, n, 6, "failing returns")


def r5(chk, prog, m):
    rid = "C20.R5"
    chk.rule(rid, "a failure of the writer reaches the caller: in every function that calls the descriptor writer (_json_object_to_fd / "
                  "json_object_to_fd), each return after the call returns the writer's own result, a negative constant, or a "
                  "non-negative value only where a test that the writer's result is non-negative dominates")
    from ..flow import dominating_conditions
    n = 0
    for f in [g for g in m.functions.values() if not g.is_decl]:
        calls = [i for i in f.instrs() if i.op == "call" and i.callee in ("_json_object_to_fd", "json_object_to_fd") and i.res is not None]
        if not calls or f.ret_type not in ("i32", "i64"):
            continue
        cfg = cfg_of(f)
        chk.touched(f)
        for c in calls:
            regs, _ = derived_values(f, c.res)
            regs = set(regs) | {c.res}

            def is_result(v):
                return v.kind == "reg" and v.v in regs

            def nonneg_known(block, edge_from=None):
                conds = list(dominating_conditions(f, block))
                if edge_from is not None:
                    from .c11 import _edge_conds
                    conds = _edge_conds(f, edge_from, block)
                for cnd, tr in conds:
                    if getattr(cnd, "op", None) != "icmp":
                        continue
                    a, b = cnd.ops
                    if not (a.kind == "reg" and a.v in regs and b.kind == "int"):
                        continue
                    p = cnd.x["pred"]
                    if b.v == 0 and ((p == "slt" and not tr) or (p == "sge" and tr) or (p == "eq" and tr)):
                        return True
                    if b.v == -1 and ((p == "sgt" and tr) or (p == "sle" and not tr) or (p == "ne" and tr)):
                        return True
                return False
            for b in f.blocks.values():
                t = b.term
                if t.op != "ret" or not t.ops:
                    continue
                if b is not c.block and b not in cfg.reachable_from(c.block):
                    continue
                v = t.ops[0]
                d = f.defs.get(v.v) if v.kind == "reg" else None
                cases = []
                if d is not None and d.op == "phi" and d.block is b:
                    for val, lab in d.x["incoming"]:
                        pb = f.blocks[lab]
                        if pb is c.block or pb in cfg.reachable_from(c.block):
                            cases.append((val, pb))
                else:
                    cases.append((v, None))
                for val, pb in cases:
                    n += 1
                    sig = "return after %s" % c.callee
                    loc = (pb.term if pb is not None else t).locstr()
                    if is_result(val):
                        chk.proven(rid, f.name, sig, loc, "returns the writer's result")
                    elif val.kind == "int" and val.v < 0:
                        chk.proven(rid, f.name, sig, loc, "returns %d" % val.v)
                    elif nonneg_known(pb if pb is not None else b, None) or (pb is not None and nonneg_known(b, pb)):
                        chk.proven(rid, f.name, sig, loc, "reached only when the writer's result is non-negative")
                    else:
                        chk.refuted(rid, f.name, sig, loc,
                                    "after %s this return yields %s, which does not depend on the writer's result: a failed write "
                                    "(short count followed by an error, ENOSPC, EIO) is reported to the caller as success"
                                    % (c.callee, ("the constant %d" % val.v) if val.kind == "int" else "another value (%s)" % (val.v if val.kind == "reg" else val.kind)))
    chk.floor(rid, n, 2, "returns after the descriptor writer")


# ---------------------------------------------------------------------------
# evaluation of the two loops on scripted return values of write() / read(): confirms or overrides what the shape rules say
N_TEXT = 6


class _WritePE(pe.PE):
    def __init__(self, prog):
        super().__init__(prog, max_leaves=400, max_steps=200000)
        self.loop_widen = 1000
        self.max_visits = 64

    def should_inline(self, g, instr):
        return g.internal and g.name not in ("_json_c_set_last_err",)

    def init_mem(self, state, base, path, t):
        return pe.TOP

    def call_model(self, state, frame, i, args):
        nm = i.callee
        if nm == "json_object_to_json_string_ext":
            return ("ptr", "text", ())
        if nm == "strlen":
            return pe.C(N_TEXT)
        if nm == "__errno_location":
            return ("ptr", "errno", ())
        if nm == "strerror":
            return ("ptr", "msg", ())
        if nm == "_json_c_set_last_err":
            state.trace.append(("err",))
            return pe.C(0)
        if nm == "write":
            p, n = args[1], args[2]
            off = None
            if p[0] == "ptr" and p[1] == "text":
                el, fl = pe.fields_of(self._loc(state, p)[1]) if self._loc(state, p) is not None else (None, ())
                off = el if isinstance(el, int) and not fl else None
            nv = n[1] if pe.is_const(n) else None
            if nv is None and not pe.has_top(n):
                vs = state.values(n)
                if vs is not None and len(vs) == 1:
                    nv = next(iter(vs))
            dom = [-1, 1] + ([nv] if isinstance(nv, int) and nv > 1 else [])
            r = self.fresh_root(state, "wr", dom)
            state.trace.append(("write", off, nv, r[1]))
            return r
        return None


def _eval_write(prog, m):
    """(verdict, message): 'ok' when on every scripted sequence of write() results the bytes offered are exactly the unwritten
    suffix, a failure gives -1 with a message and completion gives 0; 'bad' with a concrete schedule otherwise; 'unknown'"""
    f = m.functions.get("_json_object_to_fd")
    if f is None or f.is_decl:
        return "unknown", "_json_object_to_fd not found"
    try:
        h = _WritePE(prog)
        leaves = h.run(f, [pe.C(3), ("ptr", "obj", ()), pe.C(0), pe.C(0)], pe.State())
    except Exception as e:
        return "unknown", str(e)[:80]
    n = 0
    for lf in leaves:
        if lf.kind != "ret" or lf.value is None or not pe.is_const(lf.value):
            return "unknown", "a path does not end in a constant return"
        n += 1
        pos = 0
        failed = False
        sched = []
        for e in lf.state.trace:
            if e[0] != "write":
                continue
            off, cnt, rname = e[1], e[2], e[3]
            rv = lf.state.roots.get(rname)
            if rv is None or len(rv) != 1:
                return "unknown", "a write() result is not decided on a path"
            rv = next(iter(rv))
            sched.append(rv)
            if off is None or cnt is None:
                return "unknown", "a write() argument is not concrete"
            if off != pos or not (1 <= cnt <= N_TEXT - pos):
                return "bad", ("with write() returning %s the call after %d byte(s) were written offers offset %d, count %d of a "
                               "%d-byte text: bytes are repeated or skipped" % (sched[:-1], pos, off, cnt, N_TEXT))
            if rv < 0:
                failed = True
                break
            pos += rv
        rc = lf.value[1]
        seterr = any(e[0] == "err" for e in lf.state.trace)
        if failed and not (rc < 0 and seterr):
            return "bad", "with write() returning %s the function returns %d%s" % (sched, rc, "" if seterr else " without setting the message")
        if not failed and not (rc == 0 and pos == N_TEXT):
            return "bad", "with write() returning %s the function returns %d after %d of %d bytes" % (sched, rc, pos, N_TEXT)
    return ("ok", "%d scripted write() sequences" % n) if n >= 3 else ("unknown", "only %d paths" % n)


BPOS_SAMPLE = 5000      # more than one read buffer, so a length clipped to the buffer size shows


class _ReadPE(pe.PE):
    def __init__(self, prog):
        super().__init__(prog, max_leaves=2000, max_steps=400000)
        self.loop_widen = 1000
        self.max_visits = 64
        self.nreads = 0

    def should_inline(self, g, instr):
        return g.internal and g.name not in ("_json_c_set_last_err",)

    def init_mem(self, state, base, path, t):
        if base == "pb":
            if t.endswith("*"):
                return ("ptr", "pbtext", ())
            if t == "i32":
                return pe.C(BPOS_SAMPLE)
        return pe.TOP

    def call_model(self, state, frame, i, args):
        nm = i.callee
        if nm == "printbuf_new":
            return ("ptr", "pb", ())
        if nm == "json_tokener_new_ex":
            return ("ptr", "tok", ())
        if nm in ("json_tokener_free", "printbuf_free"):
            state.trace.append(("free", nm))
            return pe.C(0)
        if nm == "__errno_location":
            return ("ptr", "errno", ())
        if nm in ("strerror", "json_tokener_error_desc"):
            return ("ptr", "msg", ())
        if nm == "json_tokener_get_error":
            return pe.C(1)
        if nm == "_json_c_set_last_err":
            state.trace.append(("err",))
            return pe.C(0)
        if nm == "read":
            k = sum(1 for e in state.trace if e[0] == "read")
            size = args[2][1] if pe.is_const(args[2]) else None
            dom = [0] if k >= 3 else [-1, 0, 3] + ([size] if isinstance(size, int) and size > 3 else [])
            r = self.fresh_root(state, "rd", dom)
            state.trace.append(("read", r[1], size))
            return r
        if nm == "printbuf_memappend":
            state.trace.append(("append", args[2]))
            return pe.C(0)
        if nm == "json_tokener_parse_ex":
            ln = args[2]
            lv = ln[1] if pe.is_const(ln) else (next(iter(state.values(ln))) if (not pe.has_top(ln) and state.values(ln) and len(state.values(ln)) == 1) else None)
            state.trace.append(("parse", args[1][1] if args[1][0] == "ptr" else None, lv))
            return ("ptr", "result", ())
        return None


def _eval_read(prog, m):
    f = m.functions.get("json_object_from_fd_ex")
    if f is None or f.is_decl:
        return "unknown", "json_object_from_fd_ex not found"
    try:
        h = _ReadPE(prog)
        leaves = h.run(f, [pe.C(3), pe.C(-1)], pe.State())
    except Exception as e:
        return "unknown", str(e)[:80]
    n = 0
    for lf in leaves:
        if lf.kind != "ret":
            return "unknown", "a path ends with %s" % lf.kind
        n += 1
        st = lf.state
        seq = []
        tr = st.trace
        for idx, e in enumerate(tr):
            if e[0] == "read":
                rv = st.roots.get(e[1])
                if rv is None or not rv:
                    return "unknown", "a read() result is not decided on a path"
                signs = {(x > 0) - (x < 0) for x in rv}
                if len(signs) != 1:
                    return "unknown", "a read() result's sign is not decided on a path"
                # all positive counts behave alike when the code only tests the sign: keep the set, use its smallest member as the name
                seq.append((idx, min(rv) if min(rv) > 0 else next(iter(rv)), frozenset(rv), e[1]))
        vals = [v for _, v, _, _ in seq]
        # every positive count is followed (before the next read) by an append of exactly that count
        for j, (idx, v, vset, rname) in enumerate(seq):
            nxt = seq[j + 1][0] if j + 1 < len(seq) else len(tr)
            apps = [e for e in tr[idx + 1:nxt] if e[0] == "append"]
            if v > 0:
                if len(apps) != 1:
                    return "bad", "with read() returning %s the %d bytes of read #%d are appended %d times" % (vals, v, j + 1, len(apps))
                a = apps[0][1]
                av = st.values(a) if not pe.is_const(a) else {a[1]}
                same_root = (not pe.is_const(a)) and pe.roots_of(a) == {rname}
                if av is None or set(av) != set(vset) or (len(vset) > 1 and not same_root):
                    return "bad", "with read() returning %s read #%d's %d bytes are appended with count %s" % (vals, j + 1, v, sorted(av) if av else "?")
                if j + 1 == len(seq):
                    return "bad", "with read() returning %s the loop stops after a positive count: the rest of the input is never read" % (vals,)
            elif apps:
                return "bad", "with read() returning %s bytes are appended after a non-positive count" % (vals,)
        parses = sum(1 for e in tr if e[0] == "parse")
        last = vals[-1] if vals else None
        null_ret = lf.value is not None and pe.is_const(lf.value) and lf.value[1] == 0
        if last == -1:
            if parses or not null_ret or not any(e[0] == "err" for e in tr):
                return "bad", "with read() returning %s (an error) the function %s" % (vals, "parses the partial text" if parses else "does not fail with a message")
        elif last == 0:
            if parses != 1:
                return "bad", "with read() returning %s the text is parsed %d times" % (vals, parses)
            pa = [e for e in tr if e[0] == "parse"][0]
            if pa[1] != "pbtext" or pa[2] != BPOS_SAMPLE:
                return "bad", ("with read() returning %s the parser is given (%s, %s) instead of the accumulated text and its length "
                               "(%d in this evaluation)" % (vals, pa[1], pa[2], BPOS_SAMPLE))
        else:
            return "bad", "with read() returning %s the function returns without reaching end of input" % (vals,)
    return ("ok", "%d scripted read() sequences" % n) if n >= 5 else ("unknown", "only %d paths" % n)


def _confirm_shape_rules(chk, prog, m, only=None):
    """a refutation by the loop-shape rules R1 / R2 stands only if the evaluation of the loop finds a misbehaving schedule"""
    from ..report import REFUTED, UNDECIDED
    for rid, ev in (("C20.R1", _eval_write), ("C20.R2", _eval_read)):
        if only is not None and rid not in only:
            continue
        bad = [o for o in chk.obls if o.rule == rid and o.verdict == REFUTED]
        verdict, msg = ev(prog, m)
        chk.tables["evaluation_" + rid] = {"verdict": verdict, "detail": msg}
        if not bad:
            if verdict == "bad":
                chk.refuted(rid, "_json_object_to_fd" if rid == "C20.R1" else "json_object_from_fd_ex", "evaluation on scripted counts",
                            "json_util.c", msg)
            continue
        if verdict == "ok":
            for o in bad:
                o.verdict = UNDECIDED
                o.msg = ("the loop does not have the shape this rule recognises (%s), but its evaluation on scripted short counts finds "
                         "no misbehaviour (%s)" % (o.msg[:120], msg))
        elif verdict == "bad":
            bad[0].msg = bad[0].msg + "; evaluation: " + msg


# ---------------------------------------------------------------------------
def r6(chk, prog, m):
    """a file opened for writing starts empty"""
    rid = "C20.R6"
    chk.rule(rid, "every open() for writing in the file helpers creates and truncates (O_CREAT | O_TRUNC, or O_APPEND never): the text "
                  "written is then the whole file, whatever an earlier, longer save left there")
    O_ACC, O_WRONLY, O_RDWR, O_CREAT, O_TRUNC = 3, 1, 2, 0o100, 0o1000
    n = 0
    for f in [g for g in m.functions.values() if not g.is_decl]:
        for i in f.instrs():
            if i.op != "call" or i.callee not in ("open", "open64", "openat") or len(i.ops) < 2:
                continue
            fl = i.ops[1] if i.callee != "openat" else i.ops[2]
            if fl.kind != "int":
                n += 1
                chk.touched(f)
                chk.undecided(rid, f.name, "open flags", i.locstr(), "the flags of this open() are not a constant")
                continue
            if fl.v & O_ACC not in (O_WRONLY, O_RDWR):
                continue
            n += 1
            chk.touched(f)
            if fl.v & O_TRUNC and fl.v & O_CREAT:
                chk.proven(rid, f.name, "open flags", i.locstr(), "flags 0%o: create and truncate" % fl.v)
            else:
                chk.refuted(rid, f.name, "open flags", i.locstr(),
                            "the file is opened for writing with flags 0%o, without %s: when the path already holds a longer text, its tail "
                            "stays behind the newly written one and the file is not the serialization of the tree"
                            % (fl.v, "O_TRUNC" if not fl.v & O_TRUNC else "O_CREAT"))
    chk.floor(rid, n, 1, "open() calls for writing")


def r7(chk, prog, m):
    """the failure test of open()"""
    rid = "C20.R7"
    chk.rule(rid, "the result of open() is tested for failure as 'negative' (or '== -1'): 0 is a descriptor like any other (it is what "
                  "open returns when standard input is closed)")
    from ..cfg import cfg_of
    n = 0
    for f in [g for g in m.functions.values() if not g.is_decl]:
        cfg = cfg_of(f)
        for i in f.instrs():
            if i.op != "call" or i.callee not in ("open", "open64", "openat", "creat") or i.res is None:
                continue
            regs = {i.res}
            work = [i.res]
            while work:
                r = work.pop()
                for u in cfg.users(r):
                    if u.op in ("sext", "zext", "trunc") and u.res not in regs:
                        regs.add(u.res)
                        work.append(u.res)
            cmps = [u for r in regs for u in cfg.users(r) if u.op == "icmp"]
            for c in cmps:
                n += 1
                chk.touched(f)
                a, b = c.ops
                pred = c.x["pred"]
                if b.kind == "reg" and b.v in regs and a.kind == "int":
                    a, b = b, a
                    pred = {"slt": "sgt", "sgt": "slt", "sle": "sge", "sge": "sle"}.get(pred, pred)
                if b.kind != "int":
                    chk.undecided(rid, f.name, "test of the descriptor", c.locstr(), "the descriptor is compared with a non-constant")
                    continue
                ok = (pred in ("slt", "sge") and b.v == 0) or (pred in ("eq", "ne", "sgt", "sle") and b.v == -1)
                if ok:
                    chk.proven(rid, f.name, "test of the descriptor", c.locstr(), "%s %d" % (pred, b.v))
                else:
                    chk.refuted(rid, f.name, "test of the descriptor", c.locstr(),
                                "the result of open() is tested with '%s %d': when open() returns 0 (standard input closed) a file that "
                                "was opened successfully is treated as a failure - reported as an error and its descriptor never closed"
                                % (pred, b.v))
    chk.floor(rid, n, 1, "tests of an open() result")
