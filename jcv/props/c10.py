"""C10 - numeric accessors and mutators are exact when representable, else saturating.

R1 every float->integer conversion is dominated by guards that confine the operand to the open
   interval on which the conversion is defined (E4)
R2 no signed overflow in the increment / accessors (E5, jcv.lin)
R4 clamp/errno discipline
R5 setters store the argument unmodified with the matching discriminant
"""
import math

from ..ir import load_program
from ..cfg import cfg_of
from ..flow import Paths, dominating_conditions
from .. import lin

ACCESSORS = ["json_object_get_int", "json_object_get_int64", "json_object_get_uint64", "json_object_get_double",
             "json_object_get_boolean", "json_object_int_inc", "json_object_set_int", "json_object_set_int64",
             "json_object_set_uint64", "json_object_set_double", "json_object_set_boolean"]


def run(chk):
    prog = load_program("default")
    chk.variant(prog)
    r1(chk, prog)
    r2(chk, prog)
    r3(chk, prog)
    r4(chk, prog)
    r5(chk, prog)
    r6(chk, prog)
    r7(chk, prog)
    r8(chk, prog)
    r9_getters_on_produced_states(chk, prog)
    from . import c11
    with chk.shared():
        c11.r7(chk, prog, prog.module("json_object.c"))   # shared: the sign-encoded string length is decoded before use
    chk.undecided_clauses += [
        "string -> double conversion results (strtod on data); the integer text rules are decided on short texts and boundary "
        "values only (C10.R6), with strtoll / strtoull at their ISO C contracts",
        "exactness of int -> double conversions",
        "unsigned wrap-around arithmetic in the uint64 branch of json_object_int_inc (no nsw flag to anchor an obligation; value-level)",
    ]


# ---------------------------------------------------------------------------
# R1


class FSet:
    """subset of the extended reals described by lower/upper bound with openness, plus 'may be NaN'"""

    def __init__(self):
        self.lo, self.lo_open = -math.inf, False
        self.hi, self.hi_open = math.inf, False
        self.nan = True

    def copy(self):
        o = FSet()
        o.lo, o.lo_open, o.hi, o.hi_open, o.nan = self.lo, self.lo_open, self.hi, self.hi_open, self.nan
        o.empty = getattr(self, "empty", False)
        return o

    def is_empty(self):
        if self.lo > self.hi or (self.lo == self.hi and (self.lo_open or self.hi_open)):
            return not self.nan
        return False

    def join(self, o):
        r = self.copy()
        if o.lo < r.lo or (o.lo == r.lo and not o.lo_open):
            r.lo, r.lo_open = o.lo, o.lo_open if o.lo < self.lo else (self.lo_open and o.lo_open)
        if o.hi > r.hi or (o.hi == r.hi and not o.hi_open):
            r.hi, r.hi_open = o.hi, o.hi_open if o.hi > self.hi else (self.hi_open and o.hi_open)
        r.nan = self.nan or o.nan
        return r

    def key(self):
        return (self.lo, self.lo_open, self.hi, self.hi_open, self.nan)

    def numeric_empty(self):
        return self.lo > self.hi or (self.lo == self.hi and (self.lo_open or self.hi_open))

    def meet_lt(self, k, strict):      # x < k  (strict) or x <= k
        if k < self.hi or (k == self.hi and strict and not self.hi_open):
            self.hi, self.hi_open = k, strict

    def meet_gt(self, k, strict):
        if k > self.lo or (k == self.lo and strict and not self.lo_open):
            self.lo, self.lo_open = k, strict

    def __repr__(self):
        return "%s%r, %r%s%s" % ("(" if self.lo_open else "[", self.lo, self.hi, ")" if self.hi_open else "]",
                                 " or NaN" if self.nan else "")


def _apply_fcmp(s, pred, k, truth, value_on_left):
    """restrict s by (x pred k) == truth"""
    if not value_on_left:
        pred = {"ogt": "olt", "olt": "ogt", "oge": "ole", "ole": "oge", "ugt": "ult", "ult": "ugt",
                "uge": "ule", "ule": "uge"}.get(pred, pred)
    ordered = pred.startswith("o")
    base = pred[1:]
    if base not in ("gt", "lt", "ge", "le"):
        return
    if truth:
        # comparison holds: for ordered predicates x is not NaN
        if ordered:
            s.nan = False
        else:
            return   # unordered-true may be NaN: no numeric information
        if base == "gt":
            s.meet_gt(k, True)
        elif base == "ge":
            s.meet_gt(k, False)
        elif base == "lt":
            s.meet_lt(k, True)
        elif base == "le":
            s.meet_lt(k, False)
        # unordered-true could also be NaN: bounds then apply only to non-NaN x, which is what we track
    else:
        # comparison false: either NaN (ordered pred) or the complement
        if not ordered:
            s.nan = False
        # ordered-false: x is NaN or in the complement; the complement bounds hold for the non-NaN values
        if base == "gt":
            s.meet_lt(k, False)
        elif base == "ge":
            s.meet_lt(k, True)
        elif base == "lt":
            s.meet_gt(k, False)
        elif base == "le":
            s.meet_gt(k, True)


def r1(chk, prog):
    rid = "C10.R1"
    chk.rule(rid, "every float->integer conversion is reachable only with an operand inside the open interval on which "
                  "the conversion is defined (guards on the same unmodified field dominate it; NaN excluded)")
    n = 0
    for f in prog.all_functions():
        casts = [i for i in f.instrs() if i.op in ("fptosi", "fptoui")]
        if not casts:
            continue
        P = Paths(f, prog)
        chk.touched(f)
        for c in casts:
            n += 1
            bits = int(c.type[1:])
            if c.op == "fptosi":
                dom_lo, dom_hi = -(2.0 ** (bits - 1)) - 1, 2.0 ** (bits - 1)   # open interval (lo, hi)
                # -(2^63)-1 is not a double; the nearest lower double rounds to -2^63: handle exactly below
                lo_exact = -(2 ** (bits - 1)) - 1
            else:
                dom_lo, dom_hi = -1.0, 2.0 ** bits
                lo_exact = -1
            hi_exact = 2 ** (bits - 1) if c.op == "fptosi" else 2 ** bits
            vpath = P.path(c.ops[0])
            sig = "%s %s -> %s" % (c.op, vpath, c.type)
            if not _path_unmodified(prog, f, vpath):
                chk.undecided(rid, f.name, sig, c.locstr(), "the converted location may be written between guard and conversion")
                continue
            s, used = _fset_at(f, P, vpath, c.block)
            if s is None:
                chk.proven(rid, f.name, sig, c.locstr(), "conversion unreachable")
                continue
            # compare with the defined domain, exactly (Fractions of doubles are exact)
            from fractions import Fraction
            bad = None
            if s.nan:
                bad = "NaN"
            elif s.numeric_empty():
                bad = None
            else:
                if math.isinf(s.hi) or Fraction(s.hi) > hi_exact or (Fraction(s.hi) == hi_exact and not s.hi_open):
                    bad = repr(s.hi) if not math.isinf(s.hi) else "+inf"
                    if not math.isinf(s.hi) and Fraction(s.hi) > hi_exact:
                        bad = repr(float(hi_exact))
                elif math.isinf(s.lo) or Fraction(s.lo) < lo_exact or (Fraction(s.lo) == lo_exact and not s.lo_open):
                    bad = repr(s.lo) if not math.isinf(s.lo) else "-inf"
            detail = {"guards": used, "operand_set": repr(s),
                      "defined_on": "(%d, %d) exclusive" % (lo_exact, hi_exact)}
            if bad is None:
                chk.proven(rid, f.name, sig, c.locstr(), "operand confined to %r, conversion defined on (%d, %d)" % (s, lo_exact, hi_exact), detail)
            else:
                detail["witness"] = bad
                chk.refuted(rid, f.name, sig, c.locstr(),
                            "%s reachable with operand %s (= %s): dominating guards leave %r but the conversion is defined only "
                            "on the open interval (%d, %d); the result is undefined (wraps to the opposite bound on x86)"
                            % (c.op, bad, _pow2name(bad), s, lo_exact, hi_exact), detail)
    chk.floor(rid, n, 3, "float->integer conversions")


def _fset_at(f, P, vpath, target):
    """forward abstract interpretation: the set of doubles (interval + may-be-NaN) the location `vpath` can hold on
    entry to each block, refined on every edge by the fcmp conditions on that location; join = hull"""
    from ..flow import _flatten_cond
    state = {f.entry: FSet()}
    work = [f.entry]
    used = []
    iters = 0
    while work and iters < 5000:
        iters += 1
        b = work.pop()
        st = state[b]
        t = b.term
        outs = []
        if t.op == "br" and len(t.x["targets"]) == 2 and t.ops and t.x["targets"][0] != t.x["targets"][1]:
            for tgt, truth in ((t.x["targets"][0], True), (t.x["targets"][1], False)):
                s2 = st.copy()
                for cmp_, tr in _flatten_cond(f, t.ops[0], truth):
                    if cmp_.op != "fcmp":
                        continue
                    a, bb = cmp_.ops
                    pa = P.path(a) if a.kind == "reg" else None
                    pb = P.path(bb) if bb.kind == "reg" else None
                    pred = cmp_.x["pred"]
                    if pred in ("uno", "ord") and pa == vpath and (pb == vpath or bb.kind == "float"):
                        isnan_true = (pred == "uno") == tr
                        if isnan_true:
                            s2.lo, s2.hi, s2.lo_open, s2.hi_open = 1.0, 0.0, False, False   # no ordinary value
                        else:
                            s2.nan = False
                        used.append("%s: isnan(x) is %s" % (cmp_.locstr(), isnan_true))
                    elif pa == vpath and bb.kind == "float" and bb.v is not None:
                        _apply_fcmp(s2, pred, bb.v, tr, True)
                        used.append("%s: (x %s %r) is %s" % (cmp_.locstr(), pred, bb.v, tr))
                    elif pb == vpath and a.kind == "float" and a.v is not None:
                        _apply_fcmp(s2, pred, a.v, tr, False)
                        used.append("%s: (%r %s x) is %s" % (cmp_.locstr(), a.v, pred, tr))
                outs.append((f.blocks[tgt], s2))
        else:
            outs = [(s_, st) for s_ in b.succs]
        for nb, s2 in outs:
            if s2.numeric_empty() and not s2.nan:
                continue   # infeasible edge
            old = state.get(nb)
            new = s2 if old is None else old.join(s2)
            if old is None or new.key() != old.key():
                state[nb] = new
                work.append(nb)
    return state.get(target), sorted(set(used))


def _pow2name(s):
    try:
        v = float(s)
    except ValueError:
        return s
    if v > 0 and math.log2(v).is_integer():
        return "2^%d" % int(math.log2(v))
    return s


def _path_unmodified(prog, f, vpath):
    field = vpath.split("->")[-1].split(".")[-1]
    for i in f.instrs():
        if i.op == "store":
            p = Paths(f, prog).path(i.ops[1])
            if p.endswith(field) and field != p:
                return False
        if i.op == "call" and i.callee:
            g = prog.resolve(i.callee, f.module)
            if g is not None and _writes_field(prog, g, field, set()):
                return False
    return True


def _writes_field(prog, g, field, seen):
    if id(g) in seen:
        return False
    seen.add(id(g))
    P = Paths(g, prog)
    for i in g.instrs():
        if i.op == "store" and P.path(i.ops[1]).endswith(field):
            return True
        if i.op == "call" and i.callee:
            h = prog.resolve(i.callee, g.module)
            if h is not None and _writes_field(prog, h, field, seen):
                return True
    return False


# ---------------------------------------------------------------------------
# R2


def r2(chk, prog):
    rid = "C10.R2"
    chk.rule(rid, "every signed (nsw) add/sub/negation in the numeric accessors and json_object_int_inc is guarded "
                  "against overflow (linear facts from dominating guards, partitioned on the sign of the increment)")
    n = 0
    for name in ACCESSORS:
        f = prog.fn(name)
        chk.require(f is not None, "accessor %s not found" % name)
        for i in f.instrs():
            if i.op in ("add", "sub", "mul") and "nsw" in i.x.get("flags", []) and i.type in ("i64", "i32"):
                n += 1
                chk.touched(f)
                res = lin.check_nsw(prog, f, i)
                sig = "%s nsw %s" % (i.op, lin.describe(prog, f, i))
                if res.verdict == "PROVEN":
                    chk.proven(rid, f.name, sig, i.locstr(), res.msg, res.detail)
                elif res.verdict == "REFUTED":
                    chk.refuted(rid, f.name, sig, i.locstr(), res.msg, res.detail)
                else:
                    chk.undecided(rid, f.name, sig, i.locstr(), res.msg, res.detail)
    chk.floor(rid, n, 4, "nsw arithmetic instructions in the numeric accessors")


# ---------------------------------------------------------------------------
# R4 errno / clamp discipline


def r4(chk, prog):
    rid = "C10.R4"
    chk.rule(rid, "in the integer accessors errno is cleared at entry, and every return of a type-bound constant "
                  "(saturation) is preceded on its path by errno = ERANGE (EINVAL for NaN)")
    ERANGE, EINVAL = 34, 22
    bounds = {
        "json_object_get_int": {-(2 ** 31), 2 ** 31 - 1},
        "json_object_get_int64": {-(2 ** 63), 2 ** 63 - 1},
        "json_object_get_uint64": {-1 % (1 << 64), -1},
    }
    n = 0
    for name, bset in bounds.items():
        f = prog.fn(name)
        chk.require(f is not None, name + " not found")
        chk.touched(f)
        cfg = cfg_of(f)
        # errno stores: store K, (call __errno_location)
        estores = []
        for i in f.instrs():
            if i.op == "store" and i.ops[1].kind == "reg":
                d = f.defs.get(i.ops[1].v)
                if d is not None and d.op == "call" and d.callee == "__errno_location" and i.ops[0].kind == "int":
                    estores.append(i)
        # entry clear
        first = [s for s in estores if s.block is f.entry and s.ops[0].v == 0]
        n += 1
        if first:
            chk.proven(rid, name, "errno = 0 at entry", first[0].locstr(), "entry block clears errno before any return")
        else:
            chk.refuted(rid, name, "errno = 0 at entry", f.entry.instrs[0].locstr(),
                        "errno is not cleared in the entry block: a stale ERANGE from an earlier call would be reported for an in-range value")
        # returns of bound constants
        rets = [b.term for b in f.blocks.values() if b.term.op == "ret"]
        for r in rets:
            v = r.ops[0]
            inc = [(v, r.block)]
            if v.kind == "reg" and v.v in f.defs and f.defs[v.v].op == "phi":
                inc = [(val, f.blocks[lab]) for val, lab in f.defs[v.v].x["incoming"]]
            for val, blk in inc:
                if val.kind != "int":
                    continue
                is_bound = val.v in bset or (val.v == 0 and name == "json_object_get_uint64" and _errno_on_path(f, blk, estores))
                if val.v not in bset:
                    continue
                n += 1
                # the block (or a dominating chain of single-pred blocks) must contain errno = ERANGE/EINVAL
                st = _errno_on_path(f, blk, estores)
                sig = "return %d" % val.v
                if st in (ERANGE, EINVAL):
                    chk.proven(rid, name, sig, blk.term.locstr(), "saturating return preceded by errno = %d" % st)
                else:
                    chk.refuted(rid, name, sig, blk.term.locstr(),
                                "saturated value %d returned without setting errno to ERANGE/EINVAL on this path" % val.v)
    chk.floor(rid, n, 10, "entry clears + saturating returns")


def _errno_on_path(f, blk, estores):
    """errno constant stored in blk or in the unique-predecessor chain leading to it (non-zero only)"""
    seen = set()
    b = blk
    while b is not None and b not in seen:
        seen.add(b)
        for s in reversed(b.instrs):
            if s in estores and s.ops[0].v != 0:
                return s.ops[0].v
        b = b.preds[0] if len(b.preds) == 1 else None
    return None


# ---------------------------------------------------------------------------
# R5 setters


def r5(chk, prog):
    rid = "C10.R5"
    chk.rule(rid, "each numeric setter stores its argument unmodified into the value field and (for integers) stores the "
                  "matching representation tag on the same path")
    m = prog.module("json_object.c")
    tags = m.enumerators("json_object_int_type")
    chk.require("json_object_int_type_int64" in tags and "json_object_int_type_uint64" in tags, "cint_type enumerators not found")
    want = {
        "json_object_set_int64": ("cint", tags["json_object_int_type_int64"]),
        "json_object_set_uint64": ("cint", tags["json_object_int_type_uint64"]),
        "json_object_set_double": ("c_double", None),
        "json_object_set_boolean": ("c_boolean", None),
    }
    n = 0
    for name, (field, tag) in want.items():
        f = prog.fn(name)
        chk.require(f is not None, name + " not found")
        chk.touched(f)
        P = Paths(f, prog)
        pname = f.params[1][1]
        val_store = None
        tag_store = None
        for i in f.instrs():
            if i.op != "store":
                continue
            p = P.path(i.ops[1])
            last = p.replace("->", ".").split(".")[-1].split("[")[0]
            if last == field:
                val_store = i
            if p.endswith("cint_type"):
                tag_store = i
        n += 1
        if val_store is None:
            chk.refuted(rid, name, "store " + field, f.entry.instrs[0].locstr(), "setter never stores into %s" % field)
            continue
        v = val_store.ops[0]
        # allow a sign/zero extension of the parameter for the boolean (int -> int)
        src = v
        while src.kind == "reg" and src.v in f.defs and f.defs[src.v].op in ("bitcast",):
            src = f.defs[src.v].ops[0]
        # a "value unchanged, nothing to do" shortcut decided by a floating-point (or integer) equality test skips the store for
        # values that compare equal without being the same value: +0.0 and -0.0
        skip = None
        for c in f.instrs():
            if c.op == "fcmp" and c.x.get("pred") in ("oeq", "ueq", "one", "une") and any(o.kind == "reg" and o.v == pname for o in c.ops):
                other = [o for o in c.ops if not (o.kind == "reg" and o.v == pname)]
                if other and other[0].kind == "reg" and f.defs.get(other[0].v) is not None and f.defs[other[0].v].op == "load" and \
                        P.path(f.defs[other[0].v].ops[0]).replace("->", ".").split(".")[-1].split("[")[0] == field:
                    from ..heapuse import reach_avoiding
                    w = reach_avoiding(f, c, lambda x: x.op == "ret", lambda x: x is val_store)
                    if w is not None:
                        skip = c
        if skip is not None:
            n += 1
            chk.refuted(rid, name, "store skipped on equality", skip.locstr(),
                        "the setter compares the stored value with the argument (%s) and can return without storing when they compare "
                        "equal: +0.0 and -0.0 compare equal, so setting -0.0 on a node holding 0.0 (or the reverse) reports success and "
                        "leaves the other zero in place" % skip.x.get("pred"))
        if src.kind == "reg" and src.v == pname:
            chk.proven(rid, name, "store " + field, val_store.locstr(), "argument stored unmodified")
        else:
            chk.refuted(rid, name, "store " + field, val_store.locstr(),
                        "value stored is not the unmodified argument: %s" % val_store.raw)
        if tag is not None:
            n += 1
            if tag_store is not None and tag_store.ops[0].kind == "int" and tag_store.ops[0].v == tag and \
                    (tag_store.block is val_store.block):
                chk.proven(rid, name, "store cint_type", tag_store.locstr(), "representation tag %d stored with the value" % tag)
            else:
                chk.refuted(rid, name, "store cint_type", val_store.locstr(),
                            "the representation tag stored with the value is not %d (signedness of later reads would be wrong)" % tag)
    chk.floor(rid, n, 6, "setter stores")


# ---------------------------------------------------------------------------
# R3 the union member that is read or written agrees with the representation tag
def _member_of(i):
    """'int' / 'uint' for a bitcast of the integer node's union to i64* (clang names the value after the member)"""
    if i.op != "bitcast" or i.res is None or not i.type.startswith("i64*"):
        return None
    src = i.ops[0]
    if not (src.type or "").startswith("%union."):
        return None
    if i.res.startswith("c_uint64"):
        return "uint"
    if i.res.startswith("c_int64"):
        return "int"
    return None


def _tag_context(f, P, block, obj, T_I, T_U):
    """'int' / 'uint' / None: what the dominating tests on <obj>cint_type say at this block"""
    know = None
    for c, tr in dominating_conditions(f, block):
        if getattr(c, "op", None) == "icmp":
            a, b = c.ops
            if a.kind != "reg" or b.kind != "int":
                continue
            if P.path(a) != obj + "cint_type":
                continue
            eq = (c.x["pred"] == "eq") == tr
            if c.x["pred"] not in ("eq", "ne"):
                continue
            if b.v == T_I:
                know = "int" if eq else "uint"
            elif b.v == T_U:
                know = "uint" if eq else "int"
        elif getattr(c, "op", None) == "switch":
            sel = c.ops[0]
            if sel.kind != "reg" or P.path(sel) != obj + "cint_type":
                continue
            kind = tr[0]
            if kind == "cases":
                vals = set(tr[1])
                if vals == {T_I}:
                    know = "int"
                elif vals == {T_U}:
                    know = "uint"
    return know


def _signed_uses(f, cfg, reg, depth=0, seen=None):
    """(signed-sensitive uses, unsigned-sensitive uses) of an integer value, through copies"""
    seen = seen if seen is not None else set()
    sgn, uns = [], []
    if reg in seen or depth > 4:
        return sgn, uns
    seen.add(reg)
    for u in cfg.users(reg):
        if u.op == "icmp":
            p = u.x["pred"]
            if p[0] == "s":
                sgn.append(u)
            elif p[0] == "u":
                uns.append(u)
        elif u.op in ("sitofp", "sext", "sdiv", "srem", "ashr"):
            sgn.append(u)
        elif u.op in ("uitofp", "zext", "udiv", "urem", "lshr"):
            uns.append(u)
        elif u.op in ("bitcast", "phi", "select") and u.res is not None:
            a, b = _signed_uses(f, cfg, u.res, depth + 1, seen)
            sgn += a
            uns += b
    return sgn, uns


def r3(chk, prog):
    rid = "C10.R3"
    chk.rule(rid, "an integer node's union member is read under the representation tag it belongs to (c_int64 where cint_type is the "
                  "signed tag, c_uint64 where it is the unsigned tag: dominating test or switch case on the same node), and a write of a "
                  "member is accompanied by a write of its tag; member identity is taken from the names clang gives the access values")
    m = prog.module("json_object.c")
    tags = m.enumerators("json_object_int_type")
    chk.require("json_object_int_type_int64" in tags and "json_object_int_type_uint64" in tags, "json_object_int_type enumerators not found")
    T_I, T_U = tags["json_object_int_type_int64"], tags["json_object_int_type_uint64"]
    n = 0
    for f in [g for g in m.functions.values() if not g.is_decl]:
        P = None
        cfg = None
        for bc in f.instrs():
            mem = _member_of(bc)
            if mem is None:
                continue
            if P is None:
                P = Paths(f, prog)
                cfg = cfg_of(f)
            upath = P.path(bc.ops[0])
            if not upath.endswith("cint"):
                continue
            obj = upath[:-len("cint")]
            for u in cfg.users(bc.res):
                if u.op not in ("load", "store"):
                    continue
                n += 1
                chk.touched(f)
                sig = "%s %sc_%sint64" % ("read of" if u.op == "load" else "write of", obj, "u" if mem == "uint" else "")
                ctx = _tag_context(f, P, u.block, obj, T_I, T_U)
                if u.op == "store":
                    # constructor / setter / change of representation: the matching tag is written on the same straight-line path
                    want = T_I if mem == "int" else T_U
                    tagstores = [s for s in f.instrs() if s.op == "store" and P.path(s.ops[1]) == obj + "cint_type"]
                    good = [s for s in tagstores if s.ops[0].kind == "int" and s.ops[0].v == want and
                            (s.block is u.block or cfg.dominates_block(s.block, u.block))]
                    if good:
                        chk.proven(rid, f.name, sig, u.locstr(), "the matching tag is stored at %s" % good[0].locstr())
                        continue
                    if ctx is None:
                        chk.refuted(rid, f.name, sig, u.locstr(),
                                    "the %s member is written with neither a dominating test of the node's tag nor a store of the %s tag on "
                                    "the same path: on a node that holds the other representation the stored bits are reinterpreted "
                                    "(a negative value reads back as a huge unsigned one, or the reverse)"
                                    % ("unsigned" if mem == "uint" else "signed", "unsigned" if mem == "uint" else "signed"))
                        continue
                if ctx is None:
                    chk.undecided(rid, f.name, sig, u.locstr(), "no dominating test of %scint_type" % obj)
                elif ctx == mem:
                    chk.proven(rid, f.name, sig, u.locstr(), "under the %s tag" % ("signed" if mem == "int" else "unsigned"))
                elif u.op == "load":
                    # reading the other member reinterprets the same 64 bits: it is wrong only when the value is then used with
                    # the signedness of the member it was read through, not with the signedness the tag says
                    sgn, uns = _signed_uses(f, cfg, u.res)
                    wrong = sgn if ctx == "uint" else uns
                    right = uns if ctx == "uint" else sgn
                    if wrong:
                        chk.refuted(rid, f.name, sig, u.locstr(),
                                    "the %s member is read where the tag says the node holds the %s representation and the value is "
                                    "then used as %s (%s at %s): a value at or above 2^63 (or a negative one) is misinterpreted"
                                    % ("unsigned" if mem == "uint" else "signed", "signed" if ctx == "int" else "unsigned",
                                       "signed" if ctx == "uint" else "unsigned", wrong[0].op, wrong[0].locstr()))
                    elif right:
                        chk.proven(rid, f.name, sig, u.locstr(), "read through the other member but used with the signedness of the tag (%s)" % right[0].op)
                    else:
                        chk.undecided(rid, f.name, sig, u.locstr(), "read through the other member; the signedness of its use is not visible here")
                else:
                    chk.refuted(rid, f.name, sig, u.locstr(),
                                "the %s member is %s where the tag says the node holds the %s representation: a value at or above 2^63 "
                                "(or a negative one) is reinterpreted" % ("unsigned" if mem == "uint" else "signed",
                                                                         "read" if u.op == "load" else "written",
                                                                         "signed" if ctx == "int" else "unsigned"))
    chk.floor(rid, n, 30, "accesses to the integer union members")


# ---------------------------------------------------------------------------
# R6 text -> integer helpers, evaluated
_WS = b" \t\n\v\f\r"
ERANGE, EINVAL = 34, 22
I64MIN, I64MAX, U64MAX = -(1 << 63), (1 << 63) - 1, (1 << 64) - 1


def _scan_int(s):
    """(index after the integer prefix, negative?, magnitude) per the subject sequence of ISO C strtol; None if there is none"""
    i = 0
    while i < len(s) and s[i] in _WS:
        i += 1
    neg = False
    if i < len(s) and s[i] in b"+-":
        neg = s[i] == 0x2d
        i += 1
    k = i
    while k < len(s) and 0x30 <= s[k] <= 0x39:
        k += 1
    if k == i:
        return None
    return k, neg, int(s[i:k])


def _ctype_flags(c):
    """glibc's ctype table entry in the C locale"""
    if not 0 <= c < 128:
        return 0
    ch = chr(c)
    fl = 0
    if ch.isupper(): fl |= 1 << 8
    if ch.islower(): fl |= 1 << 9
    if ch.isalpha(): fl |= 1 << 10
    if ch.isdigit(): fl |= 1 << 11
    if ch in "0123456789abcdefABCDEF": fl |= 1 << 12
    if c in _WS: fl |= 1 << 13
    if 32 <= c < 127: fl |= 1 << 14
    if 32 < c < 127: fl |= 1 << 15
    if ch in " \t": fl |= 1 << 0
    if c < 32 or c == 127: fl |= 1 << 1
    if 32 < c < 127 and not ch.isalnum(): fl |= 1 << 2
    if ch.isalnum(): fl |= 1 << 3
    return fl


def _mk_parse_pe():
    from .. import pe
    from ..strpe import StrPE

    class _ParsePE(StrPE):
        """json_parse_int64 / json_parse_uint64 on one concrete text; strtoll / strtoull answer per ISO C 7.22.1.4"""

        def __init__(self, prog, text):
            super().__init__(prog, max_leaves=20, max_steps=40000)
            self.text = text
            self.loop_widen = 1000
            self.max_visits = 80
            self.opaque = []

        def should_inline(self, g, instr):
            return g.internal

        def init_mem(self, state, base, path, t):
            el, fl = pe.fields_of(path)
            if base == "text":
                if not fl and isinstance(el, int) and 0 <= el <= len(self.text):
                    b = (self.text + b"\0")[el]
                    return pe.C(b if b < 128 else b - 256)
            if base == "errno" and not path:
                return pe.C(0)
            if base == "ctypeloc" and not path:
                return ("ptr", "ctype", ())
            if base == "ctype" and not fl and isinstance(el, int) and -128 <= el < 256:
                v = _ctype_flags(el)
                return pe.C(v if v < 32768 else v - 65536)
            return pe.TOP

        def call_model(self, state, frame, i, args):
            nm = i.callee
            if nm == "__errno_location":
                return ("ptr", "errno", ())
            if nm == "__ctype_b_loc":
                return ("ptr", "ctypeloc", ())
            if nm in ("strtoll", "strtoull", "strtol", "strtoul", "strtoimax", "strtoumax"):
                s = self._cstr(state, args[0]) if args and args[0][0] == "ptr" else None
                if s is None or len(args) < 3 or not pe.is_const(args[2]) or args[2][1] != 10:
                    self.opaque.append(nm)
                    return None
                r = _scan_int(s)
                if r is None:
                    end, v = 0, 0
                else:
                    end, neg, mag = r
                    if nm in ("strtoll", "strtol", "strtoimax"):
                        v = -mag if neg else mag
                        if v < I64MIN or v > I64MAX:
                            v = I64MIN if v < 0 else I64MAX
                            self.store(state, ("ptr", "errno", ()), pe.C(ERANGE))
                    else:
                        if mag > U64MAX:
                            v = U64MAX
                            self.store(state, ("ptr", "errno", ()), pe.C(ERANGE))
                        else:
                            v = (-mag) % (1 << 64) if neg else mag
                        if v > I64MAX:
                            v -= 1 << 64
                if args[1][0] == "ptr":
                    self.store(state, args[1], self._at(args[0], end))
                return pe.C(v)
            r = self.libc_string_model(state, frame, i, args)
            if r is not None:
                return r
            if nm and not nm.startswith("llvm."):
                g = self.prog.resolve(nm, frame.fn.module)
                if g is None or g.is_decl or not g.internal:
                    self.opaque.append(nm)
            return None
    return _ParsePE


def r6(chk, prog):
    from itertools import product
    from .. import pe
    rid = "C10.R6"
    chk.rule(rid, "the text -> integer helpers behind the string case of the int64 / uint64 accessors, evaluated on every text of up to 4 "
                  "characters over ' ' TAB '-' '+' '0' '1' 'a' and on the boundary numerals: a text with no integer prefix (ISO C subject "
                  "sequence) is refused; otherwise the stored value is the denoted integer clamped to the target type - in particular a "
                  "negative numeral read as unsigned is refused or gives 0, never a wrapped value (strtoll / strtoull answer per their "
                  "ISO C contract, including the white space they skip themselves)")
    PEc = _mk_parse_pe()
    texts = []
    for ln in range(0, 6 if chk.tier == "thorough" else 5):
        texts += [bytes(t) for t in product(b" \t-+01a", repeat=ln)]
    for core in ("9223372036854775807", "9223372036854775808", "18446744073709551615", "18446744073709551616", "99999999999999999999"):
        for pre in ("", "-", " ", " -", "\t-", "+", "\n"):
            texts.append((pre + core).encode())
    n = 0
    for fname, signed in (("json_parse_int64", True), ("json_parse_uint64", False)):
        f = prog.fn(fname)
        chk.require(f is not None and not f.is_decl, fname + " not found")
        chk.touched(f)
        CLS = ["no integer prefix", "numeral within the target type", "numeral beyond the target type"] + ([] if signed else ["negative numeral"])
        bad, und, cnt = {}, {}, {}
        for tx in texts:
            r = _scan_int(tx)
            if r is None:
                cls, ok = CLS[0], (lambda rc, out: rc != 0)
                want = "refusal"
            else:
                d = -r[2] if r[1] else r[2]
                if signed:
                    cl = min(max(d, I64MIN), I64MAX)
                    cls = CLS[1] if cl == d else CLS[2]
                    ok = (lambda rc, out, cl=cl: rc == 0 and out is not None and (out - cl) % (1 << 64) == 0)
                    want = "success with %d" % cl
                elif d < 0:
                    cls = CLS[3]
                    ok = (lambda rc, out: rc != 0 or (out is not None and out % (1 << 64) == 0))
                    want = "refusal (or 0)"
                elif d == 0 and r[1]:
                    cls = CLS[1]
                    ok = (lambda rc, out: rc != 0 or (out is not None and out % (1 << 64) == 0))
                    want = "refusal or 0"
                else:
                    cl = min(d, U64MAX)
                    cls = CLS[1] if cl == d else CLS[2]
                    ok = (lambda rc, out, cl=cl: rc == 0 and out is not None and (out - cl) % (1 << 64) == 0)
                    want = "success with %d" % cl
            h = PEc(prog, tx)
            st = pe.State()
            leaves = h.run(f, [("ptr", "text", ()), ("ptr", "out", ())], st)
            n += 1
            cnt[cls] = cnt.get(cls, 0) + 1
            res = []
            for lf in leaves:
                if lf.kind == "ret" and lf.value is not None and pe.is_const(lf.value):
                    o = lf.state.mem.get(("out", ()))
                    res.append((lf.value[1], o[1] if o is not None and pe.is_const(o) else None, o is not None and not pe.is_const(o)))
                else:
                    res.append(None)
            if not res or any(x is None for x in res) or any(x[2] for x in res):
                und.setdefault(cls, (tx, sorted(set(h.opaque))))
                continue
            for rc, out, _ in res:
                if not ok(rc, out) and cls not in bad:
                    got = "refusal (%d)" % rc if rc != 0 else ("success with %s" % (out if out is None else (out % (1 << 64) if not signed else out)))
                    bad[cls] = (tx, got, want)
        for cls in CLS:
            if cls in bad:
                tx, got, want = bad[cls]
                chk.refuted(rid, fname, cls, f.entry.term.locstr(),
                            "%s(%r) ends in %s; the text-to-number rule requires %s" % (fname, tx.decode("latin1"), got, want),
                            {"text": tx.decode("latin1")})
            elif cls in und:
                chk.undecided(rid, fname, cls, f.entry.term.locstr(),
                              "evaluation of %r does not reach a concrete result%s" %
                              (und[cls][0].decode("latin1"), (" (calls outside the model: %s)" % ", ".join(und[cls][1])) if und[cls][1] else ""))
            else:
                chk.proven(rid, fname, cls, f.entry.term.locstr(), "as required on %d texts" % cnt.get(cls, 0))
    chk.floor(rid, n, 5000, "(helper, text) evaluations")


# ---------------------------------------------------------------------------
# R7 the increment, evaluated
def r7(chk, prog):
    from .. import pe
    rid = "C10.R7"
    chk.rule(rid, "json_object_int_inc evaluated on every (representation, stored value, increment) triple over the boundary values "
                  "(INT64_MIN, INT64_MIN+1, -10, -1, 0, 1, 10, INT64_MAX-1, INT64_MAX as signed; 0, 1, INT64_MAX, 2^63, UINT64_MAX-1, "
                  "UINT64_MAX as unsigned; increments INT64_MIN, INT64_MIN+1, -10, -1, 0, 1, 3, 10, INT64_MAX): afterwards the node "
                  "denotes the exact sum clamped to [INT64_MIN, UINT64_MAX] - read through its representation tag - and 1 is returned")
    m = prog.module("json_object.c")
    f = m.functions.get("json_object_int_inc")
    chk.require(f is not None and not f.is_decl, "json_object_int_inc not found")
    chk.touched(f)
    tags = m.enumerators("json_object_int_type")
    T_I, T_U = tags["json_object_int_type_int64"], tags["json_object_int_type_uint64"]
    types = m.enumerators("json_type")
    names = m.struct_fields("%struct.json_object_int")
    chk.require(names and "cint_type" in names and "cint" in names, "layout of struct json_object_int not found")
    K_TAG, K_VAL = names.index("cint_type"), names.index("cint")

    class IncPE(pe.PE):
        def should_inline(self, g, instr):
            return g.internal

        def init_mem(self, state, base, path, t):
            if base != "jso":
                return pe.TOP
            q = [x for x in path if x != ("i", 0)]
            k = 0 if not q else (q[0] if isinstance(q[0], int) else q[0][2] if isinstance(q[0], tuple) and q[0][0] == "f" else None)
            if not q:
                return pe.C(types["json_type_int"])
            if k == K_TAG and len(q) == 1:
                return pe.C(self.tag0)
            if k == K_VAL:
                return pe.C(self.val0)
            return pe.TOP

        def call_model(self, state, frame, i, args):
            if i.callee in ("json_abort", "__assert_fail", "abort"):
                return "STOP"
            return None
    SV = [I64MIN, I64MIN + 1, -10, -1, 0, 1, 10, I64MAX - 1, I64MAX]
    UV = [0, 1, I64MAX, 1 << 63, U64MAX - 1, U64MAX]
    INC = [I64MIN, I64MIN + 1, -10, -1, 0, 1, 3, 10, I64MAX]
    n = 0
    CLS = {"signed representation, result stays signed": None, "signed representation, result needs the unsigned one": None,
           "signed representation, result below INT64_MIN": None, "unsigned representation, result stays non-negative": None,
           "unsigned representation, result negative": None, "unsigned representation, result above UINT64_MAX": None}
    bad, und, cnt = {}, {}, {}
    for tag, vals in ((T_I, SV), (T_U, UV)):
        for v in vals:
            for inc in INC:
                S = v + inc
                want = min(max(S, I64MIN), U64MAX)
                if tag == T_I:
                    cls = ("signed representation, result below INT64_MIN" if S < I64MIN else
                           "signed representation, result needs the unsigned one" if S > I64MAX else "signed representation, result stays signed")
                else:
                    cls = ("unsigned representation, result above UINT64_MAX" if S > U64MAX else
                           "unsigned representation, result negative" if S < 0 else "unsigned representation, result stays non-negative")
                h = IncPE(prog, max_leaves=20, max_steps=5000)
                h.tag0 = tag
                h.val0 = v if v <= I64MAX else v - (1 << 64)
                try:
                    leaves = h.run(f, [("ptr", "jso", ()), pe.C(inc)], pe.State())
                except Exception as e:
                    und.setdefault(cls, "%s: %s" % ((v, inc), e))
                    continue
                n += 1
                cnt[cls] = cnt.get(cls, 0) + 1
                rets = [lf for lf in leaves if lf.kind == "ret"]
                if len(rets) != 1 or rets[0].value is None or not pe.is_const(rets[0].value):
                    und.setdefault(cls, "value %d, increment %d: the evaluation does not end in one concrete return" % (v, inc))
                    continue
                lf = rets[0]
                t2 = h.load(lf.state, h._gep(("ptr", "jso", ()), [pe.C(0), pe.C(K_TAG)], "%struct.json_object_int"), "i32")
                v2 = h.load(lf.state, h._gep(("ptr", "jso", ()), [pe.C(0), pe.C(K_VAL)], "%struct.json_object_int"), "i64")
                if not (pe.is_const(t2) and pe.is_const(v2)):
                    und.setdefault(cls, "value %d, increment %d: the stored tag / value is not concrete afterwards" % (v, inc))
                    continue
                got = v2[1] % (1 << 64) if t2[1] == T_U else (v2[1] if v2[1] <= I64MAX else v2[1] - (1 << 64)) if t2[1] == T_I else None
                if got is not None and got > I64MAX and t2[1] == T_I:
                    got -= 1 << 64
                if (got != want or lf.value[1] != 1) and cls not in bad:
                    bad[cls] = ("a node holding %d as %s incremented by %d afterwards denotes %s as %s (returns %d); the exact sum clamped to "
                                "[INT64_MIN, UINT64_MAX] is %d" % (v, "int64" if tag == T_I else "uint64", inc, got,
                                                                    "int64" if t2[1] == T_I else "uint64" if t2[1] == T_U else "tag %d" % t2[1],
                                                                    lf.value[1], want))
    for cls in CLS:
        if cls in bad:
            chk.refuted(rid, f.name, cls, f.entry.term.locstr(), bad[cls])
        elif cls in und:
            chk.undecided(rid, f.name, cls, f.entry.term.locstr(), und[cls])
        else:
            chk.proven(rid, f.name, cls, f.entry.term.locstr(), "exact or saturated on %d triples" % cnt.get(cls, 0))
    chk.floor(rid, n, 80, "(representation, value, increment) triples")


# ---------------------------------------------------------------------------
# R8 an integer node read as a double
def r8(chk, prog):
    from .. import pe
    rid = "C10.R8"
    chk.rule(rid, "json_object_get_double on an integer node, evaluated for both representations over their boundary values: the "
                  "value that reaches the integer -> double conversion is the stored value read with the signedness of its tag "
                  "(a uint64 above INT64_MAX is converted as unsigned, not clamped through the signed accessor)")
    m = prog.module("json_object.c")
    f = m.functions.get("json_object_get_double")
    chk.require(f is not None and not f.is_decl, "json_object_get_double not found")
    chk.touched(f)
    tags = m.enumerators("json_object_int_type")
    T_I, T_U = tags["json_object_int_type_int64"], tags["json_object_int_type_uint64"]
    types = m.enumerators("json_type")
    names = m.struct_fields("%struct.json_object_int")
    chk.require(names and "cint_type" in names and "cint" in names, "layout of struct json_object_int not found")
    K_TAG, K_VAL = names.index("cint_type"), names.index("cint")

    class DblPE(pe.PE):
        def should_inline(self, g, instr):
            return g.internal or (g.module is f.module and g.name.startswith("json_object_get_") and g is not f)

        def init_mem(self, state, base, path, t):
            if base == "errno":
                return pe.C(0)
            if base != "jso":
                return pe.TOP
            q = [x for x in path if x != ("i", 0)]
            k = 0 if not q else (q[0] if isinstance(q[0], int) else q[0][2] if isinstance(q[0], tuple) and q[0][0] == "f" else None)
            if not q:
                return pe.C(types["json_type_int"])
            if k == K_TAG and len(q) == 1:
                return pe.C(self.tag0)
            if k == K_VAL:
                return pe.C(self.val0)
            return pe.TOP

        def call_model(self, state, frame, i, args):
            if i.callee in ("json_abort", "__assert_fail", "abort"):
                return "STOP"
            if i.callee == "__errno_location":
                return ("ptr", "errno", ())
            return None

        def _simple(self, frame, i, state):
            if i.op in ("sitofp", "uitofp"):
                state.trace.append(("conv", i.op, self.val(frame, i.ops[0], state), i))
            return super()._simple(frame, i, state)
    SV = [I64MIN, -10, -1, 0, 1, I64MAX]
    UV = [0, 1, I64MAX, 1 << 63, (1 << 63) + (1 << 62), U64MAX]
    bad = und = None
    n = 0
    for tag, vals in ((T_I, SV), (T_U, UV)):
        for v in vals:
            h = DblPE(prog, max_leaves=40, max_steps=10000)
            h.tag0 = tag
            h.val0 = v if v <= I64MAX else v - (1 << 64)
            try:
                leaves = h.run(f, [("ptr", "jso", ())], pe.State())
            except Exception as e:
                und = und or "%d: %s" % (v, e)
                continue
            n += 1
            rets = [lf for lf in leaves if lf.kind == "ret"]
            if len(rets) != 1:
                und = und or "value %d: the evaluation does not end in one return" % v
                continue
            convs = [e for e in rets[0].state.trace if e[0] == "conv"]
            if len(convs) != 1 or not pe.is_const(convs[0][2]):
                und = und or "value %d (%s): the operand of the integer -> double conversion is not concrete" % (v, "int64" if tag == T_I else "uint64")
                continue
            op, a = convs[0][1], convs[0][2][1]
            got = a % (1 << 64) if op == "uitofp" else (a if -(1 << 63) <= a <= I64MAX else (a % (1 << 64)) - (1 << 64) if (a % (1 << 64)) > I64MAX else a % (1 << 64))
            if got != v and bad is None:
                bad = ("a node holding %d as %s is read as a double by converting %d (%s): the exact value is replaced by another one"
                       % (v, "int64" if tag == T_I else "uint64", got, "signed conversion" if op == "sitofp" else "unsigned conversion"))
    if bad:
        chk.refuted(rid, f.name, "integer node as double", f.entry.term.locstr(), bad)
    elif und:
        chk.undecided(rid, f.name, "integer node as double", f.entry.term.locstr(), und)
    else:
        chk.proven(rid, f.name, "integer node as double", f.entry.term.locstr(), "the stored value itself is converted on %d (tag, value) pairs" % n)
    chk.floor(rid, n, 8, "(tag, value) pairs")


# ---------------------------------------------------------------------------
# R9 the integer getters on every state the setters and the increment can produce
def r9_getters_on_produced_states(chk, prog):
    from .. import pe
    rid = "C10.R9"
    chk.rule(rid, "the integer getters agree with the node's exact value on every representation the library itself can produce: the "
                  "(tag, stored value) states are collected by evaluating json_object_set_int64 / json_object_set_uint64 on the boundary "
                  "values and json_object_int_inc on each of those states with the boundary increments; json_object_get_int, "
                  "json_object_get_int64 and json_object_get_uint64, evaluated on every collected state, return the denoted value "
                  "clamped to the result type (a getter may rely on a representation invariant only if every producer keeps it)")
    m = prog.module("json_object.c")
    fns = {k: m.functions.get(k) for k in ("json_object_set_int64", "json_object_set_uint64", "json_object_int_inc",
                                           "json_object_get_int", "json_object_get_int64", "json_object_get_uint64")}
    chk.require(all(f is not None and not f.is_decl for f in fns.values()), "integer setters / getters not found")
    tags = m.enumerators("json_object_int_type")
    T_I, T_U = tags["json_object_int_type_int64"], tags["json_object_int_type_uint64"]
    types = m.enumerators("json_type")
    names = m.struct_fields("%struct.json_object_int")
    chk.require(names and "cint_type" in names and "cint" in names, "layout of struct json_object_int not found")
    K_TAG, K_VAL = names.index("cint_type"), names.index("cint")

    class NodePE(pe.PE):
        def should_inline(self, g, instr):
            return g.internal or (g.module is m and (g.name.startswith("json_object_set_") or g.name.startswith("json_object_get_")))

        def init_mem(self, state, base, path, t):
            if base == "errno":
                return pe.C(0)
            if base != "jso":
                return pe.TOP
            q = [x for x in path if x != ("i", 0)]
            k = 0 if not q else (q[0] if isinstance(q[0], int) else q[0][2] if isinstance(q[0], tuple) and q[0][0] == "f" else None)
            if not q:
                return pe.C(types["json_type_int"])
            if k == K_TAG and len(q) == 1:
                return pe.C(self.tag0)
            if k == K_VAL:
                return pe.C(self.val0)
            return pe.TOP

        def call_model(self, state, frame, i, args):
            if i.callee in ("json_abort", "__assert_fail", "abort"):
                return "STOP"
            if i.callee == "__errno_location":
                return ("ptr", "errno", ())
            return None

    def evaluate(f, tag, val, extra):
        h = NodePE(prog, max_leaves=40, max_steps=10000)
        h.tag0 = tag
        h.val0 = val if val <= I64MAX else val - (1 << 64)
        leaves = h.run(f, [("ptr", "jso", ())] + extra, pe.State())
        rets = [lf for lf in leaves if lf.kind == "ret"]
        if len(rets) != 1 or len([lf for lf in leaves if lf.kind != "stop"]) != 1:
            return None, None
        return h, rets[0]

    def state_after(h, lf):
        t2 = h.load(lf.state, h._gep(("ptr", "jso", ()), [pe.C(0), pe.C(K_TAG)], "%struct.json_object_int"), "i32")
        v2 = h.load(lf.state, h._gep(("ptr", "jso", ()), [pe.C(0), pe.C(K_VAL)], "%struct.json_object_int"), "i64")
        if not (pe.is_const(t2) and pe.is_const(v2)) or t2[1] not in (T_I, T_U):
            return None
        return (t2[1], v2[1] % (1 << 64))

    def denotes(st):
        t, raw = st
        return raw if t == T_U else (raw - (1 << 64) if raw > I64MAX else raw)
    SV = [I64MIN, -10, -1, 0, 1, 10, (1 << 31) - 1, 1 << 31, I64MAX]
    UV = [0, 1, 10, I64MAX, 1 << 63, (1 << 63) + 10, U64MAX]
    INC = [I64MIN, I64MIN + 1, -10, -1, 0, 1, 10, I64MAX]
    produced = {}
    skipped = 0
    for fname, vals in (("json_object_set_int64", SV), ("json_object_set_uint64", UV)):
        for v in vals:
            try:
                h, lf = evaluate(fns[fname], T_I, 0, [pe.C(v if v <= I64MAX else v - (1 << 64))])
            except Exception:
                h = None
            st = state_after(h, lf) if h is not None else None
            if st is None:
                skipped += 1
                continue
            produced.setdefault(st, "%s(%d)" % (fname, v))
    for st, how in list(produced.items()):
        for inc in INC:
            try:
                h, lf = evaluate(fns["json_object_int_inc"], st[0], st[1], [pe.C(inc)])
            except Exception:
                h = None
            st2 = state_after(h, lf) if h is not None else None
            if st2 is None:
                skipped += 1
                continue
            produced.setdefault(st2, "%s, then json_object_int_inc(%d)" % (how, inc))
    chk.tables["integer_states_produced"] = len(produced)
    GET = {"json_object_get_int": (-(1 << 31), (1 << 31) - 1, 32), "json_object_get_int64": (I64MIN, I64MAX, 64), "json_object_get_uint64": (0, U64MAX, 64)}
    n = 0
    for gname, (lo, hi, bits) in GET.items():
        f = fns[gname]
        chk.touched(f)
        bad = und = None
        cnt = 0
        for st, how in sorted(produced.items()):
            try:
                h, lf = evaluate(f, st[0], st[1], [])
            except Exception as e:
                und = und or "%s: %s" % (how, e)
                continue
            if h is None or lf.value is None or not pe.is_const(lf.value):
                und = und or "after %s: the evaluation does not end in one concrete return" % how
                continue
            n += 1
            cnt += 1
            want = min(max(denotes(st), lo), hi)
            if lf.value[1] % (1 << bits) != want % (1 << bits) and bad is None:
                got = lf.value[1] % (1 << bits)
                if lo < 0 and got >= 1 << (bits - 1):
                    got -= 1 << bits
                bad = ("after %s the node holds %d (stored as %s); %s returns %d instead of %d" %
                       (how, denotes(st), "int64" if st[0] == T_I else "uint64", gname, got, want))
        if bad:
            chk.refuted(rid, gname, "every produced state", f.entry.term.locstr(), bad)
        elif und:
            chk.undecided(rid, gname, "every produced state", f.entry.term.locstr(), und)
        else:
            chk.proven(rid, gname, "every produced state", f.entry.term.locstr(), "exact or clamped on %d produced (tag, value) states" % cnt)
    chk.floor(rid, n, 60, "(getter, produced state) evaluations")
