"""C03 - incremental parsing is independent of how the input is split into calls.

R1 no scanner state lives in a local across characters (a call boundary would lose it): address-taken locals written in the
   character loop and read without a same-iteration store; loop-header phis of the main loop
R2 flush before a resumable exit: a content byte consumed in a tight-loop state is appended to the token buffer before the call returns
R3 the end-of-chunk probe is pure: it writes nothing but the status (and the flush)
R4 the tight loops' own locals are (re)initialised at case entry from constants or parser fields
R5 after a successful parse every level is reset, so the next document starts clean
R6 one-boundary split independence on the extracted automaton: for every reachable configuration and every pair of bytes, one call on
   both bytes has the same status, value presence, end position and successor configuration as a call on the first byte (returning
   'continue') followed by a call on the second.  By induction over boundaries this covers every chunking, given R1.
"""
from ..ir import load_program
from ..cfg import cfg_of
from ..flow import Paths
from .. import tokauto, product
from ..frontend import AnalysisBroken
from ..tokrules import F_STRICT, F_UTF8

TIGHT = {"string", "object_field", "comment", "comment_eol", "number"}
OPAQUE = {"number", "null", "boolean", "inf"}


def run(chk):
    prog = load_program("default")
    chk.variant(prog)
    f = prog.fn("json_tokener_parse_ex")
    chk.require(f is not None, "json_tokener_parse_ex not found")
    chk.touched(f)
    flagsets = [(0, "default")] if chk.tier == "quick" else [(0, "default"), (F_STRICT, "strict"), (F_UTF8, "validate_utf8")]
    r1(chk, prog, f)
    r4(chk, prog, f)
    r7(chk, prog, f)
    for flags, name in flagsets:
        T = tokauto.get_table(prog, flags, 2)
        chk.tables[name] = {"configurations": len(T.trans), "transitions": sum(len(v) for v in T.trans.values())}
        r2(chk, T, name)
        r3(chk, T, name)
        r5(chk, T, name)
        r6(chk, T, name)
        r11(chk, T, name)
        r10(chk, T, name)
    from .. import numrules
    numrules.rule_split_numbers(chk, prog, "C03.R8", maxlen=4 if chk.tier == "quick" else 12,
                                modes=((0, "default"),) if chk.tier == "quick" else ((0, "default"), (F_STRICT, "strict")))
    from .. import numtok
    numrules.rule_split_numbers(chk, prog, "C03.R9", maxlen=6, alpha=numtok.LIT_ALPHA,
                                modes=((0, "default"),) if chk.tier == "quick" else ((0, "default"), (F_STRICT, "strict")),
                                text="literal tokens (null / true / false / NaN): from every reachable (configuration, saved text) pair, "
                                     "feeding two bytes in one call and in two calls gives the same status, consumed count, successor "
                                     "configuration, saved text and constructor calls")
    with chk.shared():
        # a finished number followed by a byte that arrives in the next call must end exactly as it does in one call (shared with
        # C16: the token buffer is modelled and the bytes are fed one per call)
        numrules.rule_trailing_after_number(chk, prog, "C16.X8n")
    chk.undecided_clauses += [
        "equality of the *values* produced by a split and an unsplit parse (only status, value presence, end position and successor "
        "configuration are compared; number and literal token text is modelled by R8 / R9)",
        "numbers: R8 compares two-byte calls with two one-byte calls from every reachable (configuration, saved text) pair; longer "
        "chunkings follow by induction on the carried scan state, which the comparison shows equivalent to the re-derived one",
        "VALIDATE_UTF8 interplay beyond R1 (thorough tier explores the flag)",
    ]


def _loop_blocks(f):
    cfg = cfg_of(f)
    # the main character loop: the back-edge target with the most blocks in its natural loop
    best = None
    for a, h in cfg.back_edges():
        body = {h}
        work = [a]
        while work:
            b = work.pop()
            if b in body:
                continue
            body.add(b)
            work.extend(b.preds)
        if best is None or len(body) > len(best[1]):
            best = (h, body)
    return best


def r1(chk, prog, f):
    rid = "C03.R1"
    chk.rule(rid, "no local of json_tokener_parse_ex carries scanner state from one character to a later one: such state is lost when the "
                  "input is split there (the cursor, re-seeded from the argument, and values consumed before the next read are exempt)")
    cfg = cfg_of(f)
    header, body = _loop_blocks(f)
    P = Paths(f, prog)
    allocas = [i for i in f.instrs() if i.op == "alloca"]
    n = 0
    params = {nm for t, nm in f.params if nm is not None}
    for a in allocas:
        # the cursor kept in memory (its address is handed to a helper): initialised in the entry block from the input-pointer
        # parameter, i.e. re-seeded from the argument on every call - the same exemption as for the cursor held in a register
        seeds = [i for i in f.entry.instrs if i.op == "store" and i.ops[1].kind == "reg" and i.ops[1].v == a.res]
        if seeds and all(i.ops[0].kind == "reg" and i.ops[0].v in params and i.ops[0].type.endswith("*") for i in seeds) \
                and a.type.startswith("i8*"):
            continue
        n += 1
        # address uses: direct loads/stores and calls receiving the address (callee reads/writes through it)
        regs = {a.res}
        work = [a.res]
        while work:
            r = work.pop()
            for u in cfg.users(r):
                if u.op in ("bitcast", "getelementptr", "phi") and u.res not in regs:
                    regs.add(u.res)
                    work.append(u.res)
        events = []   # (instr, kind) kind in load/store/callrw
        for i in f.instrs():
            if i.op == "load" and i.ops[0].kind == "reg" and i.ops[0].v in regs:
                events.append((i, "load"))
            elif i.op == "store" and i.ops[1].kind == "reg" and i.ops[1].v in regs:
                events.append((i, "store"))
            elif i.op == "call":
                for k, arg in enumerate(i.ops):
                    if arg.kind == "reg" and arg.v in regs:
                        g = prog.resolve(i.callee, f.module) if i.callee else None
                        if g is not None:
                            rw = _param_rw(prog, g, k)
                            if "r" in rw:
                                events.append((i, "load"))
                            if "w" in rw:
                                events.append((i, "store"))
                        elif i.callee and i.callee.startswith("llvm."):
                            pass
                        else:
                            events.append((i, "load" if k > 0 else "store"))
        in_loop_stores = [i for i, k in events if k == "store" and i.block in body]
        in_loop_loads = [i for i, k in events if k == "load" and i.block in body]
        # a local whose address is handed to a callee is named by that role (the name of the variable may change)
        handed = sorted({i.callee for i, k in events if i.op == "call" and i.callee and not i.callee.startswith("llvm.")})
        sig = ("local state handed by address to %s" % ", ".join(handed)) if handed else ("local %s" % a.res)
        if not in_loop_stores:
            chk.proven(rid, f.name, sig, a.locstr(), "not written inside the character loop")
            continue
        # a load inside the loop (or after it) not preceded, within the same iteration, by a store
        carried = None
        for ld in in_loop_loads:
            if not _store_precedes_in_iteration(f, header, body, ld, [s for s in in_loop_stores]):
                carried = ld
                break
        if carried is None:
            chk.proven(rid, f.name, sig, a.locstr(), "every read in the loop is preceded by a write of the same iteration")
        else:
            chk.refuted(rid, f.name, sig, carried.locstr(),
                        "the local '%s' is written while scanning one character and read while scanning a later one (at %s): it holds scanner "
                        "state that is lost at a call boundary, so a text split at that point is parsed differently" % (a.res, carried.locstr()),
                        {"read": carried.raw})
    # loop-header phis of the main loop
    T = tokauto.get_table(prog, 0, 2)
    for i in header.instrs:
        if i.op != "phi":
            continue
        n += 1
        sig = "loop-carried %s" % i.res
        if i.type == "i8*":
            chk.proven(rid, f.name, sig, i.locstr(), "the input cursor: re-seeded from the argument on every call")
            continue
        # a carried node pointer: its consumers must only run in states that never rest across a call boundary
        users = _transitive_users(f, i.res)
        consumer_calls = [u for u in users if u.op == "call" and u.callee in ("json_object_array_add", "json_object_object_add")]
        resting = set()
        for cfgk in T.trans:
            resting.add(T.state_name.get(cfgk[1][cfgk[0]][0]))
        consume_states = {"array_add", "object_value_add"}
        if consumer_calls and not (consume_states & resting):
            chk.proven(rid, f.name, sig, i.locstr(),
                       "consumed only in states %s, which are entered and left without reading input (never the state at a call boundary)" % sorted(consume_states))
        else:
            chk.refuted(rid, f.name, sig, i.locstr(),
                        "the local carried around the character loop can be live at a call boundary (resting states include %s)" % sorted(consume_states & resting))
    chk.floor(rid, n, 5, "locals and loop-carried values examined")


def _transitive_users(f, reg):
    cfg = cfg_of(f)
    seen = {reg}
    out = []
    work = [reg]
    while work:
        r = work.pop()
        for u in cfg.users(r):
            out.append(u)
            if u.op in ("phi", "bitcast", "select") and u.res not in seen:
                seen.add(u.res)
                work.append(u.res)
    return out


_rw_cache = {}


def _param_rw(prog, g, k):
    key = (id(g), k)
    if key in _rw_cache:
        return _rw_cache[key]
    _rw_cache[key] = set()
    t, nm = g.params[k]
    cfg = cfg_of(g)
    regs = {nm}
    work = [nm]
    rw = set()
    while work:
        r = work.pop()
        for u in cfg.users(r):
            if u.op in ("bitcast", "getelementptr", "phi") and u.res not in regs:
                regs.add(u.res)
                work.append(u.res)
            elif u.op == "load" and u.ops[0].kind == "reg" and u.ops[0].v == r:
                rw.add("r")
            elif u.op == "store" and u.ops[1].kind == "reg" and u.ops[1].v == r:
                rw.add("w")
            elif u.op == "call" and u.callee:
                h = prog.resolve(u.callee, g.module)
                for ai, a in enumerate(u.ops):
                    if a.kind == "reg" and a.v == r and h is not None:
                        rw |= _param_rw(prog, h, ai)
    _rw_cache[key] = rw
    return rw


def _store_precedes_in_iteration(f, header, body, ld, stores):
    """every feasible path from the loop header to `ld` inside the loop body passes one of `stores`.
    Feasibility: constants merged by phi nodes (the value of a nested ?: such as PEEK_CHAR) are followed into the
    branch that tests them, so the 'no character available' arm is not taken into the loop body."""
    store_pos = {}
    for s in stores:
        store_pos.setdefault(s.block, []).append(s.idx)
    seen = set()
    work = [(header, None, ())]
    while work:
        b, pred, envt = work.pop()
        env = dict(envt)
        if pred is not None:
            newv = {}
            for i in b.instrs:
                if i.op != "phi":
                    break
                for v, lab in i.x["incoming"]:
                    if lab == pred.name:
                        if v.kind == "int":
                            newv[i.res] = v.v
                        elif v.kind == "reg" and v.v in env:
                            newv[i.res] = env[v.v]
            env = newv
        limit = ld.idx if b is ld.block else len(b.instrs)
        hit_store = any(0 <= si < limit for si in store_pos.get(b, []))
        if b is ld.block and not hit_store:
            return False
        if hit_store:
            continue
        # evaluate straight-line casts / comparisons of known values
        for i in b.instrs:
            if i.res is None or i.op == "phi":
                continue
            if i.op in ("zext", "sext", "trunc") and i.ops[0].kind == "reg" and i.ops[0].v in env:
                env[i.res] = env[i.ops[0].v]
            elif i.op == "icmp" and i.x["pred"] in ("eq", "ne"):
                vals = []
                for o in i.ops:
                    vals.append(o.v if o.kind == "int" else env.get(o.v) if o.kind == "reg" else None)
                if None not in vals:
                    env[i.res] = int((vals[0] == vals[1]) == (i.x["pred"] == "eq"))
        t = b.term
        succs = list(b.succs)
        if t.op == "br" and len(t.x["targets"]) == 2 and t.ops and t.ops[0].kind == "reg" and t.ops[0].v in env:
            tgt = t.x["targets"][0] if env[t.ops[0].v] else t.x["targets"][1]
            succs = [f.blocks[tgt]]
        for s_ in succs:
            if s_ in body and s_ is not header:
                key = (s_, b, tuple(sorted(env.items())))
                if key not in seen:
                    seen.add(key)
                    work.append((s_, b, tuple(sorted(env.items()))))
    return True


def _entry_value_ok(f, v, depth=0):
    """constant, or selected among constants by phis/selects, or loaded from a parser field"""
    if v.kind in ("int", "null"):
        return True
    if v.kind != "reg" or depth > 6:
        return False
    d = f.defs.get(v.v)
    if d is None:
        return False
    if d.op in ("phi", "select"):
        ops = d.ops[1:] if d.op == "select" else d.ops
        return all(_entry_value_ok(f, o, depth + 1) for o in ops if not (o.kind == "reg" and o.v == v.v))
    if d.op in ("zext", "sext", "trunc"):
        return _entry_value_ok(f, d.ops[0], depth + 1)
    if d.op == "load":
        return True
    if d.op in ("icmp", "and", "or", "xor", "add", "sub"):
        # computed from the saved token text / parser fields (comparisons of loaded characters or pointers)
        return all(_entry_value_ok(f, o, depth + 1) or o.kind in ("int", "null") for o in d.ops)
    if d.op == "call":
        return d.callee in ("strchr", "strrchr", "strpbrk", "memchr", "strlen", "strstr")
    if d.op in ("getelementptr", "bitcast", "ptrtoint"):
        return _entry_value_ok(f, d.ops[0], depth + 1)
    return False


def r7(chk, prog, f):
    rid = "C03.R7"
    chk.rule(rid, "resuming inside a number: the characters the resume code looks for in the saved text to re-derive the exponent / sign "
                  "flags are exactly the exponent markers the scanning loop itself recognises (reader and writer of the carried state agree)")
    P = Paths(f, prog)
    cfg = cfg_of(f)
    # exponent markers of the scanning loop: the case group of the switch on the current character that contains 'e'
    loop_markers = None
    for i in f.instrs():
        if i.op == "switch" and P.path(i.ops[0]) == "c":
            vals = dict(i.x["cases"])
            if ord("e") in vals and ord(".") in vals:
                tgt = vals[ord("e")]
                loop_markers = {v for v, l in i.x["cases"] if l == tgt}
    chk.require(loop_markers is not None, "the number loop's switch on exponent markers was not found")
    # the resume code: searches of the token buffer for marker characters, and character comparisons on the token buffer,
    # between the entry of the number case and the scanning loop
    searched = set()
    compared = set()
    sites = []
    for i in f.instrs():
        if i.op == "call" and i.callee in ("strchr", "strrchr", "memchr") and P.path(i.ops[0]).endswith("pb->buf") and i.ops[1].kind == "int":
            if chr(i.ops[1].v % 256) in "eE+-.":
                searched.add(i.ops[1].v % 256)
                sites.append(i)
        elif i.op == "call" and i.callee in ("strpbrk", "strcspn", "strspn") and P.path(i.ops[0]).endswith("pb->buf"):
            a = i.ops[1]
            while a.kind == "cexpr" and a.args:
                a = a.args[0]
            g = f.module.globals.get(a.v) if a.kind == "global" else None
            if g is not None and g.bytes is not None:
                searched |= set(g.bytes.rstrip(b"\0"))
                sites.append(i)
    if not sites:
        chk.undecided(rid, f.name, "resume of a number", f.entry.term.locstr(), "no search of the saved number text found: the resume logic has another shape")
        return
    first = sites[0]
    # region between the resume search and the scanning loop: forward from the search, backward from the loop's switch,
    # never through the character loop's header or the re-dispatch label
    main_header, _ = _loop_blocks(f)
    barrier = {main_header}
    for a, h in cfg.back_edges():
        if len(h.preds) > 8:
            barrier.add(h)      # the re-dispatch label (many gotos)
    sw_block = None
    for i in f.instrs():
        if i.op == "switch" and P.path(i.ops[0]) == "c" and ord("e") in dict(i.x["cases"]) and ord(".") in dict(i.x["cases"]):
            sw_block = i.block
    fwd = set()
    work = [first.block]
    while work:
        b = work.pop()
        if b in fwd or b in barrier:
            continue
        fwd.add(b)
        work.extend(b.succs)
    bwd = set()
    work = [sw_block]
    while work:
        b = work.pop()
        if b in bwd or b in barrier:
            continue
        bwd.add(b)
        work.extend(b.preds)
    # exclude the scanning loop itself (blocks that the switch block reaches and that reach it again)
    loop = set()
    work = list(sw_block.succs)
    seen = set()
    while work:
        b = work.pop()
        if b in seen or b in barrier:
            continue
        seen.add(b)
        work.extend(b.succs)
    loop = {b for b in seen if b in bwd}
    region = (fwd & bwd) - loop
    # character comparisons against constants on bytes loaded from the token buffer inside that region
    for i in f.instrs():
        if i.block not in region:
            continue
        if i.op == "icmp" and i.x["pred"] in ("eq", "ne"):
            for a, b in ((i.ops[0], i.ops[1]), (i.ops[1], i.ops[0])):
                if b.kind == "int" and a.kind == "reg" and chr(b.v % 256) in "eE":
                    d = f.defs.get(a.v)
                    while d is not None and d.op in ("sext", "zext") and d.ops[0].kind == "reg":
                        d = f.defs.get(d.ops[0].v)
                    if d is not None and d.op == "load" and "pb->buf" in P.path(d.ops[0]) and cfg.dominates_block(first.block, i.block) is not None:
                        if i.block in cfg.reachable_from(first.block):
                            compared.add(b.v % 256)
    sig = "exponent markers"
    names = lambda s_: sorted(chr(x) for x in s_)
    if searched != loop_markers:
        chk.refuted(rid, f.name, sig, first.locstr(),
                    "the scanning loop treats %s as exponent markers but the resume code searches the saved text for %s: a number split "
                    "after the other marker resumes with the wrong exponent state" % (names(loop_markers), names(searched)))
    elif compared and compared != loop_markers:
        chk.refuted(rid, f.name, sig, first.locstr(),
                    "the scanning loop treats %s as exponent markers but the resume code tests the last saved character only against %s: "
                    "a number split right after %s loses the 'sign allowed' state" % (names(loop_markers), names(compared), names(loop_markers - compared)))
    else:
        chk.proven(rid, f.name, sig, first.locstr(), "scanning loop and resume code agree on the marker set %s" % names(loop_markers))


def r4(chk, prog, f):
    rid = "C03.R4"
    chk.rule(rid, "the locals carried inside a tight loop are initialised on entry to the loop from constants or parser fields only "
                  "(they are re-derived, not inherited, when a call resumes inside the token)")
    cfg = cfg_of(f)
    main_header, main_body = _loop_blocks(f)
    P = Paths(f, prog)
    dispatch = None
    for i in f.instrs():
        if i.op == "switch" and P.path(i.ops[0]).endswith(".state"):
            if dispatch is None or len(i.x["cases"]) > len(dispatch.x["cases"]):
                dispatch = i
    n = 0
    for a, h in cfg.back_edges():
        if h is main_header:
            continue
        # natural loop of this back edge
        body = {h}
        work = [a]
        while work:
            b = work.pop()
            if b in body:
                continue
            body.add(b)
            work.extend(b.preds)
        if dispatch is not None and dispatch.block in body:
            continue    # the non-consuming re-dispatch (redo_char), not a tight loop
        for i in h.instrs:
            if i.op != "phi" or i.type.endswith("*"):
                continue
            n += 1
            bad = None
            for v, lab in i.x["incoming"]:
                pb = f.blocks[lab]
                if pb in body:
                    continue   # back edge
                if not _entry_value_ok(f, v):
                    bad = v
            sig = "tight-loop local %s" % i.res
            if bad is None:
                chk.proven(rid, f.name, sig, i.locstr(), "entry value is a constant (possibly selected by tests on the saved token text) or a parser field")
            else:
                chk.refuted(rid, f.name, sig, i.locstr(), "entry value %r of a tight-loop local is inherited from outside the case" % bad)
    chk.floor(rid, n, 4, "tight-loop locals")


def r2(chk, T, name):
    rid = "C03.R2"
    chk.rule(rid, "in the tight-loop states (string, member name, both comment kinds, number) a byte that is consumed as token content "
                  "is appended to the token buffer from the input before the call returns")
    n = 0
    bad = None
    for cfg, outs in T.trans.items():
        top = T.state_name.get(cfg[1][cfg[0]][0])
        if top not in TIGHT:
            continue
        for o in outs:
            if o.err != 1 or o.consumed != 1 or o.next is None:
                continue
            ntop = T.state_name.get(o.next[1][o.next[0]][0])
            if ntop != top or o.next[0] != cfg[0]:
                continue     # the byte ended or left the token
            n += 1
            flushed = [a for a in o.appends if a.get("src") == "input" and a.get("len") == 1]
            if not flushed and bad is None:
                bad = (cfg, o)
    sig = "%s: content bytes" % name
    if bad:
        cfg, o = bad
        chk.refuted(rid, "json_tokener_parse_ex", sig, "json_tokener.c",
                    "in configuration %s a content byte (%s) is consumed and the call returns 'continue' without appending it to the token "
                    "buffer (appends: %s): the byte is lost when the token continues in the next call"
                    % (T.cfg_str(cfg), product.show(bytes(sorted(b % 256 for b in o.bytes))[:6]), o.appends))
    else:
        chk.proven(rid, "json_tokener_parse_ex", sig, "json_tokener.c", "%d content-byte transitions each flush exactly the consumed byte" % n)
    chk.floor(rid + "." + name, n, 10, "content-byte transitions in tight-loop states")


def r3(chk, T, name):
    rid = "C03.R3"
    chk.rule(rid, "after the last cursor advance of a call that returns 'continue', nothing is written except the status and the flush "
                  "of already-consumed bytes (the end-of-chunk probe has no other effect)")
    bad = None
    n = 0
    allowed_calls = {"printbuf_memappend", "uselocale", "freelocale", "setlocale", "free"}
    for cfg, outs in T.trans.items():
        for o in outs:
            if o.err != 1:
                continue
            n += 1
            extra = [t for t in o.tail if (t.startswith("wr:") and t != "wr:err") or t in ("pbstore", "read", "lookahead")
                     or (t.startswith("call:") and t[5:] not in allowed_calls)]
            if extra and bad is None:
                bad = (cfg, o, extra)
    sig = "%s: probe effects" % name
    if bad:
        chk.refuted(rid, "json_tokener_parse_ex", sig, "json_tokener.c",
                    "configuration %s: after the cursor's last advance the call still performs %s before returning 'continue'; a resumed "
                    "parse would start from a different state than the unsplit one" % (T.cfg_str(bad[0]), bad[2]))
    else:
        chk.proven(rid, "json_tokener_parse_ex", sig, "json_tokener.c", "%d 'continue' outcomes: only the status and the flush follow the last advance" % n)


def r5(chk, T, name):
    rid = "C03.R5"
    chk.rule(rid, "a call that returns a value leaves every level reset (fresh configuration), so concatenated documents parse independently")
    init = T.canon(tokauto.initial_config())
    bad = None
    n = 0
    for cfg, outs in T.trans.items():
        for o in outs:
            if o.err == 0:
                n += 1
                if o.next != init and bad is None:
                    bad = (cfg, o)
    sig = "%s: after success" % name
    if bad:
        chk.refuted(rid, "json_tokener_parse_ex", sig, "json_tokener.c",
                    "after a successful parse from %s the parser is left in %s instead of the fresh configuration" % (T.cfg_str(bad[0]), T.cfg_str(bad[1].next)))
    else:
        chk.proven(rid, "json_tokener_parse_ex", sig, "json_tokener.c", "%d successful outcomes all end in the fresh configuration" % n)
    chk.floor(rid + "." + name, n, 10, "successful outcomes")


def _atoms(sets):
    """partition of the byte range into classes that are not separated by any of the given sets"""
    sig = {}
    for b in range(-128, 128):
        key = tuple(b in s for s in sets)
        sig.setdefault(key, []).append(b)
    return list(sig.values())


def r6(chk, T, name):
    rid = "C03.R6"
    chk.rule(rid, "one-boundary split independence: for every reachable configuration and every pair of bytes, parse(b0 b1) in one call "
                  "equals parse(b0) [continue] followed by parse(b1): same status, value presence, end position and successor configuration")
    npairs = 0
    nconf = 0
    bad = None
    for cfg, outs1 in T.trans.items():
        if not any(o.err == 1 for o in outs1):
            continue
        nconf += 1
        outs2 = T.step(cfg, length=2)
        # composed relation
        comp = []
        opaque_b0 = set()
        for o1 in outs1:
            if o1.err != 1 or o1.consumed != 1:
                continue
            if T.state_name.get(o1.next[1][o1.next[0]][0]) in OPAQUE:
                # the resumed call re-derives its position inside the token from the saved token text (strchr / strncmp on
                # data): value-level, not decided here
                opaque_b0 |= set(o1.bytes)
                continue
            for o2 in T.trans[o1.next]:
                comp.append((o1.bytes, o2.bytes, (o2.err, bool(o2.ret_nonnull), 1 + (o2.consumed or 0),
                                                  o2.next if o2.err in (0, 1) else None)))
        cont_bytes = set()
        for o1 in outs1:
            if o1.err == 1:
                cont_bytes |= set(o1.bytes)
        whole = []
        ALL = frozenset(range(-128, 128))
        for o in outs2:
            nx = None
            if o.err in (0, 1) and o.next is not None and not any(None in lv for lv in o.next[1]):
                nx = T.canon(o.next)
            whole.append((o.bytes, o.bytes1 if o.bytes1 is not None else ALL, (o.err, bool(o.ret_nonnull), o.consumed, nx)))
        a0 = _atoms([s for s, _, _ in comp] + [s for s, _, _ in whole])
        a1 = _atoms([s for _, s, _ in comp] + [s for _, s, _ in whole])
        for A in a0:
            b0 = A[0]
            if b0 not in cont_bytes or b0 == 0 or b0 in opaque_b0:
                continue
            # the first byte must be one for which *every* one-byte outcome is 'continue' (the property's premise)
            if any(b0 in o1.bytes and o1.err != 1 for o1 in outs1):
                continue
            for B in a1:
                b1 = B[0]
                npairs += 1
                rc = {r for s0, s1, r in comp if b0 in s0 and b1 in s1}
                rw = {r for s0, s1, r in whole if b0 in s0 and b1 in s1}
                if rc != rw and bad is None:
                    bad = (cfg, b0 % 256, b1 % 256, rc, rw)
    sig = "%s: two bytes, one call vs two calls" % name
    if bad:
        cfg, b0, b1, rc, rw = bad

        def fmt(rs):
            return sorted("%s%s end=%s -> %s" % (T.err_name.get(e, e), "+value" if v else "", c, T.cfg_str(nx) if nx else "-") for e, v, c, nx in rs)
        chk.refuted(rid, "json_tokener_parse_ex", sig, "json_tokener.c",
                    "from configuration %s the bytes %r parsed in one call give %s, but split between the two bytes they give %s"
                    % (T.cfg_str(cfg), product.show(bytes([b0, b1])), fmt(rw - rc) or fmt(rw), fmt(rc - rw) or fmt(rc)),
                    {"one_call": fmt(rw), "two_calls": fmt(rc)})
    else:
        chk.proven(rid, "json_tokener_parse_ex", sig, "json_tokener.c",
                   "%d configurations x byte-class pairs (%d comparisons) agree" % (nconf, npairs))
    chk.floor(rid + "." + name, nconf, 100, "configurations compared")


def r11(chk, T, name, K=4):
    """K bytes in one call against the same bytes fed one per call"""
    from itertools import product as iproduct
    rid = "C03.R11"
    chk.rule(rid, "chunk-length independence inside tokens: from every reachable configuration that is inside a string, an escape or "
                  "a comment, %d bytes over the representatives '0' 'g' '\"' '\\' 'u' '/' '*' given in one call end with the same status, value "
                  "presence, end position, successor configuration and amount of text appended to the token (input bytes copied "
                  "verbatim, decoded pieces) as the same bytes given one per call (a fast path that looks "
                  "ahead in the chunk must agree with the byte-by-byte path)" % K)
    ALPHA = [0x30, 0x67, 0x22, 0x5C, 0x75, 0x2F, 0x2A]

    def app(o):
        """(input bytes appended to the token verbatim, number of other appends) of one call"""
        v = sum(int(x.get("len") or 0) for x in o.appends if x.get("src") == "input" and isinstance(x.get("len"), int))
        return v, sum(1 for x in o.appends if x.get("src") != "input")
    INSIDE = ("string", "string_escape", "escape_unicode", "escape_unicode_need_escape", "escape_unicode_need_u", "comment", "comment_eol",
              "comment_end", "comment_start", "object_field", "object_field_start")
    bad = None
    nconf = ncmp = 0
    skipped = 0
    for cfg, outs1 in T.trans.items():
        top = T.state_name.get(cfg[1][cfg[0]][0])
        if top not in INSIDE or not any(o.err == 1 for o in outs1):
            continue
        try:
            whole = T.step(cfg, byte_domain=ALPHA, length=K, keep_state=True)
        except AnalysisBroken:
            skipped += 1
            continue
        nconf += 1
        W = []
        for o in whole:
            if o.err is None:
                W = None
                break
            doms = []
            for k in range(K):
                nm = "c" if k == 0 else "c%d" % k
                doms.append(frozenset(o.stores.roots[nm]) if nm in o.stores.roots else None)
            nx = None
            if o.err in (0, 1) and o.next is not None and not any(None in lv for lv in o.next[1]):
                nx = T.canon(o.next)
            W.append((doms, (o.err, bool(o.ret_nonnull), o.consumed, nx) + app(o)))
        if W is None:
            skipped += 1
            continue
        for tup in iproduct(ALPHA, repeat=K):
            # byte-per-call composition
            frontier = {(cfg, 0, 0, 0)}
            rc = set()
            unknown = False
            for k, b in enumerate(tup):
                nxt = set()
                for c, used, av, ao in frontier:
                    outs = T.trans.get(c)
                    if outs is None or T.state_name.get(c[1][c[0]][0]) in OPAQUE:
                        unknown = True
                        break
                    for o in outs:
                        if b not in o.bytes and (b - 256) not in o.bytes:
                            continue
                        if o.err == 1 and o.consumed == 1:
                            pv, po = app(o)
                            if k + 1 < K:
                                nxt.add((o.next, used + 1, av + pv, ao + po))
                            else:
                                rc.add((1, bool(o.ret_nonnull), used + 1, T.canon(o.next) if o.next is not None and not any(None in lv for lv in o.next[1]) else None,
                                        av + pv, ao + po))
                        elif k + 1 < K:
                            # a call that does not end with 'continue' before the last byte: the caller would not feed the rest
                            # (the property's premise is that every proper prefix is incomplete)
                            unknown = True
                            break
                        else:
                            pv, po = app(o)
                            rc.add((o.err, bool(o.ret_nonnull), used + (o.consumed or 0),
                                    T.canon(o.next) if o.err in (0, 1) and o.next is not None and not any(None in lv for lv in o.next[1]) else None,
                                    av + pv, ao + po))
                    if unknown:
                        break
                if unknown:
                    break
                frontier = nxt
                if not frontier:
                    break
            if unknown:
                continue
            rw = {res for doms, res in W if all(d is None or tup[k] in d or (tup[k] - 256) in d for k, d in enumerate(doms))}
            ncmp += 1
            # the byte-per-call side starts every call with the fields that the configuration does not carry (the code point
            # under construction) unconstrained, so it over-approximates; the one-call side may know them exactly.  A one-call
            # outcome that no byte-per-call run can produce is the witness.
            if not rw <= rc and bad is None:
                bad = (cfg, bytes(tup), rc, rw)
    sig = "%s: %d bytes, one call vs one byte per call" % (name, K)
    if bad:
        cfg, tup, rc, rw = bad

        def fmt(rs):
            return sorted("%s%s end=%s -> %s, %d input byte(s) and %d decoded piece(s) appended to the token"
                          % (T.err_name.get(e, e), "+value" if v else "", c, T.cfg_str(nx) if nx else "-", av, ao) for e, v, c, nx, av, ao in rs)
        chk.refuted(rid, "json_tokener_parse_ex", sig, "json_tokener.c",
                    "from configuration %s the bytes %r parsed in one call give %s, but fed one byte per call they give %s"
                    % (T.cfg_str(cfg), product.show(tup), fmt(rw - rc) or fmt(rw), fmt(rc - rw) or fmt(rc)),
                    {"one_call": fmt(rw), "per_byte": fmt(rc)})
    elif nconf == 0:
        chk.undecided(rid, "json_tokener_parse_ex", sig, "json_tokener.c", "no configuration inside a token was evaluated")
    else:
        chk.proven(rid, "json_tokener_parse_ex", sig, "json_tokener.c",
                   "%d configurations, %d byte sequences agree%s" % (nconf, ncmp, (" (%d configurations skipped: walk budget)" % skipped) if skipped else ""))
    chk.floor(rid + "." + name, nconf, 5, "configurations inside tokens")


def r10(chk, T, name):
    rid = "C03.R10"
    chk.rule(rid, "a call reads its input only inside the chunk it was given: no step looks at bytes before the chunk's start (where an "
                  "earlier chunk may or may not still be) or at / after its length, directly or through a library call on the cursor")
    la = [(cfg, o) for cfg, outs in T.trans.items() for o in outs if o.lookahead]
    sig = "%s: reads stay inside the chunk" % name
    if la:
        cfg, o = la[0]
        chk.refuted(rid, "json_tokener_parse_ex", sig, "json_tokener.c",
                    "from configuration %s, byte class %s: the call reads input outside the chunk it was given, so its result depends on "
                    "where the previous chunk happens to be in memory" % (T.cfg_str(cfg), product.show(bytes(sorted(b % 256 for b in o.bytes))[:8])))
    else:
        chk.proven(rid, "json_tokener_parse_ex", sig, "json_tokener.c", "no read outside the chunk in %d transitions" % sum(len(v) for v in T.trans.values()))
