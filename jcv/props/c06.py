"""C06 - a JSON object behaves as an insertion-ordered map under any operation history.

Representation: open-addressing slot array (k == LH_EMPTY / LH_FREED sentinels), a live-entry count, and a doubly linked
insertion list (head / tail / next / prev).  The three must move together.

R1 encapsulation: the table's structure fields are written only inside linkhash.c; other modules change only an entry's value,
   through lh_entry_set_val
R2 replace keeps the position: the existing-key branch of json_object_object_add_ex neither inserts nor deletes
R3 effect balance, by finite-domain partial evaluation over shape classes:
   insert  : landing slot EMPTY/FREED x list empty/non-empty x probe wrap-around: slot gets (k, v, constant flag), count + 1,
             entry appended at the tail, head untouched unless the list was empty
   delete  : entry is the only / the head / the tail / a middle element: count - 1, free_fn exactly once before the key is
             overwritten, slot k = FREED, v = NULL, neighbours relinked, next = prev = NULL
   resize  : re-inserts exactly the list, in list order, with each entry's (k, v, constant flag); count untouched; failure leaves
             the table untouched
R4 sentinel discipline: lookup never hands a sentinel key to equal_fn, stops at EMPTY, skips FREED, and ends after size probes
R5 probe index stays in [0, size): inductive step on the probe loops
R6 iteration macros load the successor before the body runs (deleting the current key while iterating is safe)
"""
from ..ir import load_program
from ..cfg import cfg_of
from ..flow import Paths, dominating_conditions
from .. import pe
from ..pathlin import Walker
from ..lin import Lin, const, atom

EMPTY, FREED = -1, -2
# struct lh_table { size, count, head, tail, table, free_fn, hash_fn, equal_fn }; struct lh_entry { k, k_is_constant, v, next, prev }
TF = {"size": 0, "count": 1, "head": 2, "tail": 3, "table": 4, "free_fn": 5, "hash_fn": 6, "equal_fn": 7}
EF = {"k": 0, "k_is_constant": 1, "v": 2, "next": 3, "prev": 4}


def run(chk):
    prog = load_program("default")
    chk.variant(prog)
    m = prog.module("linkhash.c")
    chk.require(m is not None, "linkhash.c not in the build")
    tf = m.struct_fields("%struct.lh_table")
    ef = m.struct_fields("%struct.lh_entry")
    chk.require(tf == list(TF) and ef == list(EF), "struct lh_table / lh_entry layout changed: %s / %s" % (tf, ef))
    r1(chk, prog)
    r2(chk, prog)
    r3_insert(chk, prog, m)
    r3_agree(chk, prog, m)
    r3_delete(chk, prog, m)
    r3_resize(chk, prog, m)
    r4(chk, prog, m)
    r5(chk, prog, m)
    r6(chk, prog)
    r8_hash_stable(chk, prog, m)
    chk.undecided_clauses += [
        "behaviour over operation histories (probe chains through tombstones after arbitrary churn): decided only as per-operation "
        "preservation of the representation's coupling, on shape classes",
        "hash quality / collision behaviour of the two string hash functions",
        "lh_table_new requires size > 0 (an assert, compiled out): callers inside the library pass constants",
    ]


# ---------------------------------------------------------------------------------------------------------------------
def r1(chk, prog):
    rid = "C06.R1"
    chk.rule(rid, "head / tail / next / prev / count / size / table and an entry's k / k_is_constant are written only in linkhash.c; "
                  "other modules write only an entry's v, inside lh_entry_set_val")
    n = 0
    for f in prog.all_functions():
        for i in f.instrs():
            if i.op != "store" or i.ops[1].kind != "reg":
                continue
            d = f.defs.get(i.ops[1].v)
            if d is None or d.op != "getelementptr" or d.x["srcty"] not in ("%struct.lh_table", "%struct.lh_entry"):
                continue
            n += 1
            chk.touched(f)
            idx = d.ops[-1].v if d.ops[-1].kind == "int" else None
            fld = (list(TF) if d.x["srcty"] == "%struct.lh_table" else list(EF))[idx] if idx is not None else "?"
            sig = "store %s.%s" % (d.x["srcty"][8:], fld)
            if f.module.srcname == "linkhash.c":
                chk.proven(rid, f.name, sig, i.locstr(), "inside linkhash.c")
            elif d.x["srcty"] == "%struct.lh_entry" and fld == "v" and f.name == "lh_entry_set_val":
                chk.proven(rid, f.name, sig, i.locstr(), "value replacement through the accessor")
            else:
                chk.refuted(rid, f.name, sig, i.locstr(), "%s writes %s.%s outside linkhash.c: the slot array, the count and the insertion list "
                            "can no longer be shown to move together" % (f.name, d.x["srcty"][8:], fld))
    chk.floor(rid, n, 25, "stores to table / entry fields")


def r2(chk, prog):
    rid = "C06.R2"
    chk.rule(rid, "replacing an existing key changes only the entry's value: the branch releases the old value once, sets the new one and "
                  "calls neither insert nor delete (the key keeps its position)")
    f = prog.fn("json_object_object_add_ex")
    chk.require(f is not None, "json_object_object_add_ex not found")
    chk.touched(f)
    P = Paths(f, prog)
    cfg = cfg_of(f)
    from ..flow import derived_values, null_tests
    look = [i for i in f.instrs() if i.op == "call" and i.callee and i.callee.startswith("lh_table_lookup_entry")]
    chk.require(look, "key lookup not found in json_object_object_add_ex")
    regs, _ = derived_values(f, look[0].res)
    tests = [(br, nn, nl) for br, nn, nl in null_tests(f, regs) if nn is not nl]
    chk.require(tests, "no test of the lookup result")
    br, nn, nl = tests[0]
    # the replace branch: everything reachable only through the 'entry found' edge
    region = {b for b in f.blocks.values() if cfg.edge_dominates(br.block, nn, b)}
    sets = [i for b in region for i in b.instrs if i.op == "call" and i.callee == "lh_entry_set_val"] or [br]
    calls = [i.callee for b in region for i in b.instrs if i.op == "call" and i.callee and not i.callee.startswith("llvm.")]
    bad = [c for c in calls if c.startswith("lh_table_insert") or c.startswith("lh_table_delete") or c in ("strdup", "free")]
    puts = calls.count("json_object_put")
    if "lh_entry_set_val" not in calls:
        bad.append("(no lh_entry_set_val)")
    if bad or puts != 1:
        chk.refuted(rid, f.name, "replace branch", sets[0].locstr(), "the replace branch calls %s and releases the old value %d time(s)" % (bad, puts))
    else:
        chk.proven(rid, f.name, "replace branch", sets[0].locstr(), "calls in the branch: %s" % sorted(set(calls)))


# ---------------------------------------------------------------------------------------------------------------------
class TablePE(pe.PE):
    """symbolic table: struct lh_table 't', slot array 'tab' (entries tab[i]); initial contents from a shape description"""

    def __init__(self, prog, shape):
        super().__init__(prog, max_leaves=5000, max_steps=400000)
        self.shape = shape
        self.loop_widen = 1000
        self.max_visits = 64

    def should_inline(self, g, instr):
        return g.internal or g.name in ("lh_get_hash",)

    def init_mem(self, state, base, path, t):
        sh = self.shape
        el, fl = pe.fields_of(path)
        k = fl[0] if fl else 0
        if base == "t" and el == 0:
            if k in sh["t"]:
                return sh["t"][k]
            return pe.TOP
        if base == "tab" and isinstance(el, int):
            ent = sh["slots"].get(el)
            if ent is not None and k in ent:
                return ent[k]
            return pe.TOP
        if base.startswith("ext") and el == 0:
            ent = sh.get(base, {})
            if k in ent:
                return ent[k]
        if base == "newt" and el == 0:
            return sh.get("newt", {}).get(k, pe.TOP)
        return pe.TOP

    def call_model(self, state, frame, i, args):
        nm = i.callee
        if nm is None:
            c = i.x.get("callee")
            state.trace.append(("indirect", self.val(frame, c, state), tuple(args), i, dict(state.mem)))
            if i.type == "i32":
                return self.fresh_root(state, "eq", [0, 1])
            return pe.TOP
        if nm in ("free", "lh_table_free"):
            state.trace.append(("call", nm, tuple(args), i))
            return pe.C(0)
        if nm == "lh_table_resize":
            state.trace.append(("call", nm, tuple(args), i))
            if self.shape.get("resize_fails"):
                return pe.C(-1)
            return "STOP"
        if nm == "lh_table_new":
            state.trace.append(("call", nm, tuple(args), i))
            r = self.shape.get("new_result", ("ptr", "newt", ()))
            return r
        if nm in ("lh_table_insert_w_hash", "lh_table_insert") and self.shape.get("model_insert"):
            state.trace.append(("call", nm, tuple(args), i))
            return self.fresh_root(state, "ins", [0, -1])
        if nm == "lh_get_hash" or nm == "lh_char_hash":
            state.trace.append(("call", nm, tuple(args), i))
            return pe.TOP
        return None


def _ptr(slot):
    return ("ptr", "tab", (("i", slot),)) if slot else ("ptr", "tab", ())


def _loc(slot, field):
    p = [("i", slot), field]
    while p and (p[-1] == 0 or p[-1] == ("i", 0)):
        p.pop()
    return ("tab", tuple(p))


def _tloc(field):
    return ("t", ((("i", 0), field) if field else ()))


def _live(k, nxt=None, prv=None):
    return {EF["k"]: ("ptr", "key%d" % k, ()), EF["k_is_constant"]: pe.C(0), EF["v"]: ("ptr", "val%d" % k, ()),
            EF["next"]: nxt if nxt is not None else pe.C(0), EF["prev"]: prv if prv is not None else pe.C(0)}


def _sent(v):
    return {EF["k"]: pe.C(v), EF["k_is_constant"]: pe.C(0), EF["v"]: pe.C(0), EF["next"]: pe.C(0), EF["prev"]: pe.C(0)}


def r3_insert(chk, prog, m):
    rid = "C06.R3i"
    chk.rule(rid, "insert (no growth): the first EMPTY or FREED slot of the probe sequence receives (k, v, constant flag), count becomes "
                  "count + 1, the entry is linked after the old tail (or becomes head and tail of an empty list); nothing else changes")
    f = m.functions.get("lh_table_insert_w_hash")
    chk.require(f is not None and not f.is_decl, "lh_table_insert_w_hash not found")
    chk.touched(f)
    SIZE = 8
    cases = []
    for land in (EMPTY, FREED):
        for nonempty in (False, True):
            for wrap in (False, True):
                cases.append((land, nonempty, wrap))
    for land, nonempty, wrap in cases:
        h = 7 if wrap else 2
        first = h
        target = 0 if wrap else 3
        slots = {i: _sent(EMPTY) for i in range(SIZE)}
        slots[first] = _live(first)
        slots[target] = _sent(land)
        tail_slot = first if nonempty else None
        shape = {"t": {TF["size"]: pe.C(SIZE), TF["count"]: pe.C(1 if nonempty else 0), TF["table"]: ("ptr", "tab", ()),
                       TF["head"]: _ptr(first) if nonempty else pe.C(0), TF["tail"]: _ptr(first) if nonempty else pe.C(0)},
                 "slots": slots}
        if not nonempty:
            # the occupied first slot is then a tombstone-free 'live' slot that is not in the list: make it FREED's opposite
            # is impossible, so use a second table shape: first slot live but list empty cannot happen; use a live slot only
            # when the list is non-empty, otherwise probe from an EMPTY/FREED start
            slots[first] = _sent(FREED if land == EMPTY else EMPTY) if False else slots[first]
        P = TablePE(prog, shape)
        st = pe.State()
        args = [("ptr", "t", ()), ("ptr", "newkey", ()), ("ptr", "newval", ()), pe.C(h), pe.C(4)]
        leaves = P.run(f, args, st)
        sig = "insert: landing slot %s, list %s, probe %s" % ("EMPTY" if land == EMPTY else "FREED", "non-empty" if nonempty else "empty",
                                                               "wraps around" if wrap else "straight")
        bad = None
        done = 0
        if not nonempty:
            # with an empty list the occupied slot cannot be live: re-run with the probe starting on the landing slot itself
            slots2 = {i: _sent(EMPTY) for i in range(SIZE)}
            slots2[target] = _sent(land)
            shape["slots"] = slots2
            P = TablePE(prog, shape)
            args[3] = pe.C(target + (SIZE if wrap else 0))
            leaves = P.run(f, args, pe.State())
        for lf in leaves:
            if lf.kind == "stop" or (lf.kind == "ret" and lf.value == pe.C(-1)):
                continue
            if lf.kind != "ret" or lf.value != pe.C(0):
                bad = "path ends with %s %s" % (lf.kind, lf.value)
                break
            done += 1
            mem = lf.state.mem
            exp = {_loc(target, EF["k"]): ("ptr", "newkey", ()), _loc(target, EF["v"]): ("ptr", "newval", ()),
                   _loc(target, EF["k_is_constant"]): pe.C(4), _tloc(TF["count"]): pe.C(2 if nonempty else 1),
                   _tloc(TF["tail"]): _ptr(target), _loc(target, EF["next"]): pe.C(0)}
            if nonempty:
                exp[_loc(first, EF["next"])] = _ptr(target)
                exp[_loc(target, EF["prev"])] = _ptr(first)
                exp[_tloc(TF["head"])] = _ptr(first)
            else:
                exp[_tloc(TF["head"])] = _ptr(target)
                exp[_loc(target, EF["prev"])] = pe.C(0)
            for loc, want in exp.items():
                got = mem.get(loc)
                if got is None:
                    got = P.init_mem(lf.state, loc[0], loc[1], None)
                if _norm(got) != _norm(want):
                    bad = "after the insert %s holds %s, expected %s" % (_locname(loc), _show(got), _show(want))
                    break
            # no other slot's key was touched
            for loc, v in mem.items():
                if loc[0] == "tab" and loc not in exp:
                    el, fl = pe.fields_of(loc[1])
                    init = P.init_mem(lf.state, loc[0], loc[1], None)
                    if _norm(v) != _norm(init):
                        bad = "the insert also changed %s" % _locname(loc)
            if bad:
                break
        if bad is None and done == 0:
            bad = "no successful path"
        if bad:
            chk.refuted(rid, f.name, sig, f.entry.term.locstr(), bad)
        else:
            chk.proven(rid, f.name, sig, f.entry.term.locstr(), "%d successful path(s) leave slot, count and list consistent" % done)
    chk.floor(rid, len(cases), 8, "insert shape classes")
    # failure atomicity: when the growth that an insert asks for fails, the insert reports failure having changed nothing
    SIZE = 8
    slots = {i: _sent(EMPTY) for i in range(SIZE)}
    for k in range(6):
        slots[k] = _live(k)
    shape = {"t": {TF["size"]: pe.C(SIZE), TF["count"]: pe.C(6), TF["table"]: ("ptr", "tab", ()), TF["head"]: _ptr(0), TF["tail"]: _ptr(5)},
             "slots": slots, "resize_fails": True}
    P = TablePE(prog, shape)
    sig = "insert: growth fails"
    try:
        leaves = P.run(f, [("ptr", "t", ()), ("ptr", "newkey", ()), ("ptr", "newval", ()), pe.C(7), pe.C(0)], pe.State())
    except Exception as e:
        chk.undecided(rid, f.name, sig, f.entry.term.locstr(), str(e))
        return
    bad = None
    seen_fail = False
    for lf in leaves:
        if lf.kind != "ret" or lf.value is None or not pe.is_const(lf.value):
            continue
        resized = any(e[0] == "call" and e[1] == "lh_table_resize" for e in lf.state.trace)
        if not resized:
            continue
        if lf.value[1] == 0:
            bad = bad or "the insert reports success although the growth it asked for failed"
            continue
        seen_fail = True
        for loc, v in lf.state.mem.items():
            if loc[0] in ("tab", "t"):
                init = P.init_mem(lf.state, loc[0], loc[1], None)
                if _norm(v) != _norm(init):
                    bad = bad or ("the insert returns %d after a failed growth but has already changed %s: the caller is told the add "
                                  "failed (and keeps ownership of key and value) while the table holds the entry" % (lf.value[1], _locname(loc)))
    if bad:
        chk.refuted(rid, f.name, sig, f.entry.term.locstr(), bad)
    elif not seen_fail:
        chk.undecided(rid, f.name, sig, f.entry.term.locstr(), "no evaluated path asks for a growth that then fails")
    else:
        chk.proven(rid, f.name, sig, f.entry.term.locstr(), "failure reported with the table untouched")


def r3_agree(chk, prog, m):
    rid = "C06.R3a"
    chk.rule(rid, "insert and lookup agree on where a key lives, for table sizes that are and are not powers of two (8, 6, 5, 3) and "
                  "hash values below and above the size: the insert is evaluated on an empty table and on one whose home slot is taken, "
                  "then the lookup is evaluated on the resulting table with the same key and hash and must be able to return the slot "
                  "that received the key")
    fi = m.functions.get("lh_table_insert_w_hash")
    fl_ = m.functions.get("lh_table_lookup_entry_w_hash")
    chk.require(fi is not None and not fi.is_decl and fl_ is not None and not fl_.is_decl, "lh_table_insert_w_hash / lh_table_lookup_entry_w_hash not found")
    chk.touched(fi)
    chk.touched(fl_)
    n = 0
    for SIZE in ((8, 6, 5, 3) if chk.tier != "thorough" else (8, 6, 5, 3, 7, 12, 16, 24)):
        bad = None
        und = None
        for h in ((1, SIZE - 1, SIZE, SIZE + 1, 2 * SIZE + 2, 4 * SIZE - 1, 1000003) if chk.tier != "thorough" else
                  tuple(range(0, 3 * SIZE + 1)) + (1000003, (1 << 32) - 1, (1 << 32) + 5)):
            for taken in (False, True):
                slots = {i: _sent(EMPTY) for i in range(SIZE)}
                cnt = 0
                head = pe.C(0)
                if taken:
                    # whatever slot the implementation calls home, make every slot but one live: the insert has one place to go
                    free_slot = (h + 1) % SIZE
                    for i in range(SIZE):
                        if i != free_slot:
                            slots[i] = _live(i)
                    cnt = SIZE - 1
                    head = _ptr(0 if free_slot != 0 else 1)
                shape = {"t": {TF["size"]: pe.C(SIZE), TF["count"]: pe.C(cnt), TF["table"]: ("ptr", "tab", ()), TF["head"]: head,
                               TF["tail"]: head, TF["equal_fn"]: ("ptr", "eqfn", ())},
                         "slots": slots, "model_insert": False}
                if taken and cnt + 1 > SIZE * 0.66:
                    # growth would be triggered: keep the load below the threshold instead (one live slot at h % SIZE and one at
                    # the masked position, everything else EMPTY)
                    slots = {i: _sent(EMPTY) for i in range(SIZE)}
                    for s_ in {h % SIZE, h & (SIZE - 1)}:
                        slots[s_] = _live(s_)
                    if len([1 for v in slots.values() if v[EF["k"]][0] == "ptr"]) + 1 > SIZE * 0.66:
                        continue
                    shape["slots"] = slots
                    first = min(s_ for s_ in slots if slots[s_][EF["k"]][0] == "ptr")
                    shape["t"][TF["count"]] = pe.C(len([1 for v in slots.values() if v[EF["k"]][0] == "ptr"]))
                    shape["t"][TF["head"]] = _ptr(first)
                    shape["t"][TF["tail"]] = _ptr(first)
                P = TablePE(prog, shape)
                try:
                    leaves = P.run(fi, [("ptr", "t", ()), ("ptr", "newkey", ()), ("ptr", "newval", ()), pe.C(h), pe.C(0)], pe.State())
                except Exception as e:
                    und = und or "insert with hash %d: %s" % (h, e)
                    continue
                n += 1
                for lf in leaves:
                    if lf.kind != "ret" or lf.value != pe.C(0):
                        continue
                    where = [loc for loc, v in lf.state.mem.items() if loc[0] == "tab" and _norm(v) == ("ptr", "newkey", ())]
                    if len(where) != 1:
                        und = und or "insert with hash %d: the key is stored in %d slots" % (h, len(where))
                        continue
                    slot = pe.fields_of(where[0][1])[0] or 0
                    st2 = pe.State()
                    st2.mem = dict(lf.state.mem)
                    Q = TablePE(prog, shape)
                    try:
                        lv = Q.run(fl_, [("ptr", "t", ()), ("ptr", "newkey", ()), pe.C(h)], st2)
                    except Exception as e:
                        und = und or "lookup with hash %d: %s" % (h, e)
                        continue
                    found = set()
                    for l2 in lv:
                        nv = _norm(l2.value) if l2.value is not None and l2.kind == "ret" else None
                        if nv and nv[0] == "ptr" and nv[1] == "tab":
                            found.add(pe.fields_of(nv[2])[0] or 0)
                    if slot not in found and bad is None:
                        bad = ("in a table of %d slots (%s) a key inserted with hash %d is stored in slot %d, but the lookup with the "
                               "same hash %s: the member just added is reported absent"
                               % (SIZE, "home slot taken" if taken else "empty", h, slot,
                                  ("can only return slot(s) %s" % sorted(found)) if found else "reaches an EMPTY slot first and returns NULL"))
        sig = "table of %d slots" % SIZE
        if bad:
            chk.refuted(rid, fi.name, sig, fi.entry.term.locstr(), bad)
        elif und:
            chk.undecided(rid, fi.name, sig, fi.entry.term.locstr(), und)
        else:
            chk.proven(rid, fi.name, sig, fi.entry.term.locstr(), "the lookup can return the slot chosen by the insert for every hash tried")
    chk.floor(rid, n, 20, "(size, hash, occupancy) insert evaluations")


def _norm(e):
    if isinstance(e, tuple) and e and e[0] == "ptr":
        path = [p for p in e[2]]
        while path and (path[-1] == 0 or path[-1] == ("i", 0)):
            path.pop()
        return ("ptr", e[1], tuple(path))
    return e


def _show(e):
    e = _norm(e)
    if isinstance(e, tuple) and e and e[0] == "ptr":
        if e[1] == "tab":
            el, fl = pe.fields_of(e[2])
            return "&table[%s]" % el
        return e[1]
    if isinstance(e, tuple) and e and e[0] == "c":
        return {0: "NULL/0", EMPTY: "LH_EMPTY", FREED: "LH_FREED"}.get(e[1], str(e[1]))
    return repr(e)


def _locname(loc):
    if loc[0] == "t":
        el, fl = pe.fields_of(loc[1])
        return "t->%s" % list(TF)[fl[0] if fl else 0]
    el, fl = pe.fields_of(loc[1])
    return "table[%s].%s" % (el, list(EF)[fl[0] if fl else 0])


def r3_delete(chk, prog, m):
    rid = "C06.R3d"
    chk.rule(rid, "delete of a live entry, for each position in the insertion list (only / head / tail / middle): count - 1, the table's "
                  "free_fn is called exactly once with the entry while its key is still intact, then k = LH_FREED, v = NULL, the "
                  "neighbours are linked to each other, head / tail move only when they pointed at the entry, entry.next = entry.prev = NULL")
    f = m.functions.get("lh_table_delete_entry")
    chk.require(f is not None and not f.is_decl, "lh_table_delete_entry not found")
    chk.touched(f)
    SIZE = 8
    # list order over slots: a=1, b=3, c=5 ; entry under deletion is slot 3 (or the only one)
    cases = {"only": [3], "head": [3, 5], "tail": [1, 3], "middle": [1, 3, 5]}
    for name, order in cases.items():
        slots = {i: _sent(EMPTY) for i in range(SIZE)}
        for pos, s in enumerate(order):
            nxt = _ptr(order[pos + 1]) if pos + 1 < len(order) else None
            prv = _ptr(order[pos - 1]) if pos > 0 else None
            slots[s] = _live(s, nxt, prv)
        shape = {"t": {TF["size"]: pe.C(SIZE), TF["count"]: pe.C(len(order)), TF["table"]: ("ptr", "tab", ()),
                       TF["head"]: _ptr(order[0]), TF["tail"]: _ptr(order[-1]), TF["free_fn"]: ("ptr", "freefn", ())},
                 "slots": slots}
        P = TablePE(prog, shape)
        leaves = P.run(f, [("ptr", "t", ()), _ptr(3)], pe.State())
        sig = "delete: entry is the %s element" % name
        bad = None
        for lf in leaves:
            if lf.kind != "ret" or lf.value != pe.C(0):
                bad = "path ends with %s %s instead of returning 0" % (lf.kind, lf.value)
                break
            mem = lf.state.mem
            rest = [s for s in order if s != 3]
            exp = {_tloc(TF["count"]): pe.C(len(order) - 1), _loc(3, EF["k"]): pe.C(FREED), _loc(3, EF["v"]): pe.C(0),
                   _loc(3, EF["next"]): pe.C(0), _loc(3, EF["prev"]): pe.C(0),
                   _tloc(TF["head"]): _ptr(rest[0]) if rest else pe.C(0), _tloc(TF["tail"]): _ptr(rest[-1]) if rest else pe.C(0)}
            for pos, s in enumerate(rest):
                exp[_loc(s, EF["next"])] = _ptr(rest[pos + 1]) if pos + 1 < len(rest) else pe.C(0)
                exp[_loc(s, EF["prev"])] = _ptr(rest[pos - 1]) if pos > 0 else pe.C(0)
            for loc, want in exp.items():
                got = mem.get(loc)
                if got is None:
                    got = P.init_mem(lf.state, loc[0], loc[1], None)
                if loc == _loc(3, EF["k"]) and _norm(got) == pe.C(EMPTY):
                    # handing the slot back as EMPTY is sound only when the next slot of the probe sequence is EMPTY
                    nxt_k = slots[4][EF["k"]]
                    if nxt_k == pe.C(EMPTY):
                        continue
                if _norm(got) != _norm(want):
                    bad = "after the delete %s holds %s, expected %s" % (_locname(loc), _show(got), _show(want))
                    break
            rel = [e for e in lf.state.trace if e[0] == "indirect"]
            if not bad:
                if len(rel) != 1 or _norm(rel[0][2][0]) != _norm(_ptr(3)):
                    bad = "free_fn is called %d time(s) (expected once, with the entry)" % len(rel)
                else:
                    kb = rel[0][4].get(_loc(3, EF["k"]))
                    if kb is not None and _norm(kb) != _norm(("ptr", "key3", ())):
                        bad = "free_fn is called after the entry's key was already overwritten with %s" % _show(kb)
            if bad:
                break
        if bad:
            chk.refuted(rid, f.name, sig, f.entry.term.locstr(), bad)
        else:
            chk.proven(rid, f.name, sig, f.entry.term.locstr(), "%d path(s): count, slot, neighbours, head/tail and release as specified" % len(leaves))
    # the tombstone: a slot whose probe successor is occupied must become LH_FREED (never LH_EMPTY), including the last slot,
    # whose successor is slot 0
    for name, dslot, succ in (("successor slot live", 3, 4), ("last slot, successor is slot 0", SIZE - 1, 0)):
        slots = {i: _sent(EMPTY) for i in range(SIZE)}
        slots[dslot] = _live(dslot)
        slots[succ] = _live(succ)
        slots[dslot][EF["next"]] = _ptr(succ)
        slots[succ][EF["prev"]] = _ptr(dslot)
        shape = {"t": {TF["size"]: pe.C(SIZE), TF["count"]: pe.C(2), TF["table"]: ("ptr", "tab", ()), TF["head"]: _ptr(dslot),
                       TF["tail"]: _ptr(succ), TF["free_fn"]: ("ptr", "freefn", ())}, "slots": slots}
        P = TablePE(prog, shape)
        leaves = P.run(f, [("ptr", "t", ()), _ptr(dslot)], pe.State())
        sig = "delete: tombstone, " + name
        bad = None
        for lf in leaves:
            got = lf.state.mem.get(_loc(dslot, EF["k"]))
            if lf.kind != "ret" or lf.value != pe.C(0) or got is None or _norm(got) != pe.C(FREED):
                bad = ("after deleting the entry in slot %d (its probe successor, slot %d, is occupied) the slot holds %s: a lookup of a key "
                       "that was inserted past this slot stops here and reports the key absent" % (dslot, succ, _show(got) if got is not None else "its old key"))
        if bad:
            chk.refuted(rid, f.name, sig, f.entry.term.locstr(), bad)
        else:
            chk.proven(rid, f.name, sig, f.entry.term.locstr(), "slot becomes LH_FREED")
    # deleting a slot that holds a sentinel is refused without any write
    for sv, nm in ((EMPTY, "LH_EMPTY"), (FREED, "LH_FREED")):
        slots = {i: _sent(EMPTY) for i in range(SIZE)}
        slots[3] = _sent(sv)
        shape = {"t": {TF["size"]: pe.C(SIZE), TF["count"]: pe.C(0), TF["table"]: ("ptr", "tab", ()), TF["head"]: pe.C(0),
                       TF["tail"]: pe.C(0), TF["free_fn"]: ("ptr", "freefn", ())}, "slots": slots}
        P = TablePE(prog, shape)
        leaves = P.run(f, [("ptr", "t", ()), _ptr(3)], pe.State())
        sig = "delete: slot holds %s" % nm
        ok = all(lf.kind == "ret" and pe.is_const(lf.value) and lf.value[1] < 0 and
                 not [e for e in lf.state.trace if e[0] == "indirect"] and
                 _norm(lf.state.mem.get(_tloc(TF["count"]), pe.C(0))) == pe.C(0) for lf in leaves)
        if ok and leaves:
            chk.proven(rid, f.name, sig, f.entry.term.locstr(), "refused, nothing released, count unchanged")
        else:
            chk.refuted(rid, f.name, sig, f.entry.term.locstr(), "deleting a slot that holds %s is not refused cleanly" % nm)
    chk.floor(rid, 6, 6, "delete shape classes")


def r3_resize(chk, prog, m):
    rid = "C06.R3r"
    chk.rule(rid, "resize re-inserts exactly the entries of the insertion list, in list order, each with its own key, value and constant "
                  "flag, into a table of the requested size; then takes over table / size / head / tail and leaves count alone; a failed "
                  "allocation or re-insert returns -1 without having written the old table")
    f = m.functions.get("lh_table_resize")
    chk.require(f is not None and not f.is_decl, "lh_table_resize not found")
    chk.touched(f)
    SIZE = 8
    for n in (0, 1, 3):
        order = [1, 3, 5][:n]
        slots = {i: _sent(EMPTY) for i in range(SIZE)}
        for pos, s in enumerate(order):
            slots[s] = _live(s, _ptr(order[pos + 1]) if pos + 1 < len(order) else None, _ptr(order[pos - 1]) if pos > 0 else None)
            if s == 3:
                slots[s][EF["k_is_constant"]] = pe.C(1)
        shape = {"t": {TF["size"]: pe.C(SIZE), TF["count"]: pe.C(n), TF["table"]: ("ptr", "tab", ()),
                       TF["head"]: _ptr(order[0]) if order else pe.C(0), TF["tail"]: _ptr(order[-1]) if order else pe.C(0),
                       TF["hash_fn"]: ("ptr", "hashfn", ()), TF["equal_fn"]: ("ptr", "eqfn", ())},
                 "slots": slots, "model_insert": True,
                 "newt": {TF["table"]: ("ptr", "newtab", ()), TF["head"]: ("ptr", "newhead", ()), TF["tail"]: ("ptr", "newtail", ())}}
        P = TablePE(prog, shape)
        leaves = P.run(f, [("ptr", "t", ()), pe.C(16)], pe.State())
        sig = "resize with %d live entries" % n
        bad = None
        ok_paths = 0
        for lf in leaves:
            tr = lf.state.trace
            ins = [e for e in tr if e[0] == "call" and e[1] == "lh_table_insert_w_hash"]
            news = [e for e in tr if e[0] == "call" and e[1] == "lh_table_new"]
            mem = lf.state.mem
            if lf.kind != "ret" or not pe.is_const(lf.value):
                bad = "path ends with %s" % lf.kind
                break
            if len(news) != 1 or news[0][2][0] != pe.C(16):
                bad = "the new table is not created with the requested size"
                break
            if lf.value[1] == 0:
                ok_paths += 1
                got = [(_norm(e[2][1]), _norm(e[2][2]), e[2][4]) for e in ins]
                want = [(("ptr", "key%d" % s, ()), ("ptr", "val%d" % s, ()), pe.C(4 if s == 3 else 0)) for s in order]
                if [g[:2] for g in got] != [w[:2] for w in want]:
                    bad = "re-inserted entries %s differ from the insertion list %s (order or content)" % ([g[0][1] for g in got], [w[0][1] for w in want])
                    break
                for g, w_ in zip(got, want):
                    if g[2] != w_[2] and not (pe.is_const(g[2]) and pe.is_const(w_[2]) and bool(g[2][1]) == bool(w_[2][1])):
                        bad = "constant-key flag of %s not carried over (%r)" % (g[0][1], g[2])
                if bad:
                    break
                if any(e[2][0] != ("ptr", "newt", ()) for e in ins):
                    bad = "re-insert does not target the new table"
                    break
                exp = {_tloc(TF["table"]): ("ptr", "newtab", ()), _tloc(TF["size"]): pe.C(16),
                       _tloc(TF["head"]): ("ptr", "newhead", ()), _tloc(TF["tail"]): ("ptr", "newtail", ())}
                for loc, wv in exp.items():
                    if _norm(mem.get(loc, pe.TOP)) != _norm(wv):
                        bad = "after a successful resize %s holds %s" % (_locname(loc), _show(mem.get(loc, pe.TOP)))
                if _tloc(TF["count"]) in mem and _norm(mem[_tloc(TF["count"])]) != pe.C(n):
                    bad = "resize changes count"
                frees = [_norm(e[2][0]) for e in tr if e[0] == "call" and e[1] == "free"]
                if _norm(("ptr", "tab", ())) not in frees or _norm(("ptr", "newt", ())) not in frees:
                    bad = "the old slot array or the temporary table header is not freed (%s)" % frees
            else:
                # failure: the old table untouched
                wrote = [loc for loc in mem if loc[0] == "t" and loc in (_tloc(TF["table"]), _tloc(TF["size"]), _tloc(TF["head"]), _tloc(TF["tail"]), _tloc(TF["count"]))
                         and _norm(mem[loc]) != _norm(P.init_mem(lf.state, loc[0], loc[1], None))]
                if wrote:
                    bad = "a failing resize has already changed %s" % [_locname(l) for l in wrote]
                if any(e[0] == "call" and e[1] == "free" and _norm(e[2][0]) == _norm(("ptr", "tab", ())) for e in tr):
                    bad = "a failing resize frees the old slot array"
            if bad:
                break
        if bad is None and ok_paths == 0:
            bad = "no successful path"
        if bad:
            chk.refuted(rid, f.name, sig, f.entry.term.locstr(), bad)
        else:
            chk.proven(rid, f.name, sig, f.entry.term.locstr(), "%d paths (%d successful)" % (len(leaves), ok_paths))


def r4(chk, prog, m):
    rid = "C06.R4"
    chk.rule(rid, "lookup: equal_fn is called only with live keys (never LH_EMPTY / LH_FREED), the probe stops at the first EMPTY slot, "
                  "skips FREED slots, and gives up after size probes even when no slot is EMPTY")
    f = m.functions.get("lh_table_lookup_entry_w_hash")
    chk.require(f is not None and not f.is_decl, "lh_table_lookup_entry_w_hash not found")
    chk.touched(f)
    SIZE = 4
    shapes = {
        "FREED, live, EMPTY": {0: _sent(EMPTY), 1: _sent(FREED), 2: _live(2), 3: _sent(EMPTY)},
        "all FREED": {i: _sent(FREED) for i in range(SIZE)},
        "all live": {i: _live(i) for i in range(SIZE)},
        "wrap: live at 3, FREED at 0, EMPTY at 1": {0: _sent(FREED), 1: _sent(EMPTY), 2: _sent(EMPTY), 3: _live(3)},
    }
    starts = {"FREED, live, EMPTY": 1, "all FREED": 2, "all live": 1, "wrap: live at 3, FREED at 0, EMPTY at 1": 3}
    for name, slots in shapes.items():
        shape = {"t": {TF["size"]: pe.C(SIZE), TF["count"]: pe.C(1), TF["table"]: ("ptr", "tab", ()), TF["equal_fn"]: ("ptr", "eqfn", ())},
                 "slots": slots}
        P = TablePE(prog, shape)
        leaves = P.run(f, [("ptr", "t", ()), ("ptr", "probe", ()), pe.C(starts[name])], pe.State())
        sig = "lookup over slots: " + name
        bad = None
        for lf in leaves:
            if lf.kind != "ret":
                bad = "lookup does not terminate on this table (%s)" % lf.kind
                break
            for e in lf.state.trace:
                if e[0] == "indirect":
                    k = e[2][0]
                    if not (isinstance(k, tuple) and k[0] == "ptr" and k[1].startswith("key")):
                        bad = "equal_fn is called with %s, which is not a live key" % _show(k)
            # result: either NULL or a live slot for which equal_fn said yes
            v = lf.value
            if v != pe.C(0):
                nv = _norm(v)
                el, fl = pe.fields_of(nv[2]) if nv[0] == "ptr" else (None, None)
                if nv[0] != "ptr" or nv[1] != "tab" or slots.get(el, {}).get(EF["k"], pe.C(0))[0] != "ptr":
                    bad = "lookup returns %s, not a live entry" % _show(v)
            # probes past an EMPTY slot?
            probes = [pe.fields_of(_norm(("ptr", "x", ()))[2])]
            if bad:
                break
        # the number of equal_fn calls is bounded by the number of live slots in probe order up to the first EMPTY
        if bad is None:
            order = [(starts[name] + j) % SIZE for j in range(SIZE)]
            live_before_empty = []
            for s in order:
                kk = slots[s][EF["k"]]
                if kk == pe.C(EMPTY):
                    break
                if kk[0] == "ptr":
                    live_before_empty.append(s)
            maxcalls = max((len([e for e in lf.state.trace if e[0] == "indirect"]) for lf in leaves), default=0)
            if maxcalls > len(live_before_empty):
                bad = "equal_fn is called %d times although only %d live keys precede the first EMPTY slot" % (maxcalls, len(live_before_empty))
            if not any(lf.value == pe.C(0) for lf in leaves):
                bad = "no path reports 'not found'"
            found = set()
            for lf in leaves:
                nv = _norm(lf.value) if lf.value is not None else None
                if nv and nv[0] == "ptr" and nv[1] == "tab":
                    found.add(pe.fields_of(nv[2])[0])
            missing = [s_ for s_ in live_before_empty if s_ not in found]
            if missing and not bad:
                bad = ("the live key in slot %d, which follows a tombstone / other keys in the probe sequence, can never be found "
                       "(lookup gives up before reaching it)" % missing[0])
        if bad:
            chk.refuted(rid, f.name, sig, f.entry.term.locstr(), bad)
        else:
            chk.proven(rid, f.name, sig, f.entry.term.locstr(), "%d paths" % len(leaves))
    chk.floor(rid, len(shapes), 4, "lookup shape classes")


def r5(chk, prog, m):
    rid = "C06.R5"
    chk.rule(rid, "the probe index n satisfies 0 <= n < size at every slot access: established by n = h % size and preserved by "
                  "'++n == size ? 0 : n' (inductive step on each probe loop); the growth arithmetic cannot overflow int")
    n_obl = 0
    for fname in ("lh_table_insert_w_hash", "lh_table_lookup_entry_w_hash"):
        f = m.functions.get(fname)
        chk.require(f is not None, fname + " not found")
        chk.touched(f)
        cfg = cfg_of(f)
        P = Paths(f, prog)
        headers = {h for _, h in cfg.back_edges()}
        found = False
        for h in headers:
            for phi in [i for i in h.instrs if i.op == "phi" and i.type == "i64"]:
                # initial value: urem h, size
                init = [(v, lab) for v, lab in phi.x["incoming"] if not cfg.dominates_block(h, f.blocks[lab])]
                back = [(v, lab) for v, lab in phi.x["incoming"] if cfg.dominates_block(h, f.blocks[lab])]
                if len(init) != 1 or not back:
                    continue
                d0 = f.defs.get(init[0][0].v) if init[0][0].kind == "reg" else None
                if d0 is None or d0.op != "urem":
                    continue
                found = True
                n_obl += 1
                sig = "probe index in %s" % fname
                # divisor is the table size
                if not P.path(d0.ops[1]).endswith("->size"):
                    chk.refuted(rid, fname, sig, d0.locstr(), "the probe does not start at h %% size")
                    continue
                # inductive step with the path-linear walker: start at the header with 0 <= n <= size - 1, 1 <= size <= INT_MAX
                w = Walker(prog, f, view="signed")
                res = {"bad": None, "cuts": 0, "acc": 0}
                tname = f.params[0][1]

                def on_instr(w, st, i, res=res):
                    if i.op in ("load", "store"):
                        a = i.ops[0] if i.op == "load" else i.ops[1]
                        p = P.path(a)
                        if "->table[" in p:
                            res["acc"] += 1
                st0 = None

                class W2(Walker):
                    pass
                orig_walk = w._walk

                def start():
                    from ..pathlin import PState
                    st = PState()
                    size = w.atom_for(st, tname + "->size", "i32")
                    st.mem[tname + "->size"] = size
                    nn = w.atom_for(st, "n", "i64")
                    st.env[phi.res] = nn
                    st.facts += [nn.scale(-1), nn - size + const(1), const(1) - size]
                    return st
                st = start()
                # walk one iteration: from the header (phis already bound) until the header is reached again
                cut = {"vals": []}

                def loop_cut(block, st2, cut=cut):
                    if block is h:
                        cut["vals"].append(st2)
                w._loop_cut = loop_cut
                # emulate entering header with phi bound: run the header's non-phi instructions via _walk with onpath empty but
                # keep our binding: Walker re-binds loop-header phis to fresh atoms, so bind after creation through a hook
                orig_fresh = w.fresh
                bound = {"done": False}

                def fresh_hook(st3, hint, t, orig=orig_fresh):
                    if hint == "%" + phi.res and not bound["done"]:
                        bound["done"] = True
                        return atom("n")
                    return orig(st3, hint, t)
                w.fresh = fresh_hook
                w.on_instr = on_instr
                w._walk(h, None, st, frozenset())
                ok = bool(cut["vals"])
                msg = ""
                for st2 in cut["vals"]:
                    # value flowing around the back edge
                    for v, lab in back:
                        if lab != st2.trail[-2] if len(st2.trail) >= 2 else False:
                            continue
                        nv = w.val(st2, v)
                        size2 = st2.mem.get(tname + "->size")
                        if not (isinstance(nv, Lin) and isinstance(size2, Lin) and w.entails(st2, nv.scale(-1)) and w.entails(st2, nv - size2 + const(1))):
                            ok = False
                            msg = "after one probe step the index %r is not shown to stay below size (path %s)" % (nv, st2.prov)
                if ok:
                    chk.proven(rid, fname, sig, phi.locstr(), "n = h %% size initially; one probe step preserves 0 <= n < size (%d back-edge paths)" % len(cut["vals"]))
                else:
                    chk.refuted(rid, fname, sig, phi.locstr(), msg or "no probe step found")
        if not found:
            chk.undecided(rid, fname, "probe index in %s" % fname, f.entry.term.locstr(),
                          "no probe loop over an index that starts at h % size was recognised (the slots may be walked in another "
                          "form, e.g. through a pointer); the bound of the walk is not decided by this rule")
    # growth arithmetic: t->size * 2 only when size <= INT_MAX / 2
    f = m.functions["lh_table_insert_w_hash"]
    n_obl += 1
    from .. import lin
    muls = [i for i in f.instrs() if i.op in ("mul", "shl") and "nsw" in i.x.get("flags", [])]
    bad = None
    for i in muls:
        r = lin.check_nsw(prog, f, i, invariants={"t->size": (1, 2 ** 31 - 1), "t->count": (0, 2 ** 31 - 1)})
        if r.verdict != "PROVEN":
            bad = (i, r)
    if bad:
        (chk.refuted if bad[1].verdict == "REFUTED" else chk.undecided)(rid, f.name, "size * 2", bad[0].locstr(), bad[1].msg)
    else:
        chk.proven(rid, f.name, "size * 2", (muls[0] if muls else f.entry.term).locstr(), "doubling guarded against int overflow (%d multiplications)" % len(muls))
    chk.floor(rid, n_obl, 3, "probe loops and growth arithmetic")


def r6(chk, prog):
    rid = "C06.R6"
    chk.rule(rid, "in every expansion of json_object_object_foreach (GNU and ANSI form) and lh_foreach_safe - the library's own uses and "
                  "witness instantiations compiled on every run - iteration starts at the list head and the successor is loaded before "
                  "the body runs, so deleting the current key inside the body is safe")
    import os
    from ..frontend import VERIF
    wits = [os.path.join(VERIF, "witness", n) for n in ("foreach.c", "foreach_ansi.c")]
    wprog = load_program("default", extra_units=wits)
    n = 0
    nw = 0
    for f in wprog.all_functions():
        if f.module.srcname == "linkhash.c":
            continue
        cfg = cfg_of(f)
        P = None
        headers = {h for _, h in cfg.back_edges()}
        for h in headers:
            for phi in [i for i in h.instrs if i.op == "phi" and i.type == "%struct.lh_entry*"]:
                if P is None:
                    P = Paths(f, wprog)
                inits = [(v, lab) for v, lab in phi.x["incoming"] if not cfg.dominates_block(h, f.blocks[lab])]
                backs = [(v, lab) for v, lab in phi.x["incoming"] if cfg.dominates_block(h, f.blocks[lab])]
                if not inits or not backs or not P.path(inits[0][0]).endswith("->head"):
                    continue
                n += 1
                if f.module.srcname.startswith("witness/"):
                    nw += 1
                chk.touched(f)
                sig = "iteration in %s" % f.name
                # where is the successor read?  follow the back-edge value to a load of <entry>->next
                v = backs[0][0]
                load = _find_next_load(f, P, v, 0)
                dels = [i for b in cfg.reachable_from(h) for i in b.instrs if i.op == "call" and i.callee in
                        ("json_object_object_del", "lh_table_delete_entry", "lh_table_delete", "_json_c_visit") and h in cfg.reachable_from(i.block)]
                if load is None:
                    chk.refuted(rid, f.name, sig, phi.locstr(), "the loop does not advance through <entry>->next")
                    continue
                late = [c for c in dels if _reaches_without(c.block, load.block, h) or (c.block is load.block and c.idx < load.idx)]
                if late:
                    chk.refuted(rid, f.name, sig, load.locstr(),
                                "the successor (<entry>->next) is read after the loop body's call at %s: if the body deletes the current key, its "
                                "next pointer has been cleared and the rest of the iteration is lost" % late[0].locstr())
                else:
                    chk.proven(rid, f.name, sig, load.locstr(), "starts at head; <entry>->next is loaded before the %d body call(s) that may delete" % len(dels))
    chk.floor(rid, n, 4, "iteration loops over the insertion list (library + witness units)")
    chk.floor(rid + ".witness", nw, 3, "witness instantiations of the iteration macros")


def _reaches_without(src, dst, barrier):
    """dst reachable from src's successors without passing through `barrier` (the loop header: a new iteration)"""
    seen = set()
    work = [s_ for s_ in src.succs]
    while work:
        b = work.pop()
        if b in seen or b is barrier:
            continue
        seen.add(b)
        if b is dst:
            return True
        work.extend(b.succs)
    return False


def _find_next_load(f, P, v, depth):
    if v.kind != "reg" or depth > 8:
        return None
    d = f.defs.get(v.v)
    if d is None:
        return None
    if d.op == "load" and P.path(d.ops[0]).endswith("->next"):
        return d
    if d.op == "call" and d.callee in ("lh_entry_next",):
        return d
    if d.op in ("phi", "select", "bitcast"):
        for o in d.ops:
            r = _find_next_load(f, P, o, depth + 1)
            if r is not None:
                return r
    return None


# ---------------------------------------------------------------------------------------------------------------------
def _global_of(op):
    """name of the global an operand denotes (directly or through a constant cast), else None"""
    if op.kind == "global":
        return op.v
    if op.kind == "cexpr":
        import re
        mm = re.findall(r"@([A-Za-z_.$][A-Za-z0-9_.$]*)", str(op.v))
        if len(mm) == 1:
            return mm[0]
    return None


def r8_hash_stable(chk, prog, m):
    rid = "C06.R8"
    chk.rule(rid, "the hash function of a table is a function of the key alone for the table's lifetime: every function that can be "
                  "installed as a table's hash function (passed to lh_table_new, or stored in the global the string tables take theirs "
                  "from) reads, itself or through its callees, no global variable that another function writes (a slot chosen at "
                  "insertion must be the slot computed at lookup)")
    defined = {f.name: f for f in prog.all_functions() if not f.is_decl}
    cands = {}
    for f in defined.values():
        for i in f.instrs():
            if i.op == "call" and i.callee == "lh_table_new" and len(i.ops) >= 3:
                g = _global_of(i.ops[2])
                if g in defined:
                    cands.setdefault(g, "passed to lh_table_new in %s" % f.name)
            if i.op == "store" and f.module is m:
                g = _global_of(i.ops[0])
                t = _global_of(i.ops[1])
                if g in defined and t is not None and t not in defined:
                    cands.setdefault(g, "stored in the global %s by %s" % (t, f.name))
    chk.require(cands, "no function is installed as a hash function anywhere")
    # global -> functions that write it
    writers = {}
    for f in defined.values():
        for i in f.instrs():
            tgt = None
            if i.op == "store":
                tgt = _global_of(i.ops[1])
            elif i.op in ("cmpxchg", "atomicrmw"):
                tgt = _global_of(i.ops[0])
            if tgt is not None and tgt not in defined:
                writers.setdefault(tgt, set()).add(f.name)
    n = 0
    for name, how in sorted(cands.items()):
        n += 1
        f = defined[name]
        chk.touched(f)
        closure, work = {name}, [name]
        indirect = None
        while work:
            g = defined[work.pop()]
            for i in g.instrs():
                if i.op == "call":
                    if i.callee in defined and i.callee not in closure:
                        closure.add(i.callee)
                        work.append(i.callee)
                    elif i.callee is None and indirect is None:
                        indirect = i
        bad = None
        for gname in sorted(closure):
            for i in defined[gname].instrs():
                if i.op != "load":
                    continue
                t = _global_of(i.ops[0])
                if t is None or t in defined:
                    continue
                w = sorted(writers.get(t, set()) - closure)
                if w and bad is None:
                    bad = (i, t, w, gname)
        sig = "%s (%s)" % (name, how)
        if bad:
            i, t, w, gname = bad
            chk.refuted(rid, name, sig, i.locstr(),
                        "%s reads the global %s%s, which %s writes: the hash of a key changes while tables that placed their entries "
                        "with the old value are alive, so a live key is looked up in the wrong slot (not found, or inserted twice)"
                        % (name, t, "" if gname == name else " (in %s)" % gname, ", ".join(w)), {"load": i.raw, "writers": w})
        elif indirect is not None:
            chk.undecided(rid, name, sig, indirect.locstr(), "makes an indirect call whose target is not a global read that was followed")
        else:
            chk.proven(rid, name, sig, f.entry.term.locstr(), "reads only its argument, constants and globals written by no function outside itself and its callees (%d functions)" % len(closure))
    chk.floor(rid, n, 2, "functions installable as a hash function")
