"""C02 - serialization emits valid JSON denoting the tree; parse(serialize(T)) = T.

Decided clauses (structure only):
R1 writer escape table: the output of json_escape_str for each of the 256 byte values x NOSLASHESCAPE, extracted by partial
   evaluation, against RFC 8259 section 7 and against the reader's decode table (reader and writer agree)
R2 formatting flags change only insignificant output: for the object and array emitters and all valuations of
   {SPACED, PRETTY, PRETTY_TAB, COLOR}, the append trace with whitespace / ANSI colour appends erased equals the PLAIN trace
R3 a child's failure propagates: each indirect serializer call's result is tested and leads to a negative return;
   json_object_to_json_string_length returns text and length from the same buffer only on a non-negative result
R4 integer text by signedness: the int emitter formats with a signed conversion under the signed tag and an unsigned one under
   the unsigned tag
R6 the emitter's text post-processing (".0" completion, NOZERO trimming) keeps the token an RFC number of the same value, on
   shape classes of the conversion result
R5 a finite double is rendered through a numeric conversion: every fixed-text rendering (NaN / Infinity / -Infinity) in the double
   emitter is unreachable while the stored double is finite (exact class analysis of the branch conditions on the value)
"""
from ..ir import load_program, strip_casts
from ..cfg import cfg_of
from ..flow import Paths, result_fates, dominating_conditions
from .. import pe
from .. import fclass
from ..strpe import StrPE
from .c01 import RFC_ESC

F_SPACED, F_PRETTY, F_NOZERO, F_TAB, F_NOSLASH, F_COLOR = 1, 2, 4, 8, 16, 32
WS = {0x20, 0x09, 0x0A, 0x0D}


def run(chk):
    prog = load_program("default")
    chk.variant(prog)
    m = prog.module("json_object.c")
    chk.require(m is not None, "json_object.c not in the build")
    r1(chk, prog, m)
    r2(chk, prog, m)
    r3(chk, prog, m)
    r4(chk, prog, m)
    r5(chk, prog, m)
    r6(chk, prog, m)
    r7_indent(chk, prog, m)
    from . import c01
    ft = prog.fn("json_tokener_parse_ex")
    chk.require(ft is not None, "json_tokener_parse_ex not found")
    with chk.shared():
        c01.r6(chk, prog, ft)        # re-parsing: the number read back is the library conversion of the emitted text
        from . import c09
        from . import c20
        mu = prog.module("json_util.c")
        if mu is not None:
            c20.r6(chk, prog, mu)      # the file a tree is saved to holds that text and nothing else
        c09._r6_serializer_data(chk, prog, m, "C09.R6", announce=True)   # a copy keeps the serializer that decides whether retained text is emitted
    chk.undecided_clauses += [
        "exactness of the %.17g double text itself (libc's conversion; value-level)",
        "parse(serialize(T)) == T and re-serialization identity (needs both executions)",
        "retained number text of doubles created from text; custom serializers / formats",
        "that the reported length equals the text length beyond R3 (same buffer, bpos)",
    ]


class EscPE(pe.PE):
    def __init__(self, prog, byte, flags):
        super().__init__(prog, max_leaves=2000, max_steps=200000)
        self.byte = byte
        self.flags = flags

    def should_inline(self, g, instr):
        return g.internal and g.name not in ()

    def init_mem(self, state, base, path, t):
        if base == "str":
            data = self.byte if isinstance(self.byte, (bytes, bytearray)) else bytes([self.byte])
            el, fl = pe.fields_of(path)
            if not fl and isinstance(el, int) and 0 <= el < len(data):
                return pe.C(data[el] if data[el] < 128 else data[el] - 256)
        if base == "@json_hex_chars" and path == ():
            for m in self.prog.modules:
                g = m.globals.get("json_hex_chars")
                if g is not None and g.init is not None:
                    v = g.init
                    while v.kind == "cexpr" and v.args:
                        v = v.args[0]
                    if v.kind == "global":
                        return ("ptr", "@" + v.v, ())
        return pe.TOP

    def _snapshot(self, state, src, ln):
        """the bytes a local buffer holds at the moment it is appended (the buffer may be reused later on the path)"""
        if src[0] != "ptr" or src[1] == "str" or src[1].startswith("@") or not pe.is_const(ln) or not (0 < ln[1] <= 16):
            return None
        loc0 = self._loc(state, src)
        if loc0 is None:
            return None
        el0, fl0 = pe.fields_of(loc0[1])
        if fl0 or not isinstance(el0, int):
            return None
        out = []
        for k in range(ln[1]):
            idx = el0 + k
            v = state.mem.get((src[1], (("i", idx),) if idx else ()))
            if v is None or not pe.is_const(v):
                return None
            out.append(v[1] % 256)
        return bytes(out)

    def call_model(self, state, frame, i, args):
        nm = i.callee
        if nm in ("printbuf_memappend", "snprintf"):
            state.trace.append(("call", nm, tuple(args), self._snapshot(state, args[1], args[2]) if nm == "printbuf_memappend" else None))
            return pe.C(0) if nm == "printbuf_memappend" else pe.C(6)
        if nm and nm.startswith("llvm.memcpy"):
            state.trace.append(("call", "memcpy", tuple(args), self._snapshot(state, args[1], args[2])))
            return pe.C(0)
        return None


def _lit(P, v):
    """bytes of a literal pointer expression"""
    if v[0] != "ptr" or not v[1].startswith("@"):
        return None
    g = P.global_bytes(v[1][1:])
    if g is None:
        return None
    # array-to-pointer decay followed by an element step is one offset: ((i,0),(i,k)) == ((i,k),)
    path = [q for k, q in enumerate(v[2]) if not (q == ("i", 0) and k + 1 < len(v[2]) and isinstance(v[2][k + 1], tuple) and v[2][k + 1][0] == "i")]
    el, fl = pe.fields_of(tuple(path))
    return g[el:] if isinstance(el, int) and not fl else None


def _escape_output(prog, f, byte, flags):
    """list of possible outputs (bytes) of json_escape_str for the one-byte string [byte]"""
    data = byte if isinstance(byte, (bytes, bytearray)) else bytes([byte])
    P = EscPE(prog, byte, flags)
    P.loop_widen = 1000
    leaves = P.run(f, [("ptr", "pb", ()), ("ptr", "str", ()), pe.C(len(data)), pe.C(flags)], pe.State())
    outs = set()
    for l in leaves:
        if l.kind != "ret":
            outs.add(None)
            continue
        out = bytearray()
        sbuf = None
        ok = True
        for e in l.state.trace:
            if e[0] != "call":
                continue
            if e[1] == "snprintf":
                fmt = _lit(P, e[2][2])
                if fmt is None or not fmt.startswith(b"\\u00%c%c\0") or not (pe.is_const(e[2][3]) and pe.is_const(e[2][4])) \
                        or not (pe.is_const(e[2][1]) and e[2][1][1] >= 7):
                    ok = False
                else:
                    sbuf = b"\\u00" + bytes([e[2][3][1] % 256, e[2][4][1] % 256])
            elif e[1] in ("printbuf_memappend", "memcpy"):
                src, ln = (e[2][1], e[2][2])
                if not pe.is_const(ln):
                    ok = False
                    continue
                n = ln[1]
                if src[0] == "ptr" and src[1] == "str":
                    el, fl = pe.fields_of(src[2])
                    if not fl and isinstance(el, int) and el >= 0 and el + n > len(data):
                        out += data[el:] + b"<%d byte(s) past the end of the string>" % (el + n - len(data))
                    elif fl or not isinstance(el, int) or el < 0:
                        ok = False
                    else:
                        out += data[el:el + n]
                elif src[0] == "ptr" and src[1].startswith("@"):
                    lit = _lit(P, src)
                    if lit is None:
                        ok = False
                    else:
                        out += lit[:n]
                elif src[0] == "ptr" and "sbuf" in src[1] and sbuf is not None and n == 6:
                    out += sbuf
                elif src[0] == "ptr" and len(e) > 3 and e[3] is not None:
                    out += e[3]          # snapshot of a local buffer taken when it was appended
                elif src[0] == "ptr":
                    # a local buffer filled byte by byte: the bytes stored on this path
                    loc0 = P._loc(l.state, src)
                    el0, fl0 = pe.fields_of(loc0[1]) if loc0 is not None else (None, ())
                    bs = []
                    for k in range(n):
                        idx = (el0 + k) if isinstance(el0, int) and not fl0 else None
                        v = l.state.mem.get((src[1], (("i", idx),) if idx else ())) if idx is not None else None
                        if v is None or not pe.is_const(v):
                            bs = None
                            break
                        bs.append(v[1] % 256)
                    if bs is None:
                        ok = False
                    else:
                        out += bytes(bs)
                else:
                    ok = False
        outs.add(bytes(out) if ok else None)
    # the inline fast path and the call path of printbuf_memappend_fast produce the same text: duplicates collapse
    return outs


def r1(chk, prog, m):
    rid = "C02.R1"
    chk.rule(rid, "string escaping, per byte value and NOSLASHESCAPE setting: control characters, '\"' and '\\\\' are never emitted verbatim; every "
                  "two-character escape is one of RFC 8259's and decodes (RFC table and the parser's own table) to the byte; '/' is verbatim "
                  "only under NOSLASHESCAPE; other control characters become \\\\u00XX with lowercase hex; everything else is verbatim")
    f = m.functions.get("json_escape_str")
    chk.require(f is not None and not f.is_decl, "json_escape_str not found")
    chk.touched(f)
    rev = {v: k for k, v in RFC_ESC.items()}     # byte value -> escape letter
    n = 0
    bad_rows = []
    und_rows = []
    for flags in (0, F_NOSLASH):
        for b in range(256):
            n += 1
            outs = _escape_output(prog, f, b, flags)
            if b in (0x22, 0x5C, 0x08, 0x0C, 0x0A, 0x0D, 0x09):
                want = {b"\\" + bytes([rev[b]])}
            elif b == 0x2F:
                want = {b"/"} if flags & F_NOSLASH else {b"\\/"}
            elif b < 0x20:
                want = {("\\u00%02x" % b).encode()}
            else:
                want = {bytes([b])}
            if None in outs:
                und_rows.append((b, flags))
            elif outs != want:
                bad_rows.append((b, flags, outs, want))
    # report per class to keep obligations readable
    classes = [("control characters with a short escape", [0x08, 0x0C, 0x0A, 0x0D, 0x09]), ("quote and backslash", [0x22, 0x5C]),
               ("slash", [0x2F]), ("other control characters", [x for x in range(0x20) if x not in (8, 9, 10, 12, 13)]),
               ("ordinary bytes 0x20-0x7f", [x for x in range(0x20, 0x80) if x not in (0x22, 0x5C, 0x2F)]),
               ("bytes 0x80-0xff", list(range(0x80, 0x100)))]
    for name, members in classes:
        for flags in (0, F_NOSLASH):
            rows = [r for r in bad_rows if r[0] in members and r[1] == flags]
            sig = "%s, %s" % (name, "NOSLASHESCAPE" if flags else "default")
            urows = [r for r in und_rows if r[0] in members and r[1] == flags]
            if rows:
                b, fl, outs, want = rows[0]
                chk.refuted(rid, f.name, sig, f.entry.term.locstr(),
                            "byte 0x%02x is written as %s; RFC 8259 section 7 / the parser's decode table require %s"
                            % (b, sorted(repr(o) for o in outs), sorted(repr(w) for w in want)), {"rows": len(rows)})
            elif urows:
                chk.undecided(rid, f.name, sig, f.entry.term.locstr(),
                              "the bytes appended for 0x%02x could not be reconstructed from the evaluation (%d byte values)" % (urows[0][0], len(urows)))
            else:
                chk.proven(rid, f.name, sig, f.entry.term.locstr(), "%d byte values as required" % len(members))
    chk.floor(rid, n, 512, "escape table rows")
    # the writer is a byte-wise homomorphism: a two-byte string gives the concatenation of the two single-byte outputs, whatever the
    # first byte's branch did to the scan position (every first-byte class x every second byte, plus class x class for three bytes)
    rid2 = "C02.R1b"
    chk.rule(rid2, "string escaping is byte-wise: for every class of first byte (each escape branch, slash, ordinary, NUL, high bit) and "
                   "every second byte, and NOSLASHESCAPE on and off, the output for the two-byte string is the concatenation of the "
                   "outputs for its bytes (no branch skips, repeats or re-reads the byte that follows)")
    single = {}
    for flags in (0, F_NOSLASH):
        for b in range(256):
            o = _escape_output(prog, f, b, flags)
            single[(b, flags)] = next(iter(o)) if len(o) == 1 and None not in o else None
    reps = [0x22, 0x5C, 0x2F, 0x08, 0x0A, 0x01, 0x1F, 0x00, 0x61, 0x7F, 0x80, 0xFF]
    n2 = 0
    bad2 = None
    for flags in (0, F_NOSLASH):
        for a in reps:
            for b in range(256):
                n2 += 1
                want = None if single[(a, flags)] is None or single[(b, flags)] is None else single[(a, flags)] + single[(b, flags)]
                got = _escape_output(prog, f, bytes([a, b]), flags)
                if want is not None and got != {want} and bad2 is None:
                    bad2 = (bytes([a, b]), flags, got, want)
        for a in reps:
            for b in reps:
                for c in (0x22, 0x61):
                    n2 += 1
                    parts = [single[(x, flags)] for x in (a, b, c)]
                    if any(p is None for p in parts):
                        continue
                    got = _escape_output(prog, f, bytes([a, b, c]), flags)
                    if got != {b"".join(parts)} and bad2 is None:
                        bad2 = (bytes([a, b, c]), flags, got, b"".join(parts))
    if bad2:
        data, flags, got, want = bad2
        chk.refuted(rid2, f.name, "byte-wise escaping", f.entry.term.locstr(),
                    "the string %r under flags %d is written as %s, not as the concatenation %r of its bytes' escapes"
                    % (data, flags, sorted(repr(g) for g in got), want), {"string": repr(data), "flags": flags})
    else:
        chk.proven(rid2, f.name, "byte-wise escaping", f.entry.term.locstr(), "%d strings of two and three bytes" % n2)
    chk.floor(rid2, n2, 6000, "multi-byte strings evaluated")


# ---------------------------------------------------------------------------------------------------------------------
class EmitPE(pe.PE):
    """emitters over a symbolic container with n children"""

    def __init__(self, prog, kind, n, flags):
        super().__init__(prog, max_leaves=4000, max_steps=400000)
        self.kind, self.n, self.flags = kind, n, flags
        self.loop_widen = 1000
        self.max_visits = 16

    def should_inline(self, g, instr):
        return g.internal and g.name not in ("json_escape_str",)

    def init_mem(self, state, base, path, t):
        el, fl = pe.fields_of(path)
        if base == "jso" and fl and isinstance(fl[0], tuple) and fl[0][0] == "f" and fl[0][2] == 1:
            return ("ptr", "table", ()) if self.kind == "object" else ("ptr", "alist", ())
        if base == "table" and el == 0 and fl == (2,):
            return ("ptr", "entry0", ()) if self.n > 0 else pe.C(0)
        if base.startswith("entry") and el == 0:
            k = int(base[5:])
            if fl == (3,):
                return ("ptr", "entry%d" % (k + 1), ()) if k + 1 < self.n else pe.C(0)
            if fl == ():
                return ("ptr", "key%d" % k, ())
            if fl == (2,):
                return ("ptr", "child%d" % k, ()) if k != 1 else pe.C(0)      # the second member is a JSON null
        if base.startswith("child") and el == 0 and fl == (2,):
            return ("ptr", "ser_" + base, ())
        return pe.TOP

    def call_model(self, state, frame, i, args):
        nm = i.callee
        if nm is None:
            state.trace.append(("child", tuple(args)))
            return self.fresh_root(state, "childrc", [0, -1])
        if nm == "printbuf_memappend":
            state.trace.append(("append", args[1], args[2]))
            return pe.C(1)
        if nm == "printbuf_memset":
            state.trace.append(("fill", args[2], args[3]))
            return pe.C(0)
        if nm == "json_escape_str":
            state.trace.append(("escape", args[1]))
            return pe.C(0)
        if nm == "strlen":
            return pe.TOP
        if nm == "json_object_get_object":
            return ("ptr", "table", ())
        if nm == "json_object_array_length":
            return pe.C(self.n)
        if nm == "json_object_array_get_idx":
            k = args[1][1] if pe.is_const(args[1]) else None
            return ("ptr", "child%d" % k, ()) if k is not None and k != 1 else pe.C(0)
        return None


def _significant(P, trace):
    """the append trace with whitespace and ANSI colour sequences removed"""
    out = []
    for e in trace:
        if e[0] == "append":
            lit = _lit(P, e[1])
            n = e[2][1] if pe.is_const(e[2]) else None
            if lit is None or n is None:
                out.append(("append?",))
                continue
            text = lit[:n]
            if all(c in WS for c in text):
                continue
            if text.startswith(b"\x1b[") and text.endswith(b"m"):
                continue
            # drop whitespace inside separator literals such as ": " and " }"
            out.append(("text", bytes(c for c in text if c not in WS)))
        elif e[0] == "fill":
            ch = e[1][1] if pe.is_const(e[1]) else None
            if ch in WS:
                continue
            out.append(("fill", ch))
        elif e[0] == "child":
            out.append(("child", e[1][0]))
        elif e[0] == "escape":
            out.append(("escape", e[1]))
    return out


def r2(chk, prog, m):
    rid = "C02.R2"
    chk.rule(rid, "object and array emitters: under every valuation of SPACED / PRETTY / PRETTY_TAB / COLOR the sequence of significant "
                  "output (punctuation, escaped keys, children, 'null') is the one PLAIN produces; the flags add only whitespace and ANSI colour")
    n = 0
    for kind, fname in (("object", "json_object_object_to_json_string"), ("array", "json_object_array_to_json_string")):
        f = m.functions.get(fname)
        chk.require(f is not None and not f.is_decl, fname + " not found")
        chk.touched(f)
        for nchild in (0, 1, 3):
            ref = None
            for flags in [0] + [a | b | c | d for a in (0, F_SPACED) for b in (0, F_PRETTY) for c in (0, F_TAB) for d in (0, F_COLOR)][1:]:
                P = EmitPE(prog, kind, nchild, flags)
                leaves = P.run(f, [("ptr", "jso", ()), ("ptr", "pb", ()), pe.C(0), pe.C(flags)], pe.State())
                good = [l for l in leaves if l.kind == "ret" and not any(r.startswith("childrc") and l.state.roots[r] == frozenset([-1]) for r in l.state.roots)]
                sigs = {tuple(map(repr, _significant(P, l.state.trace))) for l in good}
                n += 1
                sig = "%s with %d children, flags 0x%02x" % (kind, nchild, flags)
                if len(sigs) != 1:
                    chk.refuted(rid, fname, sig, f.entry.term.locstr(), "%d different significant outputs on the successful paths" % len(sigs))
                    continue
                s = next(iter(sigs))
                if flags == 0:
                    ref = s
                    # sanity of the PLAIN trace itself: opens, closes, separators
                    text = b"".join(eval(x)[1] for x in s if x.startswith("('text'"))
                    opener, closer = (b"{", b"}") if kind == "object" else (b"[", b"]")
                    if not (text.startswith(opener) and text.endswith(closer) and text.count(b",") == max(nchild - 1, 0)):
                        chk.refuted(rid, fname, sig, f.entry.term.locstr(), "PLAIN output %r is not a well-formed %s of %d members" % (text, kind, nchild))
                    else:
                        chk.proven(rid, fname, sig, f.entry.term.locstr(), "PLAIN punctuation %r, %d children / null literals" % (text, nchild))
                elif s != ref:
                    diff = [(a, b) for a, b in zip(s, ref) if a != b][:1] or [("length %d" % len(s), "length %d" % len(ref))]
                    chk.refuted(rid, fname, sig, f.entry.term.locstr(),
                                "with flags 0x%02x the significant output differs from PLAIN: %s instead of %s (a formatting flag changes a token, "
                                "drops a separator or skips a child)" % (flags, diff[0][0], diff[0][1]))
                else:
                    chk.proven(rid, fname, sig, f.entry.term.locstr(), "same significant output as PLAIN")
    chk.floor(rid, n, 90, "(emitter, size, flag valuation) rows")


def r3(chk, prog, m):
    rid = "C02.R3"
    chk.rule(rid, "a child's serializer failure makes the emitter return a negative value; json_object_to_json_string_length hands out "
                  "text and length only when the serializer returned a non-negative value, both from the same buffer")
    n = 0
    for fname in ("json_object_object_to_json_string", "json_object_array_to_json_string", "json_object_to_json_string_length"):
        f = prog.fn(fname)
        chk.require(f is not None, fname + " not found")
        chk.touched(f)
        P = Paths(f, prog)
        cfg = cfg_of(f)
        for i in f.instrs():
            if i.op == "call" and i.callee is None and P.path(i.x["callee"]).endswith("_to_json_string"):
                n += 1
                fates = result_fates(f, i)
                sig = "child serializer result in %s" % fname
                if "test" in fates:
                    chk.proven(rid, fname, sig, i.locstr(), "tested")
                else:
                    chk.refuted(rid, fname, sig, i.locstr(), "the child serializer's result is %s: its failure is lost" % sorted(fates))
    # json_object_to_json_string_length by partial evaluation: for a NULL node, an allocation failure of the node's buffer, and
    # serializer results -1 / 0 / 5: the text handed out is the node's buffer exactly when the serializer did not fail, the length
    # stored is that buffer's bpos (or the literal's length), and a failure hands out NULL
    f = prog.fn("json_object_to_json_string_length")
    BPOS = 7

    class _LenPE(pe.PE):
        def should_inline(self, g, instr):
            return g.internal

        def init_mem(self, state, base, path, t):
            el, fl = pe.fields_of(path)
            if base == "jso" and t.endswith("*") and "printbuf" in t:
                return self.fresh_root(state, "haspb", [0, 1]) and ("ptr", "pb", ())
            if base == "pb" and t == "i32":
                return pe.C(BPOS)
            if base == "pb" and t.endswith("*"):
                return ("ptr", "pbbuf", ())
            return pe.TOP

        def call_model(self, state, frame, i, args):
            nm = i.callee
            if nm is None:
                state.trace.append(("serializer", tuple(args)))
                return self.fresh_root(state, "rc", [-1, 0, 5])
            if nm == "printbuf_new":
                return ("ptr", "pb", ())
            if nm == "printbuf_reset":
                return pe.C(0)
            return None
    bad = None
    nleaf = 0
    for jso_arg in (("ptr", "jso", ()), pe.C(0)):
        h = _LenPE(prog, max_leaves=200, max_steps=50000)
        leaves = h.run(f, [jso_arg, pe.C(0), ("ptr", "lenout", ())], pe.State())
        for lf in leaves:
            if lf.kind != "ret":
                bad = bad or "evaluation ended with %s" % lf.kind
                continue
            nleaf += 1
            ln = lf.state.mem.get(("lenout", ()))
            rcs = [lf.state.roots[r] for r in lf.state.roots if r.startswith("rc#")]
            failed = any(set(x) == {-1} for x in rcs)
            called = bool(rcs)
            v = lf.value
            if v is not None and v[0] == "ptr" and v[1] == "pbbuf":
                if not called or failed or any(-1 in x for x in rcs):
                    bad = bad or "the buffer is handed out although the serializer %s" % ("failed" if called else "was not run")
                elif ln is None or not pe.is_const(ln) or ln[1] != BPOS:
                    bad = bad or "the buffer is handed out but the reported length is not its bpos (%r)" % (ln,)
            elif v is not None and v[0] == "ptr" and v[1].startswith("@"):
                lit = h.global_bytes(v[1][1:])
                want = len(lit.split(b"\0")[0]) if lit else None
                if ln is None or not pe.is_const(ln) or ln[1] != want:
                    bad = bad or "a literal is handed out with length %r instead of %r" % (ln, want)
            elif v is not None and pe.is_const(v) and v[1] == 0:
                if called and not any(-1 in x for x in rcs):
                    bad = bad or "NULL is returned although the serializer succeeded"
            else:
                bad = bad or "a path returns %r, which is neither the node's buffer, a literal nor NULL" % (v,)
    n += 1
    if bad is None and nleaf >= 3:
        chk.proven(rid, f.name, "text and length", f.entry.term.locstr(),
                   "on %d evaluated outcomes: buffer + its bpos after a non-negative result, literal + its length for a NULL node, NULL otherwise" % nleaf)
    elif bad is None:
        chk.undecided(rid, f.name, "text and length", f.entry.term.locstr(), "only %d outcomes could be evaluated" % nleaf)
    else:
        chk.refuted(rid, f.name, "text and length", f.entry.term.locstr(), bad)
    chk.floor(rid, n, 3, "propagation obligations")


def r4(chk, prog, m):
    rid = "C02.R4"
    chk.rule(rid, "the integer emitter prints the signed member with a signed conversion under the signed tag and the unsigned member with "
                  "an unsigned conversion under the unsigned tag")
    f = m.functions.get("json_object_int_to_json_string")
    chk.require(f is not None and not f.is_decl, "json_object_int_to_json_string not found")
    chk.touched(f)
    tags = m.enumerators("json_object_int_type")
    T_I = tags["json_object_int_type_int64"]
    P = Paths(f, prog)
    calls = [i for i in f.instrs() if i.op == "call" and i.callee == "snprintf"]
    n = 0
    for c in calls:
        n += 1
        a = c.ops[2]
        while a.kind == "cexpr" and a.args:
            a = a.args[0]
        g = f.module.globals.get(a.v) if a.kind == "global" else None
        fmt = g.bytes.rstrip(b"\0").decode() if g is not None and g.bytes else ""
        signed_fmt = fmt.endswith("d") or fmt.endswith("i")
        unsigned_fmt = fmt.endswith("u")
        conds = [(x, tr) for x, tr in dominating_conditions(f, c.block) if getattr(x, "op", None) == "icmp" and "cint_type" in P.path(x.ops[0])]
        under_signed = None
        for x, tr in conds:
            if x.ops[1].kind == "int":
                eq = (x.x["pred"] == "eq") == tr
                under_signed = (x.ops[1].v == T_I) == eq
        sig = "snprintf(%r)" % fmt
        if under_signed is None or not (signed_fmt or unsigned_fmt):
            chk.undecided(rid, f.name, sig, c.locstr(), "format or representation test not recognised")
        elif under_signed == signed_fmt:
            chk.proven(rid, f.name, sig, c.locstr(), "%s conversion under the %s tag" % ("signed" if signed_fmt else "unsigned", "signed" if under_signed else "unsigned"))
        else:
            chk.refuted(rid, f.name, sig, c.locstr(),
                        "a %s conversion (%s) is used under the %s representation tag: values >= 2^63 print as negative numbers (or vice versa)"
                        % ("signed" if signed_fmt else "unsigned", fmt, "signed" if under_signed else "unsigned"))
    chk.floor(rid, n, 2, "integer formatting calls")


# ---------------------------------------------------------------------------
# R5 finite doubles never take a fixed-text rendering
PRINTF_LIKE = {"snprintf": 2, "sprintf": 1, "sprintbuf": 1, "printbuf_memappend": 1, "printbuf_strappend": 1,
               "memcpy": 1, "strcpy": 1, "llvm.memcpy.p0i8.p0i8.i64": 1}
NONFINITE_TEXT = {"NaN": fclass.NAN, "Infinity": fclass.PINF, "-Infinity": fclass.NINF}


def r5(chk, prog, m):
    rid = "C02.R5"
    chk.rule(rid, "double emitter: a rendering whose text is fixed (no conversion of the value) is reached only when the stored double is "
                  "not finite, and with the non-finite value the text names; decided by evaluating every branch condition on the value "
                  "exactly, per class of doubles (NaN, the infinities, the signed zeros, each compared constant, the intervals between)")
    n = 0
    for f in m.functions.values():
        if f.is_decl:
            continue
        P = Paths(f, prog)
        loads = [i for i in f.instrs() if i.op == "load" and i.type == "double" and P.path(i.ops[0]).endswith("c_double")]
        if not loads:
            continue
        fixed = []
        for c in f.instrs():
            if c.op != "call" or c.callee not in PRINTF_LIKE:
                continue
            k = PRINTF_LIKE[c.callee]
            if k >= len(c.ops):
                continue
            a = c.ops[k]
            # the text may be chosen among literals before the call (a phi / select of string literals): one rendering per choice,
            # located at the predecessor block the choice comes from
            choices = []
            d0 = f.defs.get(a.v) if a.kind == "reg" else None
            if d0 is not None and d0.op == "phi":
                for val, lab in d0.x["incoming"]:
                    choices.append((val, f.blocks[lab]))
            else:
                choices.append((a, None))
            for a1, blk in choices:
                while a1.kind == "cexpr" and a1.args:
                    a1 = a1.args[0]
                g = f.module.globals.get(a1.v) if a1.kind == "global" else None
                if g is None or not g.bytes:
                    continue
                txt = g.bytes.split(b"\0")[0].decode("latin-1")
                if "%" in txt:
                    continue
                if c.callee in ("memcpy", "strcpy", "llvm.memcpy.p0i8.p0i8.i64") and txt not in NONFINITE_TEXT:
                    continue          # copies of other literals (".0", separators) are not renderings of the value
                fixed.append((c, txt, blk))
        if not fixed:
            continue
        vpaths = sorted({P.path(i.ops[0]) for i in loads})
        if len(vpaths) != 1:
            continue
        vpath = vpaths[0]
        stores = [i for i in f.instrs() if i.op == "store" and P.path(i.ops[1]) == vpath]
        chk.touched(f)
        state, cls, used = fclass.analyse(f, prog, vpath)
        for c, txt, blk in fixed:
            # only renderings of the value itself: text that is a JSON-extension number word or is selected by a test on the value
            st = state.get(c.block) if blk is None else fclass.analyse.last_edges.get((blk.name, c.block.name))
            sig = "fixed text %r" % txt
            if st is None:
                chk.proven(rid, f.name, sig, c.locstr(), "unreachable")
                n += 1
                continue
            allc = frozenset(nm for nm, _ in cls)
            if st == allc and txt not in NONFINITE_TEXT:
                continue          # not selected by the value: not a rendering of it (e.g. a separator)
            n += 1
            if stores:
                chk.undecided(rid, f.name, sig, c.locstr(), "the double is written inside the emitter")
                continue
            fin = sorted(x for x in st if fclass.is_finite_class(x))
            detail = {"value": vpath, "classes_reaching": sorted(st), "conditions_evaluated": used,
                      "classes": [nm for nm, _ in cls]}
            if fin:
                rep = dict(cls)[fin[0]]
                chk.refuted(rid, f.name, sig, c.locstr(),
                            "the text %r is emitted for the finite double %r (class %s): the output is not a number and re-parses to a "
                            "different value" % (txt, rep, fin[0]), detail)
            elif txt in NONFINITE_TEXT and set(st) - {NONFINITE_TEXT[txt]}:
                chk.refuted(rid, f.name, sig, c.locstr(),
                            "the text %r is emitted for %s" % (txt, ", ".join(sorted(set(st) - {NONFINITE_TEXT[txt]}))), detail)
            else:
                chk.proven(rid, f.name, sig, c.locstr(), "reached only with %s" % ", ".join(sorted(st)), detail)
    chk.floor(rid, n, 3, "fixed-text renderings in the double emitter")


# ---------------------------------------------------------------------------
# R6 the NOZERO flag (and the ".0" completion) never change a double token's value
import re as _re
from decimal import Decimal as _Dec

RFC_NUM = _re.compile(rb"-?(0|[1-9][0-9]*)(\.[0-9]+)?([eE][+-]?[0-9]+)?\Z")


class FmtPE(StrPE):
    """the double emitter with snprintf's result fixed to one sample text; libc string functions are evaluated on the buffer"""

    def __init__(self, prog, text, flags):
        super().__init__(prog, max_leaves=400, max_steps=200000)
        self.text, self.flags = text, flags
        self.loop_widen = 1000
        self.max_visits = 200

    def should_inline(self, g, instr):
        return False

    def init_mem(self, state, base, path, t):
        if base.startswith("@") and not path:
            return pe.C(0)            # no custom format installed (global / thread-local pointers are NULL)
        return pe.TOP

    def call_model(self, state, frame, i, args):
        nm = i.callee
        if nm == "snprintf":
            fmt = self._cstr(state, args[2])
            if fmt is None:
                return None
            if b"%" in fmt:
                state.trace.append(("formatted",))
                txt = self.text
            else:
                txt = fmt
            self._write(state, args[0], txt + b"\0")
            return pe.C(len(txt))
        if nm == "printbuf_memappend":
            n = args[2][1] if pe.is_const(args[2]) else None
            data = None
            if n is not None and 0 <= n < 200:
                bs = [self._byte(state, args[1], k) for k in range(n)]
                data = bytes(bs) if all(b is not None for b in bs) else None
            state.trace.append(("out", data, n))
            return pe.C(n if n is not None else 0)
        return self.libc_string_model(state, frame, i, args)


def _sample_texts():
    ints = [b"5", b"0", b"50", b"500"]
    fracs = [None, b"5", b"0", b"50", b"05", b"00", b"500", b"505"]
    exps = [None, b"e+05", b"e+50", b"e-50", b"e+00", b"e+500", b"e-05"]
    out = []
    for sg in (b"", b"-"):
        for a in ints:
            for fr in fracs:
                for ex in exps:
                    if ex is not None and len(a) > 1:
                        continue          # printf's exponent forms have one integer digit
                    out.append(sg + a + ((b"." + fr) if fr is not None else b"") + (ex or b""))
    return out


def r6(chk, prog, m):
    rid = "C02.R6"
    chk.rule(rid, "double emitter, text post-processing: for every shape of text the numeric conversion can produce (sign x integer "
                  "digits x fraction absent / ending in a non-zero digit / ending in one or more zeros x exponent absent / ending in "
                  "a zero / ending in a non-zero digit, zero runs of length 0..2) and NOZERO on and off, the text handed to the buffer "
                  "is an RFC 8259 number with exactly the value of the converted text, and its reported length is its length "
                  "(the emitter is partially evaluated with the conversion result fixed; strchr / strstr / strcat / strlen / memmove "
                  "are evaluated on the local buffer)")
    f = m.functions.get("json_object_double_to_json_string_format")
    chk.require(f is not None and not f.is_decl, "json_object_double_to_json_string_format not found")
    chk.touched(f)
    texts = _sample_texts()
    n = 0
    bad = {}
    und = 0
    for flags in (0, F_NOZERO, F_NOZERO | F_PRETTY | F_SPACED):
        for txt in texts:
            h = FmtPE(prog, txt, flags)
            st = pe.State()
            leaves = h.run(f, [("ptr", "jso", ()), ("ptr", "pb", ()), pe.C(0), pe.C(flags), pe.C(0)], st)
            outs = set()
            for lf in leaves:
                if lf.kind != "ret" or not any(e[0] == "formatted" for e in lf.state.trace):
                    continue
                o = [e for e in lf.state.trace if e[0] == "out"]
                outs.add(tuple((e[1], e[2]) for e in o))
            n += 1
            if len(outs) != 1:
                und += 1
                continue
            (seq,) = outs
            if len(seq) != 1 or seq[0][0] is None:
                und += 1
                continue
            data, ln = seq[0]
            ok = RFC_NUM.match(data) is not None and _Dec(data.decode()) == _Dec(txt.decode())
            if not ok:
                shape = (flags & F_NOZERO != 0, b"e" in txt.lower(), b"." in txt)
                bad.setdefault(shape, (txt, data, flags))
    for (nz, hasexp, hasdot) in sorted({(fl & F_NOZERO != 0, e, d) for fl in (0, F_NOZERO) for e in (False, True) for d in (False, True)}):
        sig = "NOZERO %s, %s exponent, %s fraction" % ("on" if nz else "off", "with" if hasexp else "no", "with" if hasdot else "no")
        if (nz, hasexp, hasdot) in bad:
            txt, data, flags = bad[(nz, hasexp, hasdot)]
            chk.refuted(rid, f.name, sig, f.entry.term.locstr(),
                        "the conversion result %r is handed to the buffer as %r under flags %d: %s"
                        % (txt.decode(), data.decode("latin-1"), flags,
                           "not an RFC 8259 number" if RFC_NUM.match(data) is None else "a different value"),
                        {"converted": txt.decode(), "emitted": data.decode("latin-1"), "flags": flags})
        else:
            chk.proven(rid, f.name, sig, f.entry.term.locstr(), "value and syntax preserved on every sample shape")
    if und:
        chk.undecided(rid, f.name, "%d evaluations" % und, f.entry.term.locstr(), "the emitted text could not be reconstructed")
    chk.floor(rid, n, 500, "(conversion text, flags) evaluations")


# ---------------------------------------------------------------------------
# R7 indentation is white space, level by level
def r7_indent(chk, prog, m):
    from ..strpe import StrPE
    rid = "C02.R7"
    chk.rule(rid, "the indentation helper, evaluated for nesting levels 0..70 with and without the tab option: it appends exactly "
                  "`level` tabs or 2 * `level` blanks - taken from a fill or from a constant run that is long enough - and nothing "
                  "else (the pretty flags change only insignificant white space at every depth)")
    f = m.functions.get("indent")
    if f is None or f.is_decl:
        chk.undecided(rid, "indent", "indentation", "json_object.c:1:1", "no function named indent (the helper may have been inlined by hand)")
        return
    chk.touched(f)
    flags = m.enumerators(None)
    PRETTY, TAB = 1 << 1, 1 << 3

    class IndPE(StrPE):
        def should_inline(self, g, instr):
            return g.internal

        def call_model(self, state, frame, i, args):
            nm = i.callee or ""
            if nm == "printbuf_memset" and len(args) >= 4 and pe.is_const(args[2]) and pe.is_const(args[3]):
                self.out += bytes([args[2][1] % 256]) * max(0, args[3][1])
                return pe.C(0)
            if nm == "printbuf_memappend" and len(args) >= 3 and pe.is_const(args[2]) and args[1][0] == "ptr":
                k = args[2][1]
                data = []
                for j in range(max(0, k)):
                    b = self._byte(state, args[1], j)
                    if b is None:
                        # past the end of the constant (or not a constant at all)
                        if args[1][1].startswith("@"):
                            g = self.global_bytes(args[1][1][1:])
                            self.overread = (args[1][1][1:].split("\0")[0], k, len(g) if g is not None else None)
                        else:
                            self.unknown = True
                        return pe.C(0)
                    data.append(b)
                self.out += bytes(data)
                return pe.C(k)
            return self.libc_string_model(state, frame, i, args)
    bad = und = None
    n = 0
    for fl, unit in ((PRETTY, b"  "), (PRETTY | TAB, b"\t")):
        for level in list(range(0, 6)) + [31, 32, 33, 40, 63, 64, 65, 70]:
            h = IndPE(prog, max_leaves=20, max_steps=20000)
            h.loop_widen = 1000
            h.max_visits = 200
            h.out, h.overread, h.unknown = b"", None, False
            try:
                h.run(f, [("ptr", "pb", ()), pe.C(level), pe.C(fl)], pe.State())
            except Exception as e:
                und = und or "level %d: %s" % (level, e)
                continue
            n += 1
            if h.overread:
                bad = bad or ("at nesting level %d (%s) the helper appends %d bytes from the constant %s, which holds only %s: the bytes past "
                              "its end (its terminating NUL and whatever follows) are written into the text" %
                              (level, "tabs" if fl & TAB else "blanks", h.overread[1], h.overread[0], h.overread[2]))
            elif h.unknown:
                und = und or "level %d: the appended bytes are not concrete" % level
            elif h.out != unit * level and bad is None:
                bad = "at nesting level %d (%s) the helper appends %r..., expected %d x %r" % (
                    level, "tabs" if fl & TAB else "blanks", h.out[:12], level, unit)
    if bad:
        chk.refuted(rid, f.name, "indentation", f.entry.term.locstr(), bad)
    elif und:
        chk.undecided(rid, f.name, "indentation", f.entry.term.locstr(), und)
    else:
        chk.proven(rid, f.name, "indentation", f.entry.term.locstr(), "exact white space on %d (level, option) pairs" % n)
    chk.floor(rid, n, 20, "(level, option) pairs")
